/*
 * Deterministic simulation harness for libcstl -- core interface.
 *
 * One process executes many "runs". A run = generate a plan from a seed (or
 * read one from a replay file) and execute it against the real library code
 * inside the simulated outside world: sim heap (malloc/realloc/free), abort
 * trap, rand() stream, callbacks, and (world memc) the fiber scheduler.
 */
#ifndef SIM_H
#define SIM_H

#include <stddef.h>
#include <stdint.h>
#include <stdio.h>
#include <setjmp.h>

/* ------------------------------------------------------------------ prng */

typedef struct { uint64_t s[4]; } prng_t;

static inline uint64_t splitmix64(uint64_t *x)
{
    uint64_t z = (*x += 0x9e3779b97f4a7c15ull);
    z = (z ^ (z >> 30)) * 0xbf58476d1ce4e5b9ull;
    z = (z ^ (z >> 27)) * 0x94d049bb133111ebull;
    return z ^ (z >> 31);
}

static inline void prng_seed(prng_t *r, uint64_t seed)
{
    int i;
    for (i = 0; i < 4; i++) r->s[i] = splitmix64(&seed);
}

static inline uint64_t prng_next(prng_t *r)
{
    uint64_t *s = r->s;
    const uint64_t result = ((s[1] * 5) << 7 | (s[1] * 5) >> 57) * 9;
    const uint64_t t = s[1] << 17;
    s[2] ^= s[0]; s[3] ^= s[1]; s[1] ^= s[2]; s[0] ^= s[3];
    s[2] ^= t;
    s[3] = (s[3] << 45) | (s[3] >> 19);
    return result;
}

/* uniform in [0, n), n > 0 */
static inline uint64_t prng_below(prng_t *r, uint64_t n)
{
    return prng_next(r) % n;
}

/* true with probability num/den */
static inline int prng_chance(prng_t *r, unsigned num, unsigned den)
{
    return prng_below(r, den) < num;
}

/* uniform in [lo, hi] */
static inline uint64_t prng_range(prng_t *r, uint64_t lo, uint64_t hi)
{
    return lo + prng_below(r, hi - lo + 1);
}

static inline uint64_t mix_seed(uint64_t base, uint64_t a, uint64_t b)
{
    uint64_t x = base ^ (a * 0x9e3779b97f4a7c15ull);
    uint64_t y = splitmix64(&x);
    y ^= b * 0xc2b2ae3d27d4eb4full;
    return splitmix64(&y);
}

/* ------------------------------------------------------------------ plan */

#define NARG 8
#define NCFG 24
#define MAXOPS 8192
#define MAXSCHED 65536

typedef struct {
    int kind;
    uint64_t a[NARG];
} op_t;

typedef struct {
    char world[16];
    int mode;
    uint64_t cfg[NCFG];
    int nops;
    op_t ops[MAXOPS];
    int nsched;                 /* explicit schedule (memc); 0 = none */
    int sched[MAXSCHED];
} plan_t;

static inline op_t *plan_add(plan_t *p, int kind)
{
    op_t *o;
    int i;
    if (p->nops >= MAXOPS) return &p->ops[MAXOPS - 1];
    o = &p->ops[p->nops++];
    o->kind = kind;
    for (i = 0; i < NARG; i++) o->a[i] = 0;
    return o;
}

void plan_write(FILE *f, const plan_t *p);
int plan_read(FILE *f, plan_t *p);      /* 1 = ok, 0 = eof, -1 = error */
uint64_t plan_hash(const plan_t *p);

/* ----------------------------------------------------------------- world */

typedef struct world {
    const char *name;
    /* fill *p from the generator; mode selects the property-specific mix */
    void (*gen)(prng_t *r, int mode, plan_t *p);
    /* execute; violations are reported through sim_violation() */
    void (*exec)(const plan_t *p);
    const char *(*opname)(int kind);
    /* which property a crash (signal / sanitizer) during this op belongs to */
    const char *(*crash_prop)(const plan_t *p, int opkind);
} world_t;

extern const world_t world_lists, world_trees, world_heap, world_map,
       world_hash, world_vector, world_string, world_sort, world_array, world_par,
       world_mem, world_memc;

/* ------------------------------------------------------ run-global state */

#define MAXPROBE 1024

struct sim_run {
    /* identification (for crash lines) */
    long long run_index;
    const plan_t *plan;
    const world_t *world;
    int step;                   /* index of the op in flight */
    int opkind;

    /* results */
    int violated;
    char key[160];
    char detail[400];
    int vstep;
    uint64_t evhash;
    uint64_t steps;             /* logical steps executed (ops / sched points) */
    uint64_t statehash;         /* world-chosen abstract state/interleaving hash */
    int nontrivial;
    int ended_by_abort;         /* run ended at an expected abort */
    int trace;                  /* verbose event trace to stderr */
};

extern struct sim_run g_run;
extern const char *g_cur_ctx;    /* short state-derived discriminator of the op in flight (static string) */
extern const char *g_cur_prop;   /* property the op in flight belongs to (crash / heap error attribution) */
extern jmp_buf g_run_jmp;

extern uint64_t g_probe[MAXPROBE];
extern const char *g_probe_name[MAXPROBE];
int probe_id(const char *name);         /* registers on first use */
/* (the name may be an expression that picks one of several literals: the cached id follows the name) */
#define PROBE(name) do { static int _pid = -1; static const char *_pnm; const char *_n = (name); \
        if (_pid < 0 || _pnm != _n) { _pnm = _n; _pid = probe_id(_n); } g_probe[_pid]++; } while (0)
/* probe with a run-time name (interned by content) */
void probe_dyn(const char *name);
void sim_watchdog(int seconds);          /* CPU-time budget of the current run: 3*seconds (default 20) */
extern uint64_t g_gen_index;
#define PROBE_N(name, n) do { static int _pid = -1; static const char *_pnm; const char *_n = (name); \
        if (_pid < 0 || _pnm != _n) { _pnm = _n; _pid = probe_id(_n); } g_probe[_pid] += (n); } while (0)

/* abstract-state hash set (distinct states reached, measured) */
void state_note(uint64_t h);

/* event log: hashed always, printed when tracing */
void ev(const char *what, uint64_t a, uint64_t b, uint64_t c);
#define EVT(what, a, b, c) ev(what, (uint64_t)(a), (uint64_t)(b), (uint64_t)(c))

/* report a violation and end the run (does not return) */
void sim_violation(const char *key, const char *fmt, ...)
    __attribute__((noreturn, format(printf, 2, 3)));
/* record a violation without unwinding (used from fibers) */
void sim_violation_noreturn_off(const char *key, const char *fmt, ...)
    __attribute__((format(printf, 2, 3)));
/* harness self-check failure: exit(2) */
void sim_harness_bug(const char *fmt, ...)
    __attribute__((noreturn, format(printf, 1, 2)));

/* ------------------------------------------------------------ abort trap */

extern jmp_buf g_trap_jmp;
extern volatile int g_trap_armed;
extern volatile int g_aborted;  /* 0 none, 1 abort(), 2 assert */
extern volatile int g_inlib;    /* allocations belong to the library */

/* hook called from __wrap_abort when running inside a fiber (memc) */
extern void (*g_abort_in_fiber)(int kind);

/*
 * TRY(stmt): run a library call with the abort trap armed.
 * Afterwards g_aborted says whether it aborted. All state the caller needs
 * after a trapped abort must live in static storage.
 */
/* work meter (variant "work": the library objects are compiled with -fsanitize-coverage=trace-pc): the number of basic
 * blocks of library code executed, a deterministic, machine-independent measure of how much an operation did */
extern uint64_t g_work, g_work_at_try;
extern unsigned g_solo_yields;
extern int g_simpt_fresh;
#define TRY(stmt) do { \
        g_aborted = 0; g_trap_armed = 1; simheap_op_begin(); g_work_at_try = g_work; g_solo_yields = 0; \
        if (_setjmp(g_trap_jmp) == 0) { g_inlib = 1; stmt; } \
        g_inlib = 0; g_trap_armed = 0; simheap_op_end(); \
    } while (0)

/* harness callbacks invoked from inside the library */
#define CB_ENTER() int _saved_inlib = g_inlib; g_inlib = 0
#define CB_LEAVE() g_inlib = _saved_inlib

/* -------------------------------------------------------------- sim heap */

enum { TAG_LIB = 1, TAG_ELEM = 2, TAG_EXT = 3 };
enum { RP_MOVE = 0, RP_INPLACE_SHRINK = 1, RP_INPLACE_FIT = 2 };

struct simheap_cfg {
    int realloc_policy;
    uint64_t budget;            /* bytes; any request above fails */
    unsigned char junk;         /* fill for fresh memory */
};

void simheap_reset(const struct simheap_cfg *cfg, uint64_t seed);
void simheap_end_run(void);
/* after simheap_reset(): place the element blocks of this run 2^32 bytes apart (1) or 3 * 2^31 bytes apart (2); see simheap.c */
void simheap_far(int mode);
void simheap_far_nodeoff(size_t off);    /* far mode 3: the member at this offset of every element block lies on a multiple of 2^32 */
extern unsigned g_far_placed, g_reused;
#define CF_FAR 20               /* plan word (worlds with intrusive elements): the far-placement mode of the run */
#define CF_REUSE 22             /* plan word: freed blocks are handed out again at once (same size, last freed first), as a real allocator does */
#define REUSE_OF_INDEX() (g_gen_index % 6 == 4 ? 1u : 0u)
#define CF_DECL 21              /* plan word: the containers of the run start from the static initializer macros, not the init functions */
#define DECL_OF_INDEX() (g_gen_index % 5 == 2 ? 1u : 0u)
#define FAR_OF_INDEX() (g_gen_index % 7 == 3 ? 1u : g_gen_index % 7 == 5 ? 2u : g_gen_index % 7 == 6 ? 3u : 0u)

/* harness-side allocation of tracked blocks (elements, external buffers) */
void *simheap_alloc(size_t size, int tag);
void simheap_free(void *p);     /* poison + quarantine */

/* fault plan */
void simheap_fail_in_op(unsigned ordinal);      /* 1-based nth lib alloc of this op; 0 = none */
void simheap_fail_prob(unsigned per_mille);     /* probabilistic failure of lib allocs */
void simheap_fail_global(const unsigned char *bitmap, unsigned nbits, unsigned suffix_from);
        /* bitmap over global 1-based lib alloc ordinals; suffix_from>0: all from there fail */
void simheap_op_begin(void);    /* called by TRY: zero per-op counters and events */
void simheap_op_end(void);      /* called by TRY */

struct simheap_stats {
    uint64_t lib_allocs;        /* library allocation calls this run (incl. failed) */
    uint64_t lib_frees;
    uint64_t fired;             /* injected failures that fired this run */
    uint64_t fired_in_op;       /* ... during the last TRY */
    uint64_t enomem;            /* over-budget failures this run */
    uint64_t enomem_in_op;
    uint64_t allocs_in_op;
    uint64_t frees_in_op;
    uint64_t moved;             /* reallocs that moved */
    uint64_t inplace;
};
extern struct simheap_stats g_hs;

/* queries */
int simheap_is_live(const void *p);     /* p is the start of a live block */
size_t simheap_size(const void *p);     /* size of live block starting at p */
int simheap_tag(const void *p);
int simheap_id(const void *p);
int simheap_id_live(int id);            /* block #id is still allocated */
void *simheap_id_ptr(int id);          /* ordinal id of live or quarantined block starting at p, -1 */
/* block containing address (live or freed): returns id or -1; *live, *off */
int simheap_find(const void *addr, int *live, size_t *off, size_t *size);
unsigned simheap_live_count(int tag);
/* enumerate live blocks of a tag (in allocation order); returns the number found (may exceed max) */
unsigned simheap_list(int tag, void **ptrs, size_t *sizes, unsigned max);
uint64_t simheap_live_bytes(int tag);
/* canaries of all live+quarantined blocks (rel/dbg); returns id of a damaged block or -1 */
int simheap_check_canaries(void);
/* quarantined blocks must still hold the poison byte; returns id or -1 */
int simheap_check_poison(void);
/* generic audit: canaries + poison; reports violation under key prefix */
void simheap_audit(const char *prop, const char *ctx);
/* free events since last call to simheap_events_clear(): ids of freed lib blocks */
#define MAXHEV 64
struct simheap_event { int kind; int id; size_t size; };  /* kind: 'A','F','R','X'(failed) */
extern struct simheap_event g_hev[MAXHEV];
extern int g_nhev;
void simheap_events_clear(void);

/*
 * Systematic allocation-fault enumeration (C16): executes once(p) fault-free to
 * count the library's allocation calls N, then again with every single ordinal
 * failing, every suffix failing, every pair (N <= 40, seeded sample above) and
 * every triple (N <= 12). once() must reset its world, call faultenum_apply()
 * right after simheap_reset(), and finish with its own leak audit.
 */
void faultenum(const plan_t *p, void (*once)(const plan_t *));
void faultenum_apply(void);
extern const char *g_fe_desc;   /* description of the placement in force ("none", "single:7", ...) */

/* schedule point hook (memc): called from alloc wrappers when in a fiber */
extern void (*g_sched_point)(int kind, const void *addr);
/* observer of library frees (memc): block id and address, called before the block is poisoned */
extern void (*g_free_hook)(int id, void *ptr);
/* the schedule the last run actually took (memc), for replay files */
extern int g_sched_trace[MAXSCHED];
extern int g_nsched_trace;

/* atomics shim (sim/shim/stdatomic.h, sched.h) */
extern void (*g_atomic_hook)(const char *file, int line, const volatile void *addr, int kind);
extern int (*g_yield_hook)(void);
extern void (*g_fiber_escape)(void);

/* --------------------------------------------------------------- simrand */

enum { RS_UNIFORM = 0, RS_STICKY = 1 };
void simrand_reset(uint64_t seed, int kind);
extern uint64_t g_rand_calls;

/* ---------------------------------------------------- comparator magnitude */

/* The comparison contract is "<0, 0, >0", not "-1, 0, +1": each run picks how large the non-zero results are
 * (1, 2^16, 2^16+1, INT_MAX/INT_MIN), so a result stored in a narrow variable or subtracted shows. */
extern unsigned g_cmp_mag;
static inline int sim_cmp(int sign)
{
    switch (g_cmp_mag & 3) {
    default: case 0: return sign;
    case 1: return sign * 65536;
    case 2: return sign > 0 ? 65537 : sign < 0 ? -131072 : 0;
    case 3: return sign > 0 ? 2147483647 : sign < 0 ? (-2147483647 - 1) : 0;
    }
}

/* ------------------------------------------------------------------ misc */

static inline uint64_t fnv1a(uint64_t h, uint64_t v)
{
    int i;
    for (i = 0; i < 8; i++) { h ^= (v >> (8 * i)) & 0xff; h *= 0x100000001b3ull; }
    return h;
}

#if defined(__SANITIZE_ADDRESS__)
# define SIM_ASAN 1
#elif defined(__has_feature)
# if __has_feature(address_sanitizer)
#  define SIM_ASAN 1
# endif
#endif
#ifndef SIM_ASAN
# define SIM_ASAN 0
#endif
/* builds whose sanitizer must see the real free(): no canaries, no quarantine in the sim heap */
#if SIM_ASAN || defined(SIM_TSAN)
# define SIM_REALFREE 1
#else
# define SIM_REALFREE 0
#endif

#endif
