/*
 * Sim heap: the allocator the library sees (via -Wl,--wrap=malloc,realloc,free).
 *
 * - every tracked block has an ordinal id, a tag, its requested size and
 *   (non-ASan builds) front/back canaries;
 * - fresh memory is filled with a junk byte, freed memory is overwritten with
 *   0xDD and quarantined until the end of the run (non-ASan) so that ids stay
 *   unambiguous and stale reads see recognisable garbage; under ASan the block
 *   is really released so ASan's shadow catches the stale access itself;
 * - finite memory: requests above the budget fail like ENOMEM;
 * - injected failures: nth allocation of the current operation, a bitmap or
 *   suffix over global ordinals (C16), or probabilistic;
 * - realloc policy: always move / in place when shrinking / in place when fits.
 *
 * Only allocations made while g_inlib is set are library allocations.
 */
#include "sim.h"

#include <stdlib.h>
#include <string.h>
#include <stdarg.h>

void *__real_malloc(size_t);
void *__real_realloc(void *, size_t);
void __real_free(void *);

#define CAN 16
#define CAN_FRONT 0xC5
#define CAN_BACK  0x5C
#define POISON    0xDD
#define QUARANTINE_CAP (48u << 20)

struct blk {
    unsigned char *user;
    size_t size;        /* requested */
    size_t alloc;       /* usable capacity (>= size) */
    int tag;
    int live;
    int released;       /* real memory already returned */
    int far;            /* 1 + far slot the block lives in, 0: ordinary memory */
};

static struct blk *blks;
static unsigned nblks, capblks;

/* pointer -> index+1, open addressing */
static unsigned *pmap;
static unsigned pmap_size;      /* power of two */
static unsigned pmap_used;

static struct simheap_cfg hcfg;
static prng_t hprng;
static uint64_t live_bytes_lib;
static unsigned live_count[8];
#define MAXQUICK 64
static int quick[MAXQUICK];     /* indexes of (up to MAXQUICK) live library blocks: canaries checked after every TRY */
static int nquick;
static uint64_t quarantine_bytes;
static unsigned quarantine_head;        /* next block index to consider for release */

static unsigned fail_in_op;
static unsigned fail_prob;
static const unsigned char *fail_bitmap;
static unsigned fail_nbits, fail_suffix;

struct simheap_stats g_hs;
struct simheap_event g_hev[MAXHEV];
int g_nhev;
void (*g_sched_point)(int kind, const void *addr);
void (*g_free_hook)(int id, void *ptr);
const char *g_cur_prop = "C00";

static void hev(int kind, int id, size_t size)
{
    if (g_nhev < MAXHEV) {
        g_hev[g_nhev].kind = kind;
        g_hev[g_nhev].id = id;
        g_hev[g_nhev].size = size;
        g_nhev++;
    }
}

void simheap_events_clear(void) { g_nhev = 0; }

static unsigned phash(const void *p)
{
    uint64_t x = (uint64_t)(uintptr_t)p;
    x ^= x >> 33; x *= 0xff51afd7ed558ccdull; x ^= x >> 29;
    return (unsigned)x;
}

static void pmap_grow(void);

static void pmap_put(const void *p, unsigned idx)
{
    unsigned i;
    if ((pmap_used + 1) * 2 > pmap_size) pmap_grow();
    i = phash(p) & (pmap_size - 1);
    for (;;) {
        if (pmap[i] == 0) { pmap[i] = idx + 1; pmap_used++; return; }
        if (blks[pmap[i] - 1].user == p) { pmap[i] = idx + 1; return; }
        i = (i + 1) & (pmap_size - 1);
    }
}

static int pmap_get(const void *p)
{
    unsigned i;
    if (pmap_size == 0) return -1;
    i = phash(p) & (pmap_size - 1);
    for (;;) {
        if (pmap[i] == 0) return -1;
        if (blks[pmap[i] - 1].user == p) return (int)(pmap[i] - 1);
        i = (i + 1) & (pmap_size - 1);
    }
}

static void pmap_rebuild(unsigned newsize)
{
    unsigned i;
    __real_free(pmap);
    pmap = __real_malloc(sizeof(*pmap) * newsize);
    memset(pmap, 0, sizeof(*pmap) * newsize);
    pmap_size = newsize;
    pmap_used = 0;
    for (i = 0; i < nblks; i++) {
        /* later ids win for a reused address: insert in order */
        if (!blks[i].released || blks[i].live) {
            unsigned j = phash(blks[i].user) & (pmap_size - 1);
            for (;;) {
                if (pmap[j] == 0) { pmap[j] = i + 1; pmap_used++; break; }
                if (blks[pmap[j] - 1].user == blks[i].user) { pmap[j] = i + 1; break; }
                j = (j + 1) & (pmap_size - 1);
            }
        }
    }
}

static void pmap_grow(void)
{
    pmap_rebuild(pmap_size ? pmap_size * 2 : 1024);
}

/* ------------------------------------------------------------ far placement
 * Element blocks (TAG_ELEM) of a run may be placed one per "slot" in an arena of pages that lie 2^32 bytes apart with the same
 * offset in the page (mode 1: every two elements of the run have addresses that agree in their low 32 bits and differ above)
 * or 3 * 2^31 bytes apart with varying offsets (mode 2: every two elements are further apart than an int can hold). Code that
 * compares, subtracts, xors or hashes node addresses in 32 bits behaves on such elements as on no others. The pages are mapped
 * on first use and stay; a slot is reused when its block is released from quarantine. */
#include <sys/mman.h>
#ifndef MAP_FIXED_NOREPLACE
# define MAP_FIXED_NOREPLACE 0x100000
#endif
#define FAR_SLOTS 2048
#define FAR_BASE ((uintptr_t)1 << 44)
static unsigned char far_mapped[3][FAR_SLOTS], far_busy[3][FAR_SLOTS];
static size_t far_nodeoff;      /* mode 3: the member at this offset of every element lies exactly on a multiple of 2^32 */
void simheap_far_nodeoff(size_t off) { far_nodeoff = off; }
static int far_mode, far_next;
unsigned g_far_placed;
void simheap_far(int mode) { far_mode = SIM_REALFREE ? 0 : mode; far_next = 0; far_nodeoff = 0; }
static unsigned char *far_take(size_t bytes, int *slot_out)
{
    int m = far_mode - 1, tries;
    if (far_mode < 1 || far_mode > 3 || bytes > 2048 || (far_mode == 3 && far_nodeoff + CAN > 2048)) return NULL;
    for (tries = 0; tries < FAR_SLOTS; tries++) {
        int sl = far_next; uintptr_t pg;
        far_next = (far_next + 1) % FAR_SLOTS;
        if (far_busy[m][sl]) continue;
        pg = FAR_BASE + (m == 2 ? ((uintptr_t)1 << 45) + ((uintptr_t)(sl + 1) << 32) - 4096 : m ? ((uintptr_t)1 << 46) + (uintptr_t)sl * ((uintptr_t)3 << 31) : (uintptr_t)sl << 32);
        if (!far_mapped[m][sl]) {
            size_t len = m == 2 ? 8192 : 4096;      /* mode 3: the page below and the page above a multiple of 2^32 */
            if (mmap((void *)pg, len, PROT_READ | PROT_WRITE, MAP_PRIVATE | MAP_ANONYMOUS | MAP_FIXED_NOREPLACE, -1, 0) != (void *)pg) { far_busy[m][sl] = 2; continue; }
            far_mapped[m][sl] = 1;
        }
        far_busy[m][sl] = 1;
        *slot_out = m * FAR_SLOTS + sl;
        g_far_placed++;
        if (m == 2) return (unsigned char *)pg + 4096 - far_nodeoff - CAN;      /* user pointer = boundary - nodeoff */
        return (unsigned char *)pg + (m ? 64 + (sl % 16) * 112 : 256);
    }
    return NULL;
}
static void far_give(int slot) { far_busy[slot / FAR_SLOTS][slot % FAR_SLOTS] = 0; }

/* ---------------------------------------------------------------- reuse
 * By default a freed block is poisoned and kept in quarantine, so no address comes back during a run: good for catching
 * use after free, but it hides everything that depends on malloc returning the address it was just given back (a remembered
 * pointer that compares equal to a new node, an "is it the same buffer" test). In reuse runs the last freed block of exactly
 * the requested size is handed out again at once, as glibc's per-size free lists do. */
static int reuse_mode;
static unsigned recent[8]; static int nrecent;
unsigned g_reused;

void simheap_reset(const struct simheap_cfg *cfg, uint64_t seed)
{
    simheap_end_run();
    hcfg = *cfg;
    if (hcfg.budget == 0) hcfg.budget = 16u << 20;
    if (hcfg.junk == 0 || hcfg.junk == POISON) hcfg.junk = 0xA5;
    prng_seed(&hprng, seed ^ 0x5eed4ea9ull);
    memset(&g_hs, 0, sizeof(g_hs));
    g_nhev = 0;
    fail_in_op = 0; fail_prob = 0; fail_bitmap = NULL; fail_nbits = 0; fail_suffix = 0;
    far_mode = 0; far_next = 0;
    reuse_mode = (!SIM_REALFREE && g_run.plan) ? (int)g_run.plan->cfg[CF_REUSE] : 0; nrecent = 0;
}

void simheap_end_run(void)
{
    unsigned i;
    for (i = 0; i < nblks; i++) {
        if (!blks[i].released) {
            if (blks[i].far) far_give(blks[i].far - 1); else
            __real_free(SIM_REALFREE ? blks[i].user : blks[i].user - CAN);
            blks[i].released = 1;
        }
    }
    nblks = 0;
    memset(live_count, 0, sizeof live_count);
    nquick = 0;
    live_bytes_lib = 0;
    quarantine_bytes = 0;
    quarantine_head = 0;
    if (pmap_size) { memset(pmap, 0, sizeof(*pmap) * pmap_size); pmap_used = 0; }
}

static struct blk *blk_new(size_t size, int tag)
{
    struct blk *b;
    size_t alloc = size;
    unsigned char *real;

    if (nblks == capblks) {
        capblks = capblks ? capblks * 2 : 1024;
        blks = __real_realloc(blks, sizeof(*blks) * capblks);
    }
    if (!SIM_REALFREE && hcfg.realloc_policy == RP_INPLACE_FIT && tag == TAG_LIB)
        alloc = size + prng_below(&hprng, 65);
#if SIM_REALFREE
    real = __real_malloc(size ? size : 1);
    if (real == NULL) return NULL;
    memset(real, hcfg.junk, size);
    b = &blks[nblks];
    b->user = real;
    b->far = 0;
#else
    { int slot = -1, q;
      real = tag == TAG_ELEM ? far_take(alloc + 2 * CAN, &slot) : NULL;
      if (real == NULL && reuse_mode) for (q = nrecent - 1; q >= 0; q--) {
          struct blk *o = &blks[recent[q]];
          if (!o->live && !o->released && !o->far && o->alloc == alloc && o->tag == tag) {
              real = o->user - CAN; o->released = 1; quarantine_bytes -= o->alloc; g_reused++;
              memmove(&recent[q], &recent[q + 1], sizeof recent[0] * (size_t)(nrecent - 1 - q)); nrecent--;
              break;
          }
      }
      if (real == NULL) { slot = -1; real = __real_malloc(alloc + 2 * CAN); }
      if (real == NULL) return NULL;
      blks[nblks].far = slot + 1; }
    memset(real, CAN_FRONT, CAN);
    memset(real + CAN, hcfg.junk, alloc);
    memset(real + CAN + size, CAN_BACK, CAN);
    b = &blks[nblks];
    b->user = real + CAN;
#endif
    b->size = size;
    b->alloc = alloc;
    b->tag = tag;
    b->live = 1;
    b->released = 0;
    live_count[tag & 7]++;
    if (tag == TAG_LIB && nquick < MAXQUICK) quick[nquick++] = (int)nblks;
    nblks++;
    pmap_put(b->user, nblks - 1);
    return b;
}

static void quarantine_trim(void)
{
#if !SIM_REALFREE
    while (quarantine_bytes > QUARANTINE_CAP && quarantine_head < nblks) {
        struct blk *b = &blks[quarantine_head++];
        if (!b->live && !b->released) {
            /* forget the address: it may be reused by the real allocator */
            b->released = 1;
            quarantine_bytes -= b->alloc;
            if (b->far) far_give(b->far - 1); else
            __real_free(b->user - CAN);
            pmap_rebuild(pmap_size);
        }
    }
#endif
}

static void blk_release(struct blk *b)
{
    b->live = 0;
    live_count[b->tag & 7]--;
    if (b->tag == TAG_LIB) {
        int qi;
        for (qi = 0; qi < nquick; qi++) if (quick[qi] == (int)(b - blks)) { quick[qi] = quick[--nquick]; break; }
    }
#if SIM_REALFREE
    b->released = 1;
    /* keep mapping until the address is reused: lets double free be seen by us too */
    __real_free(b->user);
#else
    memset(b->user, POISON, b->alloc);
    /* keep back canary region poisoned too; front canary stays */
    if (reuse_mode) { if (nrecent == 8) { memmove(&recent[0], &recent[1], sizeof recent[0] * 7); nrecent--; } recent[nrecent++] = (unsigned)(b - blks); }
    quarantine_bytes += b->alloc;
    quarantine_trim();
#endif
}

/* ---------------------------------------------------------- harness side */

void *simheap_alloc(size_t size, int tag)
{
    struct blk *b = blk_new(size, tag);
    if (b == NULL) sim_harness_bug("simheap_alloc: out of real memory");
    return b->user;
}

void simheap_free(void *p)
{
    int i = pmap_get(p);
    if (i < 0 || !blks[i].live) sim_harness_bug("simheap_free: not a live tracked block");
    blk_release(&blks[i]);
}

/* ---------------------------------------------------------------- faults */

void simheap_fail_in_op(unsigned ordinal) { fail_in_op = ordinal; }
void simheap_fail_prob(unsigned per_mille) { fail_prob = per_mille; }
void simheap_fail_global(const unsigned char *bitmap, unsigned nbits, unsigned suffix_from)
{
    fail_bitmap = bitmap; fail_nbits = nbits; fail_suffix = suffix_from;
}

static void heap_violation(const char *what, const char *fmt, ...);

void simheap_op_end(void)
{
    /* counters for the *next* op start at zero; keep last-op values readable */
    fail_in_op = 0;
#if !SIM_REALFREE
    {
        /* the library call just returned (or aborted): before any harness code trusts memory again,
         * make sure it did not write outside the blocks it owns */
        int qi; unsigned k;
        for (qi = 0; qi < nquick; qi++) {
            struct blk *b = &blks[quick[qi]];
            for (k = 0; k < CAN; k++)
                if (b->user[-1 - (int)k] != CAN_FRONT || b->user[b->size + k] != CAN_BACK)
                    heap_violation("canary", "write outside library block #%d (size %zu) during the last library call", quick[qi], b->size);
        }
    }
#endif
}

/* decide whether this library allocation fails; 1 = injected, 2 = enomem */
static int alloc_verdict(size_t size, size_t already)
{
    unsigned ord;
    g_hs.lib_allocs++;
    g_hs.allocs_in_op++;
    ord = (unsigned)g_hs.lib_allocs;
    if ((fail_in_op && g_hs.allocs_in_op == fail_in_op)
        || (fail_bitmap && ord <= fail_nbits && (fail_bitmap[ord >> 3] >> (ord & 7) & 1))
        || (fail_suffix && ord >= fail_suffix)
        || (fail_prob && prng_below(&hprng, 1000) < fail_prob)) {
        g_hs.fired++; g_hs.fired_in_op++;
        return 1;
    }
    if (size > hcfg.budget || live_bytes_lib - already + size > hcfg.budget) {
        g_hs.enomem++; g_hs.enomem_in_op++;
        return 2;
    }
    return 0;
}

/* called by worlds right before a TRY to zero the per-op counters */
void simheap_op_begin(void)
{
    g_hs.fired_in_op = 0; g_hs.enomem_in_op = 0;
    g_hs.allocs_in_op = 0; g_hs.frees_in_op = 0;
    g_nhev = 0;
}

/* ---------------------------------------------------------- library side */

extern const char *g_cur_prop;

static void heap_violation(const char *what, const char *fmt, ...)
{
    char key[96], detail[200];
    va_list ap;
    int saved = g_inlib;
    g_inlib = 0;
    snprintf(key, sizeof key, "%s/heap/%s", g_cur_prop, what);
    va_start(ap, fmt);
    vsnprintf(detail, sizeof detail, fmt, ap);
    va_end(ap);
    (void)saved;
    sim_violation(key, "%s", detail);
}

void *__wrap_malloc(size_t size)
{
    struct blk *b;
    if (!g_inlib) return __real_malloc(size);
    if (g_sched_point) g_sched_point('m', NULL);
    if (alloc_verdict(size, 0)) { hev('X', -1, size); return NULL; }
    b = blk_new(size, TAG_LIB);
    if (b == NULL) { hev('X', -1, size); return NULL; }
    live_bytes_lib += size;
    hev('A', (int)(b - blks), size);
    return b->user;
}

static void lib_free_idx(int i)
{
    struct blk *b = &blks[i];
    live_bytes_lib -= b->size;
    g_hs.lib_frees++;
    g_hs.frees_in_op++;
    hev('F', i, b->size);
    if (g_free_hook) g_free_hook(i, b->user);
    blk_release(b);
}

void __wrap_free(void *p)
{
    int i;
    if (p == NULL) return;
    i = pmap_get(p);
    if (i < 0) {
        if (g_inlib) {
            int live; size_t off, size;
            int id = simheap_find(p, &live, &off, &size);
            heap_violation("free_unknown", "library freed a pointer that is not the start of a block (inside block %d off %zu live %d)", id, off, live);
        }
        __real_free(p);
        return;
    }
    if (!g_inlib) {
        /* harness freeing a tracked block through free(): treat like simheap_free */
        if (!blks[i].live) sim_harness_bug("harness double free of tracked block %d", i);
        blk_release(&blks[i]);
        return;
    }
    if (g_sched_point) g_sched_point('f', p);
    if (!blks[i].live)
        heap_violation("double_free", "library freed block #%d (size %zu) twice", i, blks[i].size);
    if (blks[i].tag != TAG_LIB)
        heap_violation("foreign_free", "library freed block #%d which it did not allocate (tag %d)", i, blks[i].tag);
    lib_free_idx(i);
}

void *__wrap_realloc(void *p, size_t size)
{
    int i;
    struct blk *b, *nb;
    int verdict;

    if (!g_inlib) {
        if (p != NULL && pmap_get(p) >= 0) sim_harness_bug("harness realloc of tracked block");
        return __real_realloc(p, size);
    }
    if (p == NULL) return __wrap_malloc(size);
    if (size == 0) { __wrap_free(p); return NULL; }      /* glibc semantics */

    if (g_sched_point) g_sched_point('m', NULL);
    i = pmap_get(p);
    if (i < 0) heap_violation("realloc_unknown", "library realloc'd an unknown pointer");
    b = &blks[i];
    if (!b->live) heap_violation("realloc_freed", "library realloc'd freed block #%d", i);
    if (b->tag != TAG_LIB) heap_violation("foreign_realloc", "library realloc'd block #%d it did not allocate", i);

    verdict = alloc_verdict(size, b->size);
    if (verdict) { hev('X', i, size); return NULL; }

#if !SIM_REALFREE
    if ((hcfg.realloc_policy == RP_INPLACE_SHRINK && size <= b->size)
        || (hcfg.realloc_policy == RP_INPLACE_FIT && size <= b->alloc)) {
        if (size > b->size) memset(b->user + b->size, hcfg.junk, size - b->size);
        live_bytes_lib += size; live_bytes_lib -= b->size;
        if (size < b->size) memset(b->user + size, POISON, b->size - size);
        b->size = size;
        memset(b->user + size, CAN_BACK, CAN);
        g_hs.inplace++;
        hev('R', i, size);
        return b->user;
    }
#else
    if (size == b->size) { g_hs.inplace++; hev('R', i, size); return b->user; }
#endif
    nb = blk_new(size, TAG_LIB);
    if (nb == NULL) { hev('X', i, size); return NULL; }
    b = &blks[i];       /* blks may have moved */
    memcpy(nb->user, b->user, size < b->size ? size : b->size);
    live_bytes_lib += size;
    hev('A', (int)(nb - blks), size);
    {
        void *res = nb->user;
        lib_free_idx(i);
        g_hs.lib_frees--; g_hs.frees_in_op--;   /* a move is not a free call */
        g_hs.moved++;
        return res;
    }
}

/* --------------------------------------------------------------- queries */

int simheap_is_live(const void *p)
{
    int i = pmap_get(p);
    return i >= 0 && blks[i].live;
}

size_t simheap_size(const void *p)
{
    int i = pmap_get(p);
    return (i >= 0 && blks[i].live) ? blks[i].size : 0;
}

int simheap_tag(const void *p)
{
    int i = pmap_get(p);
    return i >= 0 ? blks[i].tag : 0;
}

int simheap_id(const void *p)
{
    return pmap_get(p);
}

int simheap_id_live(int id)
{
    return id >= 0 && (unsigned)id < nblks && blks[id].live;
}

void *simheap_id_ptr(int id)
{
    return (id >= 0 && (unsigned)id < nblks) ? blks[id].user : NULL;
}

int simheap_find(const void *addr, int *live, size_t *off, size_t *size)
{
    unsigned i;
    const unsigned char *a = addr;
    /* newest first so that a reused address resolves to the current owner */
    for (i = nblks; i-- > 0;) {
        struct blk *b = &blks[i];
        if (b->released && !b->live) continue;
        if (a >= b->user && a < b->user + (b->size ? b->size : 1)) {
            if (live) *live = b->live;
            if (off) *off = (size_t)(a - b->user);
            if (size) *size = b->size;
            return (int)i;
        }
    }
    return -1;
}

unsigned simheap_live_count(int tag)
{
    return live_count[tag & 7];
}

unsigned simheap_list(int tag, void **ptrs, size_t *sizes, unsigned max)
{
    unsigned i, n = 0;
    for (i = 0; i < nblks; i++) if (blks[i].live && blks[i].tag == tag) {
        if (n < max) { ptrs[n] = blks[i].user; sizes[n] = blks[i].size; }
        n++;
    }
    return n;
}

uint64_t simheap_live_bytes(int tag)
{
    unsigned i; uint64_t n = 0;
    for (i = 0; i < nblks; i++) if (blks[i].live && blks[i].tag == tag) n += blks[i].size;
    return n;
}

int simheap_check_canaries(void)
{
#if !SIM_REALFREE
    unsigned i, k;
    for (i = 0; i < nblks; i++) {
        struct blk *b = &blks[i];
        if (b->released) continue;
        for (k = 0; k < CAN; k++) if (b->user[-1 - (int)k] != CAN_FRONT) return (int)i;
        if (b->live) {
            for (k = 0; k < CAN; k++) if (b->user[b->size + k] != CAN_BACK) return (int)i;
        }
    }
#endif
    return -1;
}

int simheap_check_poison(void)
{
#if !SIM_REALFREE
    unsigned i; size_t k;
    for (i = 0; i < nblks; i++) {
        struct blk *b = &blks[i];
        if (b->released || b->live) continue;
        for (k = 0; k < b->alloc; k++) if (b->user[k] != POISON) return (int)i;
    }
#endif
    return -1;
}

void simheap_audit(const char *prop, const char *ctx)
{
    char key[96];
    int id = simheap_check_canaries();
    if (id >= 0) {
        snprintf(key, sizeof key, "%s/heap/canary/%s", prop, ctx);
        sim_violation(key, "write outside block #%d (size %zu, tag %d)", id, blks[id].size, blks[id].tag);
    }
    id = simheap_check_poison();
    if (id >= 0) {
        snprintf(key, sizeof key, "%s/heap/write_after_free/%s", prop, ctx);
        sim_violation(key, "freed block #%d (size %zu, tag %d) was written after release", id, blks[id].size, blks[id].tag);
    }
}
