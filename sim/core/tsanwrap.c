/*
 * tsan variant only: scheduling points for IMPLICIT atomic accesses.
 *
 * The shadowed <stdatomic.h> turns every atomic_*() call of src/memory.c into a
 * scheduling point, but C11 also lets code read or write an _Atomic object with
 * a plain expression (`if (data->ref.hard > 1)`), which is a sequentially
 * consistent atomic access with no function name to shadow. Under
 * -fsanitize=thread the compiler lowers EVERY atomic access, implicit ones
 * included, to a call into the TSan runtime; those entry points are wrapped at
 * link time here, so that an access which did not come through the shim's macros
 * gets its scheduling point too.
 */
#include "sim.h"

#ifdef SIM_TSAN

int g_simpt_fresh;      /* set by sim_point(): the next runtime call belongs to a macro that already had its point */

void sim_point(const char *file, int line, const volatile void *addr, int kind);

static void implicit_point(const volatile void *a, int kind)
{
    if (g_simpt_fresh) { g_simpt_fresh = 0; return; }
    if (!g_inlib) return;
    PROBE("implicit_atomic_access_scheduled");
    sim_point("memory.c", 0, a, kind);
    g_simpt_fresh = 0;
}

#define WRAP_N(bits, T) \
    T __real___tsan_atomic##bits##_load(const volatile T *a, int mo); \
    T __wrap___tsan_atomic##bits##_load(const volatile T *a, int mo) { implicit_point(a, 'l'); return __real___tsan_atomic##bits##_load(a, mo); } \
    void __real___tsan_atomic##bits##_store(volatile T *a, T v, int mo); \
    void __wrap___tsan_atomic##bits##_store(volatile T *a, T v, int mo) { implicit_point(a, 's'); __real___tsan_atomic##bits##_store(a, v, mo); } \
    T __real___tsan_atomic##bits##_exchange(volatile T *a, T v, int mo); \
    T __wrap___tsan_atomic##bits##_exchange(volatile T *a, T v, int mo) { implicit_point(a, 'x'); return __real___tsan_atomic##bits##_exchange(a, v, mo); } \
    T __real___tsan_atomic##bits##_fetch_add(volatile T *a, T v, int mo); \
    T __wrap___tsan_atomic##bits##_fetch_add(volatile T *a, T v, int mo) { implicit_point(a, 'a'); return __real___tsan_atomic##bits##_fetch_add(a, v, mo); } \
    T __real___tsan_atomic##bits##_fetch_sub(volatile T *a, T v, int mo); \
    T __wrap___tsan_atomic##bits##_fetch_sub(volatile T *a, T v, int mo) { implicit_point(a, 'b'); return __real___tsan_atomic##bits##_fetch_sub(a, v, mo); } \
    T __real___tsan_atomic##bits##_fetch_and(volatile T *a, T v, int mo); \
    T __wrap___tsan_atomic##bits##_fetch_and(volatile T *a, T v, int mo) { implicit_point(a, 'o'); return __real___tsan_atomic##bits##_fetch_and(a, v, mo); } \
    T __real___tsan_atomic##bits##_fetch_or(volatile T *a, T v, int mo); \
    T __wrap___tsan_atomic##bits##_fetch_or(volatile T *a, T v, int mo) { implicit_point(a, 'o'); return __real___tsan_atomic##bits##_fetch_or(a, v, mo); } \
    T __real___tsan_atomic##bits##_fetch_xor(volatile T *a, T v, int mo); \
    T __wrap___tsan_atomic##bits##_fetch_xor(volatile T *a, T v, int mo) { implicit_point(a, 'o'); return __real___tsan_atomic##bits##_fetch_xor(a, v, mo); } \
    int __real___tsan_atomic##bits##_compare_exchange_strong(volatile T *a, T *c, T v, int mo, int fmo); \
    int __wrap___tsan_atomic##bits##_compare_exchange_strong(volatile T *a, T *c, T v, int mo, int fmo) { implicit_point(a, 'c'); return __real___tsan_atomic##bits##_compare_exchange_strong(a, c, v, mo, fmo); } \
    int __real___tsan_atomic##bits##_compare_exchange_weak(volatile T *a, T *c, T v, int mo, int fmo); \
    int __wrap___tsan_atomic##bits##_compare_exchange_weak(volatile T *a, T *c, T v, int mo, int fmo) { implicit_point(a, 'c'); return __real___tsan_atomic##bits##_compare_exchange_weak(a, c, v, mo, fmo); }

WRAP_N(8, unsigned char)
WRAP_N(16, unsigned short)
WRAP_N(32, unsigned int)
WRAP_N(64, unsigned long long)

#else
int g_simpt_fresh;
#endif
