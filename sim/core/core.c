/*
 * Core of the simulator process: run loop, violation reporting, event hash,
 * probes, abort/assert trap, rand() stream, crash classification, plan I/O.
 */
#define _GNU_SOURCE
#include "sim.h"

#include <stdlib.h>
#include <string.h>
#include <stdarg.h>
#include <signal.h>
#include <dlfcn.h>
#include <unistd.h>
#include <sys/wait.h>
#include <sys/time.h>
#include <inttypes.h>

struct sim_run g_run;
jmp_buf g_run_jmp;
jmp_buf g_trap_jmp;
volatile int g_trap_armed, g_aborted, g_inlib;
const char *g_cur_ctx = "";
unsigned g_cmp_mag;
void (*g_abort_in_fiber)(int kind);
void (*g_fiber_escape)(void);           /* switch back to the main context (memc) */
int g_sched_trace[MAXSCHED];
int g_nsched_trace;

uint64_t g_probe[MAXPROBE];
const char *g_probe_name[MAXPROBE];
static int nprobe;

static const world_t *worlds[] = {
    &world_lists, &world_trees, &world_heap, &world_map, &world_hash, &world_vector, &world_string, &world_array, &world_mem, &world_memc, &world_sort, &world_par,
};
#define NWORLDS (sizeof(worlds) / sizeof(worlds[0]))

static const world_t *find_world(const char *name)
{
    size_t i;
    for (i = 0; i < NWORLDS; i++)
        if (strcmp(worlds[i]->name, name) == 0) return worlds[i];
    return NULL;
}

int probe_id(const char *name)
{
    int i;
    for (i = 0; i < nprobe; i++)
        if (strcmp(g_probe_name[i], name) == 0) return i;
    if (nprobe >= MAXPROBE) sim_harness_bug("too many probes");
    g_probe_name[nprobe] = name;
    return nprobe++;
}

/* ------------------------------------------- atomics / yield shim targets */

void (*g_atomic_hook)(const char *file, int line, const volatile void *addr, int kind);
int (*g_yield_hook)(void);

void sim_point(const char *file, int line, const volatile void *addr, int kind)
{
    if (g_atomic_hook) g_atomic_hook(file, line, addr, kind);
    g_simpt_fresh = 1;          /* tsan variant: the runtime call that follows belongs to this scheduling point */
}

unsigned g_solo_yields;
int sim_yield(void)
{
    if (g_yield_hook) return g_yield_hook();
    /* a world with a single thread of control: library code that yields the processor is waiting for something that
     * only this very thread could do. A handful of yields is harmless, a thousand in one call is a deadlock. */
    if (g_inlib && ++g_solo_yields > 1000) {
        char key[160]; const char *op = "?";
        if (g_run.world && g_run.world->opname) op = g_run.world->opname(g_run.opkind);
        g_inlib = 0;
        snprintf(key, sizeof key, "%s/no_progress/%s/%s", g_cur_prop ? g_cur_prop : "C00", op ? op : "?", g_cur_ctx && *g_cur_ctx ? g_cur_ctx : "-");
        sim_violation(key, "library code yielded the processor 1000 times within one call although no other thread exists: it waits for itself");
    }
    return 0;
}

void probe_dyn(const char *name)
{
    int i;
    for (i = 0; i < nprobe; i++) if (strcmp(g_probe_name[i], name) == 0) { g_probe[i]++; return; }
    if (nprobe >= MAXPROBE) return;
    g_probe_name[nprobe] = strdup(name);
    g_probe[nprobe++] = 1;
}

/* ----------------------------------------------------- abstract state set */

static uint64_t *sset;
static size_t sset_size, sset_used;
static uint64_t sset_sample = 1;       /* keep only hashes that fall into a 1/sset_sample slice (thorough tier) */
#define SSET_CAP (1u << 23)

void state_note(uint64_t h)
{
    size_t i;
    if (h == 0) h = 1;
    if (sset_sample > 1 && (h >> 7) % sset_sample != 0) return;
    if (sset_size == 0) {
        sset_size = 1 << 16;
        sset = calloc(sset_size, sizeof(*sset));
    }
    if (sset_used * 2 > sset_size) {
        if (sset_size >= SSET_CAP) return;      /* saturated: stop counting */
        {
            uint64_t *old = sset; size_t osz = sset_size, k;
            sset_size *= 2;
            sset = calloc(sset_size, sizeof(*sset));
            sset_used = 0;
            for (k = 0; k < osz; k++) if (old[k]) {
                size_t j = old[k] & (sset_size - 1);
                while (sset[j]) j = (j + 1) & (sset_size - 1);
                sset[j] = old[k]; sset_used++;
            }
            free(old);
        }
    }
    i = h & (sset_size - 1);
    while (sset[i]) { if (sset[i] == h) return; i = (i + 1) & (sset_size - 1); }
    sset[i] = h; sset_used++;
}

static void sset_dump(const char *path)
{
    FILE *f = fopen(path, "wb");
    size_t k;
    if (!f) return;
    for (k = 0; k < sset_size; k++) if (sset[k]) fwrite(&sset[k], 8, 1, f);
    fclose(f);
}

/* ------------------------------------------------------------- event log */

void ev(const char *what, uint64_t a, uint64_t b, uint64_t c)
{
    uint64_t h = g_run.evhash;
    const char *s;
    for (s = what; *s; s++) { h ^= (unsigned char)*s; h *= 0x100000001b3ull; }
    h = fnv1a(h, a); h = fnv1a(h, b); h = fnv1a(h, c);
    g_run.evhash = h;
    if (g_run.trace)
        fprintf(stderr, "  [%d] %s %" PRIu64 " %" PRIu64 " %" PRIu64 "\n", g_run.step, what, a, b, c);
}

/* ------------------------------------------------------------ violations */

static char fe_desc_buf[64] = "none";
const char *g_fe_desc = fe_desc_buf;

static void vrecord(const char *key, const char *fmt, va_list ap)
{
    if (g_run.violated) return;
    g_run.violated = 1;
    snprintf(g_run.key, sizeof g_run.key, "%s", key);
    vsnprintf(g_run.detail, sizeof g_run.detail, fmt, ap);
    if (g_fe_desc[0] != 'n') {
        size_t l = strlen(g_run.detail);
        snprintf(g_run.detail + l, sizeof g_run.detail - l, " [allocation faults %s]", g_fe_desc);
    }
    g_run.vstep = g_run.step;
    {   /* keep result lines parseable */
        char *p;
        for (p = g_run.detail; *p; p++) if (*p == '\t' || *p == '\n') *p = ' ';
        for (p = g_run.key; *p; p++) if (*p == '\t' || *p == '\n' || *p == ' ') *p = '_';
    }
}

void sim_violation(const char *key, const char *fmt, ...)
{
    va_list ap;
    g_inlib = 0;
    va_start(ap, fmt);
    vrecord(key, fmt, ap);
    va_end(ap);
    g_trap_armed = 0;
    if (g_fiber_escape) g_fiber_escape();
    _longjmp(g_run_jmp, 1);
}

void sim_violation_noreturn_off(const char *key, const char *fmt, ...)
{
    va_list ap;
    va_start(ap, fmt);
    vrecord(key, fmt, ap);
    va_end(ap);
}

void sim_harness_bug(const char *fmt, ...)
{
    va_list ap;
    g_inlib = 0;
    fflush(stdout);
    fprintf(stdout, "HARNESS-BUG run=%lld step=%d: ", g_run.run_index, g_run.step);
    va_start(ap, fmt);
    vfprintf(stdout, fmt, ap);
    va_end(ap);
    fprintf(stdout, "\n");
    fflush(stdout);
    _exit(2);
}

/* ------------------------------------------------------------ abort trap */

void __real_abort(void) __attribute__((noreturn));

void __wrap_abort(void)
{
    if (g_abort_in_fiber) g_abort_in_fiber(1);          /* does not return when in a fiber */
    if (g_trap_armed) {
        g_aborted = 1;
        g_trap_armed = 0;
        _longjmp(g_trap_jmp, 1);
    }
    __real_abort();
}

void __wrap___assert_fail(const char *expr, const char *file, unsigned line, const char *func)
{
    (void)func;
    if (g_run.trace) fprintf(stderr, "  library assert: %s at %s:%u\n", expr, file, line);
    if (g_abort_in_fiber) g_abort_in_fiber(2);
    if (g_trap_armed) {
        g_aborted = 2;
        g_trap_armed = 0;
        _longjmp(g_trap_jmp, 1);
    }
    fprintf(stdout, "HARNESS-BUG assert outside trap: %s %s:%u\n", expr, file, line);
    fflush(stdout);
    _exit(2);
}

/* --------------------------------------------------------------- simrand */

static prng_t rprng;
static int rkind;
static int rstreak;
static int rsticky;
uint64_t g_rand_calls;
uint64_t g_work, g_work_at_try;
void (*g_preempt_hook)(void);   /* world "par": every basic block of library code is a possible preemption point */
void __sanitizer_cov_trace_pc(void);
void __sanitizer_cov_trace_pc(void) { if (g_inlib) { g_work++; if (g_preempt_hook) g_preempt_hook(); } }
uint64_t g_gen_index;       /* index of the run whose plan is being generated (worlds may use it to walk a domain systematically) */

void simrand_reset(uint64_t seed, int kind)
{
    prng_seed(&rprng, seed ^ 0x7a4dull);
    rkind = kind;
    rstreak = 0;
    g_rand_calls = 0;
}

int (*g_rand_hook)(void);       /* world "par": every simulated thread has a rand() stream of its own */
int __wrap_rand(void)
{
    if (g_rand_hook) return g_rand_hook();
    static const int sticky_vals[] = { 0, RAND_MAX, 720719, 1, 2, 3, RAND_MAX - 1 };
    g_rand_calls++;
    if (rkind == RS_STICKY) {
        if (rstreak > 0) { rstreak--; return rsticky; }
        if (prng_chance(&rprng, 1, 2)) {
            /* bounded adversarial streak: at most 8 identical draws, then >= 1 uniform */
            rsticky = sticky_vals[prng_below(&rprng, sizeof sticky_vals / sizeof sticky_vals[0])];
            rstreak = (int)prng_below(&rprng, 8);
            return rsticky;
        }
    }
    return (int)(prng_next(&rprng) & RAND_MAX);
}

/* ------------------------------------------------- crash classification */

static void wr(const char *s) { ssize_t r = write(1, s, strlen(s)); (void)r; }
static void wrnum(long long v)
{
    char b[24]; int i = 23; int neg = v < 0;
    unsigned long long u = neg ? (unsigned long long)(-v) : (unsigned long long)v;
    b[i] = 0;
    do { b[--i] = (char)('0' + u % 10); u /= 10; } while (u);
    if (neg) b[--i] = '-';
    wr(b + i);
}

static int g_exec_mode;         /* result lines use the X prefix */
static long long g_exec_index;

static void crash_line(const char *what)
{
    const char *op = "?";
    if (g_run.world && g_run.world->opname) op = g_run.world->opname(g_run.opkind);
    wr("\nCRASH ");
    wrnum(g_exec_mode ? g_exec_index : g_run.run_index);
    wr(" "); wr(what);
    wr(" "); wrnum(g_run.step);
    wr(" "); wr(op ? op : "?");
    wr(" "); wr(g_cur_prop ? g_cur_prop : "C00");
    wr(" "); wr(g_cur_ctx && *g_cur_ctx ? g_cur_ctx : "-");
    wr(g_inlib ? " inlib" : " harness");
    wr("\n");
    if (g_nsched_trace > 0) {
        int q;
        wr("SCHED "); wrnum(g_exec_mode ? g_exec_index : g_run.run_index);
        for (q = 0; q < g_nsched_trace; q++) { wr(" "); wrnum(g_sched_trace[q]); }
        wr("\n");
    }
}

static void on_signal(int sig)
{
    const char *n = sig == SIGSEGV ? "SIGSEGV" : sig == SIGBUS ? "SIGBUS" :
                    sig == SIGFPE ? "SIGFPE" : sig == SIGILL ? "SIGILL" :
                    sig == SIGABRT ? "SIGABRT" : (sig == SIGALRM || sig == SIGVTALRM) ? "TIMEOUT" : "SIG";
    crash_line(n);
    _exit(70);
}

#if defined(SIM_TSAN)
void __sanitizer_set_death_callback(void (*cb)(void));
static void on_san_death(void) { crash_line("SANITIZER"); }
__attribute__((used)) const char *__tsan_default_options(void)
{
    return "halt_on_error=1:exitcode=77:report_signal_unsafe=0:history_size=2:second_deadlock_stack=0:report_thread_leaks=0";
}
#endif
#if SIM_ASAN
void __sanitizer_set_death_callback(void (*cb)(void));
static void on_san_death(void) { crash_line("SANITIZER"); }
__attribute__((used)) const char *__asan_default_options(void)
{
    return "exitcode=77:detect_leaks=0:abort_on_error=0:allocator_may_return_null=1:handle_segv=0:handle_sigbus=0:handle_sigfpe=0:handle_abort=0:detect_stack_use_after_return=0:max_malloc_fill_size=0";
}
__attribute__((used)) const char *__ubsan_default_options(void)
{
    return "halt_on_error=1:exitcode=77:print_stacktrace=1";
}
#endif

static void install_handlers(void)
{
    static char altstack[1 << 16];
    stack_t ss;
    struct sigaction sa;
    int sigs[] = { SIGSEGV, SIGBUS, SIGFPE, SIGILL, SIGABRT, SIGALRM, SIGVTALRM };
    size_t i;
    ss.ss_sp = altstack; ss.ss_size = sizeof altstack; ss.ss_flags = 0;
    sigaltstack(&ss, NULL);
    memset(&sa, 0, sizeof sa);
    sa.sa_handler = on_signal;
    sa.sa_flags = SA_ONSTACK | SA_NODEFER;
    for (i = 0; i < sizeof sigs / sizeof sigs[0]; i++) sigaction(sigs[i], &sa, NULL);
#if SIM_ASAN || defined(SIM_TSAN)
    __sanitizer_set_death_callback(on_san_death);
#endif
#if SIM_ASAN
    {
        /* gcc links libasan and libubsan as two runtimes, each with its own copy of the death callback:
         * the unqualified call above reaches libasan's, this one libubsan's (without it a UBSan report
         * ends the worker with no CRASH line and the driver cannot attribute it) */
        void *h = dlopen("libubsan.so.1", RTLD_NOLOAD | RTLD_NOW);
        if (h) {
            void (*f)(void (*)(void)) = (void (*)(void (*)(void)))dlsym(h, "__sanitizer_set_death_callback");
            if (f) f(on_san_death);
        }
    }
#endif
}

static void arm_watchdog(int seconds)
{
    /* the budget is CPU time of this process (a verdict must not depend on how busy the machine is: nothing in a
     * run ever blocks, so a run that does not terminate burns CPU); wall-clock time is only a distant backstop */
    struct itimerval it;
    memset(&it, 0, sizeof it);
    it.it_value.tv_sec = seconds * 3;
    setitimer(ITIMER_VIRTUAL, &it, NULL);
    it.it_value.tv_sec = seconds * 60;
    setitimer(ITIMER_REAL, &it, NULL);
}

/* worlds with deliberately enormous single runs (2^32 callback invocations) ask for a longer CPU budget */
void sim_watchdog(int seconds) { arm_watchdog(seconds); }

/* ------------------------------------------------- fault enumeration (C16) */

static unsigned char fe_bitmap[8192];
static unsigned fe_nbits, fe_suffix;
void faultenum_apply(void)
{
    simheap_fail_global(fe_nbits ? fe_bitmap : NULL, fe_nbits, fe_suffix);
}

static void fe_set(unsigned a, unsigned b, unsigned c, unsigned suffix, unsigned nbits)
{
    memset(fe_bitmap, 0, sizeof fe_bitmap);
    fe_nbits = 0; fe_suffix = suffix;
    if (a) { fe_bitmap[a >> 3] |= (unsigned char)(1u << (a & 7)); fe_nbits = nbits; }
    if (b) fe_bitmap[b >> 3] |= (unsigned char)(1u << (b & 7));
    if (c) fe_bitmap[c >> 3] |= (unsigned char)(1u << (c & 7));
    if (suffix) snprintf(fe_desc_buf, sizeof fe_desc_buf, "suffix:%u", suffix);
    else if (c) snprintf(fe_desc_buf, sizeof fe_desc_buf, "triple:%u,%u,%u", a, b, c);
    else if (b) snprintf(fe_desc_buf, sizeof fe_desc_buf, "pair:%u,%u", a, b);
    else if (a) snprintf(fe_desc_buf, sizeof fe_desc_buf, "single:%u", a);
    else snprintf(fe_desc_buf, sizeof fe_desc_buf, "none");
}

static void fe_once(const plan_t *p, void (*once)(const plan_t *), const char *kind)
{
    uint64_t before;
    g_run.ended_by_abort = 0;
    once(p);
    before = g_hs.fired;
    if (before > 0) {
        if (kind[0] == 's' && kind[1] == 'i') PROBE("c16_single_fired");
        else if (kind[0] == 's') PROBE("c16_suffix_fired");
        else if (kind[0] == 'p') PROBE("c16_pair_fired");
        else PROBE("c16_triple_fired");
    }
    if (g_run.ended_by_abort) PROBE("c16_ended_by_documented_abort");
    PROBE("c16_faulted_executions");
}

void faultenum(const plan_t *p, void (*once)(const plan_t *))
{
    unsigned n, a, b, c;
    prng_t r;
    fe_set(0, 0, 0, 0, 0);
    once(p);
    if (g_run.ended_by_abort) sim_harness_bug("faultenum: the fault-free dry run ended in an abort");
    n = (unsigned)g_hs.lib_allocs;
    if (n > 60000) n = 60000;
    PROBE("c16_scripts"); PROBE_N("c16_alloc_sites_in_scripts", n);
    for (a = 1; a <= n; a++) { fe_set(a, 0, 0, 0, n + 1); fe_once(p, once, "single"); }
    for (a = 1; a <= n; a++) { fe_set(0, 0, 0, a, 0); fe_once(p, once, "suffix"); }
    if (n <= 40) {
        for (a = 1; a <= n; a++) for (b = a + 1; b <= n; b++) { fe_set(a, b, 0, 0, n + 1); fe_once(p, once, "pair"); }
    } else {
        unsigned k;
        prng_seed(&r, plan_hash(p));
        for (k = 0; k < 400; k++) {
            a = 1 + (unsigned)prng_below(&r, n); b = 1 + (unsigned)prng_below(&r, n);
            if (a == b) continue;
            if (a > b) { unsigned t = a; a = b; b = t; }
            fe_set(a, b, 0, 0, n + 1); fe_once(p, once, "pair");
        }
    }
    if (n <= 12)
        for (a = 1; a <= n; a++) for (b = a + 1; b <= n; b++) for (c = b + 1; c <= n; c++) {
            fe_set(a, b, c, 0, n + 1); fe_once(p, once, "triple");
        }
    fe_set(0, 0, 0, 0, 0);
    g_run.ended_by_abort = 0;
}

/* -------------------------------------------------------------- plan I/O */

void plan_write(FILE *f, const plan_t *p)
{
    int i, k;
    fprintf(f, "world %s\nmode %d\ncfg", p->world, p->mode);
    for (k = 0; k < NCFG; k++) fprintf(f, " %" PRIu64, p->cfg[k]);
    fprintf(f, "\n");
    for (i = 0; i < p->nops; i++) {
        int last = NARG - 1;
        while (last > 0 && p->ops[i].a[last] == 0) last--;
        fprintf(f, "op %d", p->ops[i].kind);
        for (k = 0; k <= last; k++) fprintf(f, " %" PRIu64, p->ops[i].a[k]);
        fprintf(f, "\n");
    }
    if (p->nsched > 0) {
        fprintf(f, "sched");
        for (i = 0; i < p->nsched; i++) fprintf(f, " %d", p->sched[i]);
        fprintf(f, "\n");
    }
    fprintf(f, "end\n");
}

int plan_read(FILE *f, plan_t *p)
{
    static char line[MAXSCHED * 4 + 64];
    int seen = 0;
    p->nops = 0; p->nsched = 0; p->mode = 0; p->world[0] = 0;
    memset(p->cfg, 0, sizeof p->cfg);
    while (fgets(line, sizeof line, f)) {
        char *s = line;
        while (*s == ' ') s++;
        if (*s == '\n' || *s == '#' || *s == 0) continue;
        seen = 1;
        if (strncmp(s, "world ", 6) == 0) {
            sscanf(s + 6, "%15s", p->world);
        } else if (strncmp(s, "mode ", 5) == 0) {
            p->mode = atoi(s + 5);
        } else if (strncmp(s, "cfg", 3) == 0) {
            char *q = s + 3; int k = 0;
            while (k < NCFG) {
                char *e; uint64_t v = strtoull(q, &e, 10);
                if (e == q) break;
                p->cfg[k++] = v; q = e;
            }
        } else if (strncmp(s, "op ", 3) == 0) {
            char *q = s + 3, *e; int k = 0; op_t *o;
            if (p->nops >= MAXOPS) return -1;
            o = &p->ops[p->nops++];
            memset(o, 0, sizeof *o);
            o->kind = (int)strtol(q, &e, 10); q = e;
            while (k < NARG) {
                uint64_t v = strtoull(q, &e, 10);
                if (e == q) break;
                o->a[k++] = v; q = e;
            }
        } else if (strncmp(s, "sched", 5) == 0) {
            char *q = s + 5, *e;
            while (p->nsched < MAXSCHED) {
                long v = strtol(q, &e, 10);
                if (e == q) break;
                p->sched[p->nsched++] = (int)v; q = e;
            }
        } else if (strncmp(s, "end", 3) == 0) {
            return 1;
        } else {
            return -1;
        }
    }
    return seen ? -1 : 0;
}

uint64_t plan_hash(const plan_t *p)
{
    uint64_t h = 0xcbf29ce484222325ull;
    int i, k;
    const char *s;
    for (s = p->world; *s; s++) h = fnv1a(h, (unsigned char)*s);
    h = fnv1a(h, (uint64_t)p->mode);
    for (k = 0; k < NCFG; k++) h = fnv1a(h, p->cfg[k]);
    for (i = 0; i < p->nops; i++) {
        h = fnv1a(h, (uint64_t)p->ops[i].kind);
        for (k = 0; k < NARG; k++) h = fnv1a(h, p->ops[i].a[k]);
    }
    for (i = 0; i < p->nsched; i++) h = fnv1a(h, (uint64_t)p->sched[i]);
    return h;
}

/* -------------------------------------------------------------- run loop */

static plan_t g_plan;

static void run_plan(const world_t *w, const plan_t *p, long long index, int trace)
{
    memset(&g_run, 0, sizeof g_run);
    g_run.run_index = index;
    g_run.plan = p;
    g_run.world = w;
    g_run.trace = trace;
    g_run.evhash = 0xcbf29ce484222325ull;
    g_run.step = -1;
    g_cur_prop = "C00"; g_cur_ctx = "";
    { uint64_t h = 0; int q; for (q = 0; q < NCFG; q++) h = fnv1a(h, p->cfg[q]); g_cmp_mag = (h >> 17) % 8 < 4 ? 0 : (unsigned)((h >> 17) % 4); }
    g_inlib = 0; g_trap_armed = 0; g_aborted = 0;
    arm_watchdog(20);
    { static unsigned far0, reu0; far0 = g_far_placed; reu0 = g_reused;
    if (_setjmp(g_run_jmp) == 0) {
        w->exec(p);
    }
    if (g_reused != reu0) probe_dyn("freed_block_handed_out_again");
    if (g_far_placed - far0 >= 2) probe_dyn(p->cfg[CF_FAR] == 1 ? "elements_2^32_bytes_apart" : p->cfg[CF_FAR] == 3 ? "nodes_at_multiples_of_2^32" : "elements_3x2^31_bytes_apart"); }
    g_inlib = 0; g_trap_armed = 0;
    g_atomic_hook = NULL; g_yield_hook = NULL; g_sched_point = NULL; g_free_hook = NULL; g_fiber_escape = NULL; g_abort_in_fiber = NULL;
    g_preempt_hook = NULL; g_rand_hook = NULL;
    simheap_fail_prob(0);
    simheap_fail_global(NULL, 0, 0);
    simheap_end_run();
    arm_watchdog(0);
}

static void print_result(const char *pfx, long long idx, uint64_t phash)
{
    if (g_run.violated) {
        printf("%s %lld viol %016" PRIx64 " %" PRIu64 " %d %016" PRIx64 " %016" PRIx64 "\t%s\t%s\t%d\n",
               pfx, idx, g_run.evhash, g_run.steps, g_run.nontrivial, phash, g_run.statehash,
               g_run.key, g_run.detail, g_run.vstep);
    } else {
        printf("%s %lld %s %016" PRIx64 " %" PRIu64 " %d %016" PRIx64 " %016" PRIx64 "\n",
               pfx, idx, g_run.ended_by_abort ? "abort" : "ok", g_run.evhash, g_run.steps,
               g_run.nontrivial, phash, g_run.statehash);
    }
}

static void print_totals(void)
{
    int i;
    printf("PROBES");
    for (i = 0; i < nprobe; i++) printf(" %s=%" PRIu64, g_probe_name[i], g_probe[i]);
    printf("\n");
    fflush(stdout);
}

static int cmp_u64(const void *a, const void *b)
{
    uint64_t x = *(const uint64_t *)a, y = *(const uint64_t *)b;
    return x < y ? -1 : x > y;
}

static int do_merge(int argc, char **argv)
{
    uint64_t *v = NULL; size_t n = 0, cap = 0, i, u = 0;
    int k;
    for (k = 0; k < argc; k++) {
        FILE *f = fopen(argv[k], "rb");
        uint64_t x;
        if (!f) continue;
        while (fread(&x, 8, 1, f) == 1) {
            if (n == cap) { cap = cap ? cap * 2 : 1 << 16; v = realloc(v, cap * 8); }
            v[n++] = x;
        }
        fclose(f);
    }
    qsort(v, n, 8, cmp_u64);
    for (i = 0; i < n; i++) if (i == 0 || v[i] != v[i - 1]) u++;
    printf("%zu %zu\n", n, u);
    return 0;
}

static void usage(void)
{
    fprintf(stderr,
        "usage: simrun run <world> <mode> <base_seed> <from> <to> [--plans f] [--states f] [--trace]\n"
        "       simrun gen <world> <mode> <base_seed> <index>\n"
        "       simrun exec [--trace] [--nofork]   (plans on stdin)\n"
        "       simrun merge <files...>\n");
    exit(2);
}

int main(int argc, char **argv)
{
    setvbuf(stdout, NULL, _IOLBF, 0);
    if (argc < 2) usage();

    if (strcmp(argv[1], "merge") == 0) return do_merge(argc - 2, argv + 2);

    if (strcmp(argv[1], "gen") == 0) {
        const world_t *w; prng_t r; uint64_t base; long long idx; int mode;
        if (argc < 6) usage();
        w = find_world(argv[2]); if (!w) usage();
        mode = atoi(argv[3]); base = strtoull(argv[4], NULL, 10); idx = atoll(argv[5]);
        prng_seed(&r, mix_seed(base, (uint64_t)mode * 131 + (uint64_t)w->name[0] + ((uint64_t)w->name[1] << 8), (uint64_t)idx));
        memset(&g_plan, 0, sizeof g_plan);
        snprintf(g_plan.world, sizeof g_plan.world, "%s", w->name);
        g_plan.mode = mode;
        g_gen_index = (uint64_t)idx;
        w->gen(&r, mode, &g_plan);
        plan_write(stdout, &g_plan);
        return 0;
    }

    if (strcmp(argv[1], "run") == 0) {
        const world_t *w; uint64_t base; long long from, to, i; int mode, k, trace = 0;
        const char *plans_path = NULL, *states_path = NULL, *inter_path = NULL;
        FILE *pf = NULL, *inf = NULL;
        if (argc < 7) usage();
        w = find_world(argv[2]); if (!w) usage();
        mode = atoi(argv[3]); base = strtoull(argv[4], NULL, 10);
        from = atoll(argv[5]); to = atoll(argv[6]);
        for (k = 7; k < argc; k++) {
            if (strcmp(argv[k], "--plans") == 0 && k + 1 < argc) plans_path = argv[++k];
            else if (strcmp(argv[k], "--states") == 0 && k + 1 < argc) states_path = argv[++k];
            else if (strcmp(argv[k], "--interleavings") == 0 && k + 1 < argc) inter_path = argv[++k];
            else if (strcmp(argv[k], "--trace") == 0) trace = 1;
            else if (strcmp(argv[k], "--state-sample") == 0 && k + 1 < argc) sset_sample = strtoull(argv[++k], NULL, 10);
        }
        install_handlers();
        if (plans_path) pf = fopen(plans_path, "ab");
        if (inter_path) inf = fopen(inter_path, "ab");
        for (i = from; i < to; i++) {
            prng_t r; uint64_t ph;
            prng_seed(&r, mix_seed(base, (uint64_t)mode * 131 + (uint64_t)w->name[0] + ((uint64_t)w->name[1] << 8), (uint64_t)i));
            g_plan.nops = 0; g_plan.nsched = 0;
            memset(g_plan.cfg, 0, sizeof g_plan.cfg);
            snprintf(g_plan.world, sizeof g_plan.world, "%s", w->name);
            g_plan.mode = mode;
            g_run.run_index = i; g_run.world = w; g_run.step = -1;
            g_gen_index = (uint64_t)i;
            w->gen(&r, mode, &g_plan);
            ph = plan_hash(&g_plan);
            printf("B %lld\n", i);
            run_plan(w, &g_plan, i, trace);
            print_result("R", i, ph);
            if (pf && g_run.nontrivial) fwrite(&ph, 8, 1, pf);
            if (inf && g_run.statehash) fwrite(&g_run.statehash, 8, 1, inf);   /* world-defined (scenario, schedule) hash */
            if (g_run.violated && strstr(g_run.key, "/heap/") != NULL && i + 1 < to) {
                /* the library wrote where it must not: this process's memory is no longer trustworthy */
                printf("RESTART %lld\n", i + 1);
                break;
            }
        }
        if (pf) fclose(pf);
        if (inf) fclose(inf);
        if (states_path) sset_dump(states_path);
        print_totals();
        return 0;
    }

    if (strcmp(argv[1], "exec") == 0) {
        int trace = 0, nofork = 0, dump_sched = 0, k, rc;
        long long n = 0;
        for (k = 2; k < argc; k++) {
            if (strcmp(argv[k], "--trace") == 0) trace = 1;
            else if (strcmp(argv[k], "--nofork") == 0) nofork = 1;
            else if (strcmp(argv[k], "--dump-sched") == 0) dump_sched = 1;
        }
        g_exec_mode = 1;
        while ((rc = plan_read(stdin, &g_plan)) == 1) {
            const world_t *w = find_world(g_plan.world);
            pid_t pid;
            if (!w) { printf("X %lld badplan\n", n++); continue; }
            fflush(stdout);
            g_exec_index = n;
            if (nofork) {
                install_handlers();
                run_plan(w, &g_plan, n, trace);
                print_result("X", n, plan_hash(&g_plan));
                print_totals();
                n++;
                continue;
            }
            pid = fork();
            if (pid == 0) {
                install_handlers();
                g_nsched_trace = 0;
                run_plan(w, &g_plan, n, trace);
                print_result("X", n, plan_hash(&g_plan));
                if (dump_sched) {
                    int q;
                    printf("SCHED %lld", n);
                    for (q = 0; q < g_nsched_trace; q++) printf(" %d", g_sched_trace[q]);
                    printf("\n");
                }
                fflush(stdout);
#ifdef SIM_COV
                { extern void __gcov_dump(void); __gcov_dump(); }       /* the reach measurement (sim/reach.py) counts forked runs too */
#endif
                _exit(0);
            } else {
                int st = 0;
                waitpid(pid, &st, 0);
                if (!(WIFEXITED(st) && (WEXITSTATUS(st) == 0 || WEXITSTATUS(st) == 70 || WEXITSTATUS(st) == 77)))
                    printf("CRASH %lld UNKNOWN -1 ? C00 status=%d\n", n, st);
            }
            n++;
        }
        if (rc < 0) { printf("X %lld badplan\n", n); return 2; }
        return 0;
    }

    usage();
    return 2;
}
