/* Shadow <sched.h>: sched_yield() is the simulator's yield. */
#ifndef SIM_SHIM_SCHED_H
#define SIM_SHIM_SCHED_H
#include_next <sched.h>
int sim_yield(void);
#define sched_yield() sim_yield()
#endif
