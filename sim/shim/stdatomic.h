/*
 * Shadow <stdatomic.h> (found via -isystem before the system one when
 * compiling /repo/src/memory.c): every atomic operation becomes a scheduling
 * point of the simulator followed by the real compiler builtin with the
 * requested memory order. Types stay the real _Atomic types.
 */
#ifndef SIM_SHIM_STDATOMIC_H
#define SIM_SHIM_STDATOMIC_H

#include_next <stdatomic.h>

/* kind: 'l' load, 's' store, 'a' fetch_add, 'b' fetch_sub, 'x' exchange,
 *       'c' compare_exchange, 't' test_and_set, 'r' flag clear, 'o' other rmw */
void sim_point(const char *file, int line, const volatile void *addr, int kind);
#define SIM_PT(p, k) sim_point(__FILE__, __LINE__, (const volatile void *)(p), (k))

#undef atomic_load
#undef atomic_load_explicit
#undef atomic_store
#undef atomic_store_explicit
#undef atomic_fetch_add
#undef atomic_fetch_add_explicit
#undef atomic_fetch_sub
#undef atomic_fetch_sub_explicit
#undef atomic_fetch_or
#undef atomic_fetch_or_explicit
#undef atomic_fetch_and
#undef atomic_fetch_and_explicit
#undef atomic_fetch_xor
#undef atomic_fetch_xor_explicit
#undef atomic_exchange
#undef atomic_exchange_explicit
#undef atomic_compare_exchange_strong
#undef atomic_compare_exchange_strong_explicit
#undef atomic_compare_exchange_weak
#undef atomic_compare_exchange_weak_explicit
#undef atomic_flag_test_and_set
#undef atomic_flag_test_and_set_explicit
#undef atomic_flag_clear
#undef atomic_flag_clear_explicit

#if defined(__clang__)
# define SIM_LOAD(p, o)          __c11_atomic_load(p, o)
# define SIM_STORE(p, v, o)      __c11_atomic_store(p, v, o)
# define SIM_FADD(p, v, o)       __c11_atomic_fetch_add(p, v, o)
# define SIM_FSUB(p, v, o)       __c11_atomic_fetch_sub(p, v, o)
# define SIM_FOR(p, v, o)        __c11_atomic_fetch_or(p, v, o)
# define SIM_FAND(p, v, o)       __c11_atomic_fetch_and(p, v, o)
# define SIM_FXOR(p, v, o)       __c11_atomic_fetch_xor(p, v, o)
# define SIM_XCHG(p, v, o)       __c11_atomic_exchange(p, v, o)
# define SIM_CAS(p, e, d, s, f, w) \
    ((w) ? __c11_atomic_compare_exchange_weak(p, e, d, s, f) : __c11_atomic_compare_exchange_strong(p, e, d, s, f))
# define SIM_TAS(p, o)           __c11_atomic_exchange(&(p)->_Value, 1, o)
# define SIM_CLR(p, o)           __c11_atomic_store(&(p)->_Value, 0, o)
#else
# define SIM_LOAD(p, o)          __atomic_load_n(p, o)
# define SIM_STORE(p, v, o)      __atomic_store_n(p, v, o)
# define SIM_FADD(p, v, o)       __atomic_fetch_add(p, v, o)
# define SIM_FSUB(p, v, o)       __atomic_fetch_sub(p, v, o)
# define SIM_FOR(p, v, o)        __atomic_fetch_or(p, v, o)
# define SIM_FAND(p, v, o)       __atomic_fetch_and(p, v, o)
# define SIM_FXOR(p, v, o)       __atomic_fetch_xor(p, v, o)
# define SIM_XCHG(p, v, o)       __atomic_exchange_n(p, v, o)
# define SIM_CAS(p, e, d, s, f, w) __atomic_compare_exchange_n(p, e, d, w, s, f)
# define SIM_TAS(p, o)           __atomic_test_and_set(p, o)
# define SIM_CLR(p, o)           __atomic_clear(p, o)
#endif

#define atomic_load_explicit(p, o)          (SIM_PT(p, 'l'), SIM_LOAD(p, o))
#define atomic_load(p)                      atomic_load_explicit(p, memory_order_seq_cst)
#define atomic_store_explicit(p, v, o)      (SIM_PT(p, 's'), SIM_STORE(p, v, o))
#define atomic_store(p, v)                  atomic_store_explicit(p, v, memory_order_seq_cst)
#define atomic_fetch_add_explicit(p, v, o)  (SIM_PT(p, 'a'), SIM_FADD(p, v, o))
#define atomic_fetch_add(p, v)              atomic_fetch_add_explicit(p, v, memory_order_seq_cst)
#define atomic_fetch_sub_explicit(p, v, o)  (SIM_PT(p, 'b'), SIM_FSUB(p, v, o))
#define atomic_fetch_sub(p, v)              atomic_fetch_sub_explicit(p, v, memory_order_seq_cst)
#define atomic_fetch_or_explicit(p, v, o)   (SIM_PT(p, 'o'), SIM_FOR(p, v, o))
#define atomic_fetch_or(p, v)               atomic_fetch_or_explicit(p, v, memory_order_seq_cst)
#define atomic_fetch_and_explicit(p, v, o)  (SIM_PT(p, 'o'), SIM_FAND(p, v, o))
#define atomic_fetch_and(p, v)              atomic_fetch_and_explicit(p, v, memory_order_seq_cst)
#define atomic_fetch_xor_explicit(p, v, o)  (SIM_PT(p, 'o'), SIM_FXOR(p, v, o))
#define atomic_fetch_xor(p, v)              atomic_fetch_xor_explicit(p, v, memory_order_seq_cst)
#define atomic_exchange_explicit(p, v, o)   (SIM_PT(p, 'x'), SIM_XCHG(p, v, o))
#define atomic_exchange(p, v)               atomic_exchange_explicit(p, v, memory_order_seq_cst)
#define atomic_compare_exchange_strong_explicit(p, e, d, s, f) (SIM_PT(p, 'c'), SIM_CAS(p, e, d, s, f, 0))
#define atomic_compare_exchange_strong(p, e, d) \
    atomic_compare_exchange_strong_explicit(p, e, d, memory_order_seq_cst, memory_order_seq_cst)
#define atomic_compare_exchange_weak_explicit(p, e, d, s, f) (SIM_PT(p, 'c'), SIM_CAS(p, e, d, s, f, 1))
#define atomic_compare_exchange_weak(p, e, d) \
    atomic_compare_exchange_weak_explicit(p, e, d, memory_order_seq_cst, memory_order_seq_cst)
#define atomic_flag_test_and_set_explicit(p, o) (SIM_PT(p, 't'), SIM_TAS(p, o))
#define atomic_flag_test_and_set(p)         atomic_flag_test_and_set_explicit(p, memory_order_seq_cst)
#define atomic_flag_clear_explicit(p, o)    (SIM_PT(p, 'r'), SIM_CLR(p, o))
#define atomic_flag_clear(p)                atomic_flag_clear_explicit(p, memory_order_seq_cst)

#endif
