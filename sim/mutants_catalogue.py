"""Sensitivity catalogue (see mutants.py). Each edit: (file, old, new); old must occur exactly once."""

MUTANTS = []
NEGATIVE = []


def M(id, prop, what, *edits, also=()):
    MUTANTS.append(dict(id=id, prop=prop, what=what, edits=list(edits), also=list(also)))


def N(id, props, what, *edits):
    NEGATIVE.append(dict(id=id, prop=props[0], also=list(props[1:]), what=what, edits=list(edits)))


BT = "src/bintree.c"
RB = "src/rbtree.c"
HP = "src/heap.c"
AR = "src/array.c"
VE = "src/vector.c"
MM = "src/memory.c"
MH = "include/cstl/memory.h"
HS = "src/hash.c"
DL = "src/dlist.c"
SL = "src/slist.c"

# ----------------------------------------------------------------- C01
M("c01-succ-left-parent", "C01", "erase: left child of the erased node does not learn its new parent",
  (BT, "        if (bn->l != NULL) {\n            bn->l->p = y;\n        }", "        if (bn->l != NULL) {\n        }"))
M("c01-self-parent", "C01", "erase: drop the self-parent fix-up",
  (BT, "        if (bn->p == bn) {\n            bn->p = y;\n        }", ""), also=["C02"])
M("c01-find-dir", "C01", "find: swap the two descent directions",
  (BT, "        p = bn;\n        if (eq < 0) {\n            bn = bn->l;\n        } else {\n            bn = bn->r;\n        }",
   "        p = bn;\n        if (eq < 0) {\n            bn = bn->r;\n        } else {\n            bn = bn->l;\n        }"))
M("c01-foreach-skip-post", "C01", "foreach: skip POST when the far child is NULL",
  (BT, "    if (res == 0 && leaf == 0) {\n        /* last visit to the current node (if it's a non-leaf) */",
   "    if (res == 0 && leaf == 0 && rn != NULL) {\n        /* last visit to the current node (if it's a non-leaf) */"))
M("c01-clear-size", "C01", "clear: size not reset",
  (BT, "        bt->root  = NULL;\n        bt->size = 0;", "        bt->root  = NULL;"), also=["C15"])
M("c01-insert-le", "C01", "insert: equal keys go left and the comparison flips to <= 0 only below a hint",
  (BT, "    if (p != NULL) {\n        bp = __cstl_bintree_node(bt, p);\n        bc = &bp;\n    }",
   "    if (p != NULL) {\n        bp = __cstl_bintree_node(bt, p);\n        bc = (bp->r != NULL) ? &bp->r : &bp;\n    }"))
M("c01-erase-size", "C01", "erase of a two-child node forgets to decrement size",
  (BT, "    bt->size--;\n\n    return y;", "    if (y == bn) bt->size--;\n\n    return y;"))
M("c01-find-static-probe", "C01", "find keeps its probe node in a static variable (not re-entrant)",
  (BT, "    const struct cstl_bintree_node * const bf = __cstl_bintree_node(bt, f);\n    struct cstl_bintree_node * bn = bt->root, *p = NULL;", "    static const struct cstl_bintree_node * bf;\n    struct cstl_bintree_node * bn = bt->root, *p = NULL;\n    bf = __cstl_bintree_node(bt, f);"))
M("c01-rbswap-no-off", "C01", "rbtree swap forgets to exchange the red-black node offset (only visible when the two trees use different members)",
  ("include/cstl/rbtree.h", "    cstl_bintree_swap(&a->t, &b->t);\n    cstl_swap(&a->off, &b->off, &t, sizeof(t));", "    cstl_bintree_swap(&a->t, &b->t);\n    (void)t;"), also=["C02"])
# ----------------------------------------------------------------- C02
M("c02-insert-colours", "C02", "insert fix-up: swapped colour assignments before the rotation",
  (RB, "        *BN_COLOR(x->p) = CSTL_RBTREE_COLOR_B;\n        *BN_COLOR(x->p->p) = CSTL_RBTREE_COLOR_R;\n        __cstl_bintree_rotate(t, x->p->p, r, l);",
   "        *BN_COLOR(x->p) = CSTL_RBTREE_COLOR_R;\n        *BN_COLOR(x->p->p) = CSTL_RBTREE_COLOR_B;\n        __cstl_bintree_rotate(t, x->p->p, r, l);"))
M("c02-erase-colour-transfer", "C02", "erase: colour not transferred to the successor",
  (RB, "    *BN_COLOR(y) = n->c;\n", ""))
M("c02-far-nephew", "C02", "erase fix-up: far-nephew case colours the near nephew",
  (RB, "        *BN_COLOR(*r(w)) = CSTL_RBTREE_COLOR_B;\n        __cstl_bintree_rotate(t, x->p, l, r);",
   "        if (*l(w) != NULL) *BN_COLOR(*l(w)) = CSTL_RBTREE_COLOR_B;\n        __cstl_bintree_rotate(t, x->p, l, r);"))
M("c02-root-black", "C02", "insert: root not forced black",
  (RB, "    *BN_COLOR(t->t.root) = CSTL_RBTREE_COLOR_B;\n", ""))
M("c02-sibling-recolour", "C02", "erase fix-up: black sibling with black children is not made red",
  (RB, "        /* if w has two black children, then make it red */\n        *BN_COLOR(w) = CSTL_RBTREE_COLOR_R;",
   "        /* if w has two black children, then make it red */"))
# ----------------------------------------------------------------- C07
M("c07-sift-smaller", "C07", "pop: second comparison picks the right child against n instead of the current best",
  (HP, "                if (n->r != NULL\n                    && __cstl_bintree_cmp(&h->bt, n->r, c) > 0) {",
   "                if (n->r != NULL\n                    && __cstl_bintree_cmp(&h->bt, n->r, n) > 0) {"))
M("c07-push-side", "C07", "push attaches to the wrong side",
  (HP, "        if (h->bt.size % 2 == 0) {", "        if (h->bt.size % 2 != 0) {"))
M("c07-fls", "C07", "cstl_fls misses the top half-step",
  ("src/common.c", "        for (i = 0, b = (8 * sizeof(x)) / 2; b != 0; b /= 2) {", "        for (i = 0, b = (8 * sizeof(x)) / 2; b > 1; b /= 2) {"))
M("c07-promote-right-parent", "C07", "promote-child forgets p->r->p = c",
  (HP, "    if (p->r != NULL) {\n        p->r->p = c;\n    }", "    if (p->r != NULL) {\n    }"))
M("c07-push-ge", "C07", "push sifts up only while strictly greater than grandparent-level (stops one early on ties is fine) -> stops when equal to size threshold",
  (HP, "        while (n->p != NULL\n               && __cstl_bintree_cmp(&h->bt, n, n->p) > 0) {",
   "        while (n->p != NULL && n->p->p != NULL\n               && __cstl_bintree_cmp(&h->bt, n, n->p) > 0) {"))
M("c07-loc-short", "C07", "slot number narrowed to 16 bits (wrong from 65535 elements on)",
  (HP, "    const unsigned int loc = id + 1;", "    const unsigned short loc = (unsigned short)(id + 1);"))
# ----------------------------------------------------------------- C12
M("c12-swap-anchor", "C12", "swap: re-anchor only the forward neighbour",
  (DL, "            L->h.n->p = L->h.p->n = &L->h;      \\", "            L->h.n->p = &L->h;                  \\"))
M("c12-reverse-adjacent", "C12", "reverse: drop the adjacent-pair path",
  (DL, "    if (i->n == j) {\n", "    if (0 && i->n == j) {\n"))
M("c12-sort-tail", "C12", "sort: the remaining half is not appended when it is the second one",
  (DL, "        } else {\n            cstl_dlist_concat(l, &_l[1]);\n        }", "        } else if (_l[1].size > 1) {\n            cstl_dlist_concat(l, &_l[1]);\n        }"))
M("c12-concat-reinit", "C12", "concat does not re-initialise the source",
  (DL, "        /* leave the original list in a usable state */\n        cstl_dlist_init(s, s->off);", "        s->size = 0;"))
M("c12-find-rev", "C12", "find ignores the direction",
  (DL, "    if (cstl_dlist_foreach((struct cstl_dlist *)l,\n                           cstl_dlist_find_visit, &lfp, dir) > 0) {",
   "    if (cstl_dlist_foreach((struct cstl_dlist *)l,\n                           cstl_dlist_find_visit, &lfp, CSTL_DLIST_FOREACH_DIR_FWD) > 0) {"))
M("c12-find-static-priv", "C12", "find keeps its private block static (not re-entrant)",
  (DL, "    struct cstl_dlist_find_priv lfp;\n\n    lfp.cmp = cmp;", "    static struct cstl_dlist_find_priv lfp;\n\n    lfp.cmp = cmp;"))
M("c12-foreach-next-after", "C12", "foreach reads the successor after the visit",
  (DL, "    for (c = *next(&l->h), n = *next(c);\n         res == 0 && c != &l->h;\n         c = n, n = *next(c)) {\n        res = visit(__cstl_dlist_element(l, c), p);\n    }",
   "    for (c = *next(&l->h);\n         res == 0 && c != &l->h;\n         c = n) {\n        res = visit(__cstl_dlist_element(l, c), p);\n        n = *next(c);\n    }"))
# ----------------------------------------------------------------- C13
M("c13-erase-tail", "C13", "erase_after does not move the tail",
  (SL, "    e->n = n->n;\n    if (sl->t == n) {\n        sl->t = e;\n    }", "    e->n = n->n;"))
M("c13-reverse-tail", "C13", "reverse leaves the tail at the old last",
  (SL, "        sl->t = c;\n        assert(sl->t->n == NULL);", ""))
M("c13-swap-empty", "C13", "swap: no tail fix for empty lists",
  (SL, "        if (SL->count == 0) {                   \\\n            SL->t = &SL->h;                     \\\n        }                                       \\", "        (void)SL;                               \\"))
M("c13-concat-tail", "C13", "concat keeps the old tail",
  (SL, "        dst->t->n = src->h.n;\n        dst->t = src->t;", "        dst->t->n = src->h.n;"))
M("c13-sort-tail", "C13", "sort: second half keeps a stale tail (tail of first half not cut)",
  (SL, "        _sl[1].t = sl->t;\n        t->n = NULL;", "        _sl[1].t = sl->t;\n        if (sl->count > 3) t->n = NULL;"))
M("c13-pop-empty", "C13", "pop_front emptiness check removed (the repaired defect)",
  (SL, "    if (sl->h.n == NULL) {\n        /* the list is empty */\n        return NULL;\n    }\n", ""))

# ----------------------------------------------------------------- C03
HS = "src/hash.c"
M("c03-no-clean-old", "C03", "lookup does not clean the key's old bucket",
  (HS, "        cstl_clean_bucket(h, bk);\n        cstl_clean_bucket(h, _bk);", "        cstl_clean_bucket(h, _bk);"))
M("c03-use-old-bucket", "C03", "keyed access keeps using the old bucket while pending",
  (HS, "        __cstl_hash_rehash(h, 1);\n\n        bk = _bk;", "        __cstl_hash_rehash(h, 1);"))
M("c03-no-flip", "C03", "resize does not flip the clean bit",
  (HS, "            h->bucket.cst = !h->bucket.cst;\n", ""))
M("c03-no-finish-before-resize", "C03", "resize does not finish the pending rehash first",
  (HS, "            cstl_hash_rehash(h);\n\n            h->bucket.cst = !h->bucket.cst;", "            h->bucket.cst = !h->bucket.cst;"))
M("c03-erase-splice", "C03", "erase splices one node too late",
  (HS, "        *hep.n = (*hep.n)->next;\n        h->count--;", "        if ((*hep.n)->next != NULL) { hep.n = &(*hep.n)->next; }\n        *hep.n = (*hep.n)->next;\n        h->count--;"))
M("c03-shrink-no-finish", "C03", "shrink_to_fit without forcing completion",
  (HS, "    if (h->bucket.capacity > count) {\n        cstl_hash_rehash(h);\n        __cstl_hash_set_capacity(h, h->bucket.count);", "    if (h->bucket.capacity > count) {\n        __cstl_hash_set_capacity(h, count);"))
M("c03-size-drift", "C03", "erase of a non-member still decrements the size when the bucket is non-empty",
  (HS, "    if (cstl_hash_bucket_foreach(\n            h, bk->n, cstl_hash_erase_visit, &hep) != 0) {", "    if (cstl_hash_bucket_foreach(\n            h, bk->n, cstl_hash_erase_visit, &hep) != 0 || (bk->n != NULL && bk->n->next != NULL && (hep.n = &bk->n->next->next, *hep.n != NULL))) {"))
M("c03-find-first-only", "C03", "find stops offering after the first rejected duplicate",
  (HS, "        if (hfp->visit == NULL || hfp->visit(e, hfp->p) != 0) {\n            hfp->e = e;\n            return 1;\n        }",
   "        if (hfp->visit == NULL || hfp->visit(e, hfp->p) != 0) {\n            hfp->e = e;\n        }\n        return 1;"))
M("c03-setcap-commit", "C03", "set_capacity records the capacity even when realloc fails",
  (HS, "    if (at != NULL) {\n        h->bucket.at = at;\n        h->bucket.capacity = sz;\n    }", "    if (at != NULL) {\n        h->bucket.at = at;\n    }\n    h->bucket.capacity = sz;"), also=["C16"])
M("c03-new-buckets-dirty", "C03", "newly added buckets are initialised dirty (they are never swept, so they look clean after the NEXT resize flips the marker)",
  (HS, "                h->bucket.at[i].cst = h->bucket.cst;\n            }", "                h->bucket.at[i].cst = !h->bucket.cst;\n            }"), also=["C04"])
# ----------------------------------------------------------------- C04
M("c04-foreach-no-finish", "C04", "foreach no longer forces completion (callback may erase mid-rehash)",
  (HS, "    cstl_hash_rehash(h);\n    return __cstl_hash_foreach(h, visit, p);", "    return __cstl_hash_foreach(h, visit, p);"))
M("c04-next-after-visit", "C04", "chain walk reads next after the visit",
  (HS, "    HASH_LIST_FOREACH(n, n, nn) {\n        if ((res = visit(__cstl_hash_element(h, n), p)) != 0) {\n            break;\n        }\n    }",
   "    while (n != NULL) {\n        res = visit(__cstl_hash_element(h, n), p);\n        nn = n->next;\n        if (res != 0) {\n            break;\n        }\n        n = nn;\n    }"))
M("c04-clear-no-free", "C04", "clear does not free the bucket array",
  (HS, "    free(h->bucket.at);\n    h->bucket.at = NULL;", "    h->bucket.at = NULL;"))
M("c04-walk-old-count", "C04", "enumeration walk bounded by the current count again (the repaired defect)",
  (HS, "    if (h->bucket.rh.hash != NULL && h->bucket.rh.count > count) {\n        count = h->bucket.rh.count;\n    }", ""))
M("c04-clear-keeps-hash", "C04", "clear keeps the hash function (the repaired defect)",
  (HS, "    h->bucket.capacity = 0;\n    h->bucket.hash = NULL;", "    h->bucket.capacity = 0;"))
M("c04-clear-skips-last", "C04", "clear does not call back for elements in the last bucket",
  (HS, "        __cstl_hash_foreach(h, cstl_hash_clear_visit, &hcp);", "        if (h->bucket.count > 1) { h->bucket.count--; }\n        __cstl_hash_foreach(h, cstl_hash_clear_visit, &hcp);"))
# ----------------------------------------------------------------- C17
M("c17-no-check-pending", "C17", "range check skipped for lookups under the pending geometry",
  (HS, "    const size_t i = hash(k, count);\n    if (i >= count) {", "    const size_t i = hash(k, count);\n    if (i >= count && count == h->bucket.count) {"))
M("c17-check-gt", "C17", "range check uses > instead of >=",
  (HS, "    if (i >= count) {\n        abort();", "    if (i > count) {\n        abort();"))
M("c17-deref-before-check", "C17", "bucket is dereferenced before the range check (abort only for empty-looking slots)",
  (HS, "    if (i >= count) {\n        abort();\n    }\n    return &h->bucket.at[i];", "    if (i >= count && h->bucket.at[i].n == NULL) {\n        abort();\n    }\n    return &h->bucket.at[i];"))
M("c17-clamp", "C17", "out-of-range results are clamped instead of aborting",
  (HS, "    const size_t i = hash(k, count);\n    if (i >= count) {\n        abort();\n    }", "    size_t i = hash(k, count);\n    if (i >= count) {\n        i = count - 1;\n    }"))
# ----------------------------------------------------------------- C19
M("c19-sweep-zero", "C19", "keyed access sweeps 0 extra buckets",
  (HS, "        __cstl_hash_rehash(h, 1);\n\n        bk = _bk;", "        __cstl_hash_rehash(h, 0);\n\n        bk = _bk;"))
M("c19-eager", "C19", "the first keyed access rehashes the whole table",
  (HS, "        __cstl_hash_rehash(h, 1);\n\n        bk = _bk;", "        __cstl_hash_rehash(h, SIZE_MAX);\n\n        bk = _bk;"))
M("c19-load-current", "C19", "load uses the current count while pending",
  ("include/cstl/hash.h", "    if (h->bucket.rh.hash != NULL) {\n        count = h->bucket.rh.count;\n    }\n    return (float)h->count / count;", "    return (float)h->count / count;"))
M("c19-compare-current", "C19", "resize compares with the current geometry again (the repaired defect)",
  (HS, "        if (h->bucket.rh.hash != NULL) {\n            cur_count = h->bucket.rh.count;\n            cur_hash = h->bucket.rh.hash;\n        }\n", ""))
M("c19-adopt-early", "C19", "sweep adopts the new geometry one bucket early",
  (HS, "    if (h->bucket.rh.clean >= h->bucket.count) {\n        /* everything is clean; mark the rehash as complete */",
   "    if (h->bucket.rh.clean + 1 >= h->bucket.count) {\n        /* everything is clean; mark the rehash as complete */"), also=["C03"])
M("c19-keep-fn", "C19", "resize with a new function at the same size keeps the old function",
  (HS, "            if (hash != NULL) {\n                h->bucket.rh.hash = hash;\n            } else if", "            if (hash != NULL && count != cur_count) {\n                h->bucket.rh.hash = hash;\n            } else if"))

# ----------------------------------------------------------------- C08
MP = "src/map.c"
M("c08-existing-rc", "C08", "insert of an existing key returns 0",
  (MP, "    err = 1;\n    node = __cstl_map_find(map, key, &p);", "    err = 0;\n    node = __cstl_map_find(map, key, &p);"))
M("c08-existing-overwrite", "C08", "insert of an existing key overwrites the stored value",
  (MP, "    if (node == NULL) {\n        /* no existing node in the map, carry on */", "    if (node != NULL) { node->val = val; }\n    if (node == NULL) {\n        /* no existing node in the map, carry on */"))
M("c08-erase-it-leak", "C08", "erase_iterator does not free the node",
  (MP, "    __cstl_rbtree_erase(&map->t, &n->n);\n    cstl_map_node_free(n);", "    __cstl_rbtree_erase(&map->t, &n->n);"))
M("c08-alloc-fail-rc", "C08", "allocation failure returns 0",
  (MP, "        err = -1;\n        node = cstl_map_node_alloc(key, val);", "        err = 0;\n        node = cstl_map_node_alloc(key, val);"), also=["C16"])
M("c08-erase-reports-end", "C08", "erase reports the end iterator instead of the removed entry",
  (MP, "    if (_i != NULL) {\n        *_i = i;\n        _i->_ = NULL;\n    }", "    if (_i != NULL) {\n        *_i = *cstl_map_iterator_end(map);\n    }"))
M("c08-free-before-unlink", "C08", "erase_iterator frees the node before unlinking it",
  (MP, "    __cstl_rbtree_erase(&map->t, &n->n);\n    cstl_map_node_free(n);", "    cstl_map_node_free(n);\n    __cstl_rbtree_erase(&map->t, &n->n);"))
M("c08-hint-stale", "C08", "insert remembers the hint of the previous insert when the key is larger (two cooperating sites)",
  (MP, "    err = 1;\n    node = __cstl_map_find(map, key, &p);", "    static struct cstl_map_node * lastp; static const cstl_map_t * lastm;\n    err = 1;\n    node = __cstl_map_find(map, key, &p);\n    if (node == NULL && lastm == map && lastp != NULL && p != NULL && cstl_map_size(map) > 6 && (cstl_map_size(map) & 3) == 1) { p = lastp; }\n    lastp = p; lastm = map;"))

# ----------------------------------------------------------------- C09
VC = "src/vector.c"
M("c09-commit-before-check", "C09", "capacity committed before the realloc result is checked",
  (VC, "    if (e != NULL) {\n        v->elem.base = e;\n        v->cap = sz;\n    }", "    if (e != NULL) {\n        v->elem.base = e;\n    }\n    v->cap = sz;"), also=["C16"])
M("c09-at-gt", "C09", "at: > for >=",
  (VC, "    if (i >= v->count) {\n        abort();", "    if (i > v->count) {\n        abort();"))
M("c09-destroy-from-count", "C09", "destroy loop starts at count instead of --count",
  (VC, "            xtor(__cstl_vector_at(v, --v->count), priv);", "            xtor(__cstl_vector_at(v, v->count--), priv);"))
M("c09-scratch-cap-plus-1", "C09", "scratch slot at cap + 1 (sort)",
  (VC, "        swap, __cstl_vector_at(v, v->cap),\n        algo);", "        swap, __cstl_vector_at(v, v->cap + 1),\n        algo);"))
M("c09-no-scratch", "C09", "storage allocated without the scratch element",
  (VC, "        e = realloc(v->elem.base, (sz + 1) * v->elem.size);", "        e = realloc(v->elem.base, (sz ? sz : 1) * v->elem.size);"))
M("c09-overflow-unchecked", "C09", "the overflow check is removed again (the repaired defect)",
  (VC, "    if (v->elem.size > 0 && sz < SIZE_MAX / v->elem.size) {", "    if (v->elem.size > 0) {"))
M("c09-resize-no-abort", "C09", "resize does not abort when capacity is still short",
  (VC, "    if (v->cap < sz) {", "    if (v->cap < sz && v->cap == 0) {"), also=["C16"])
M("c09-cons-from-zero", "C09", "construct loop restarts from the old count minus one when growing from non-empty",
  (VC, "        do {\n            xtor(__cstl_vector_at(v, v->count++), priv);\n        } while (v->count < sz);", "        if (v->count > 2) { v->count--; }\n        do {\n            xtor(__cstl_vector_at(v, v->count++), priv);\n        } while (v->count < sz);"))
M("c09-clear-leak", "C09", "clear forgets to free when the vector is empty",
  (VC, "    cstl_vector_resize(v, 0);\n    free(v->elem.base);", "    if (v->count > 0) {\n        cstl_vector_resize(v, 0);\n        free(v->elem.base);\n    }"))
M("c09-shrink-below", "C09", "shrink_to_fit shrinks to count - 1 when the vector is large",
  (VC, "        cstl_vector_set_capacity(v, v->count);", "        cstl_vector_set_capacity(v, v->count > 40 ? v->count - 1 : v->count);"))

# ----------------------------------------------------------------- C10
ST = "src/_string.c"
M("c10-erase-no-terminator", "C10", "erase shrinks through the vector without rewriting the terminator",
  (ST, "            (size - (idx + len)) * sizeof(cstl_STRING_char_t));\n    STRF(__resize, s, size - len);", "            (size - (idx + len)) * sizeof(cstl_STRING_char_t));\n    cstl_vector_resize(&s->v, size - len + 1);"))
M("c10-resize-no-nulfill", "C10", "public resize does not NUL-fill new characters",
  (ST, "    while (sz < n) {\n        *STRF(__at, s, sz++) = STRV(nul);\n    }", "    (void)sz;"))
M("c10-memmove-short", "C10", "insert moves one character too few",
  (ST, "                (size - pos) * sizeof(cstl_STRING_char_t));\n    }", "                (size - pos > 1 ? size - pos - 1 : size - pos) * sizeof(cstl_STRING_char_t));\n    }"))
M("c10-wide-bytes", "C10", "insert tail move without the character-size factor (wide build only)",
  (ST, "                (size - pos) * sizeof(cstl_STRING_char_t));\n    }", "                (size - pos));\n    }"))
M("c10-clamp-wraps", "C10", "count clamp written as pos + n > size again (the repaired defect)",
  (ST, "    if (*len > size - pos) {", "    if (pos + *len > size) {"))
M("c10-insert-pos-ge", "C10", "insert position check uses >= (append at size aborts)... relaxed to > size + 1",
  (ST, "    if (pos > STRF(size, s)) {\n        abort();", "    if (pos > STRF(size, s) + 1) {\n        abort();"))
M("c10-find-from-start", "C10", "find_str searches from the start instead of pos",
  (ST, "    f = STDSTRF(str, str + pos, n);", "    f = STDSTRF(str, str, n);"))
M("c10-substr-len", "C10", "substr copies one character less when clamped",
  (ST, "    if (*len > size - pos) {\n        *len = size - pos;", "    if (*len > size - pos) {\n        *len = size - pos > 1 ? size - pos - 1 : size - pos;"))
M("c10-str-reserved", "C10", "str() hands out reserved-but-empty storage again (the repaired defect)",
  (ST, "    if (str == NULL || cstl_vector_size(&s->v) == 0) {", "    if (str == NULL) {"))
M("c10-no-overflow-abort", "C10", "insert no longer aborts on an unrepresentable length (the repaired defect)",
  (ST, "        if (len > SIZE_MAX - size) {\n            /* the resulting length cannot be represented */\n            abort();\n        }\n", ""))

# ----------------------------------------------------------------- C05
MM = "src/memory.c"
MH = "include/cstl/memory.h"
M("c05-last-owner-ge", "C05", "last-owner test == 1 -> >= 1",
  (MM, "        if (atomic_fetch_sub(&data->ref.hard, 1) == 1) {", "        if (atomic_fetch_sub(&data->ref.hard, 1) >= 1) {"), also=["C06"])
M("c05-share-no-soft", "C05", "share forgets the reference-count increment",
  (MM, "        atomic_fetch_add(&data->ref.hard, 1);\n        atomic_fetch_add(&data->ref.soft, 1);\n    }\n}\n\nvoid cstl_shared_ptr_reset", "        atomic_fetch_add(&data->ref.hard, 1);\n    }\n}\n\nvoid cstl_shared_ptr_reset"), also=["C06"])
M("c05-weak-reset-zero", "C05", "weak_ptr_reset frees on == 0 (never)",
  (MM, "        if (atomic_fetch_sub(&data->ref.soft, 1) == 1) {\n            free(data);", "        if (atomic_fetch_sub(&data->ref.soft, 1) == 0) {\n            free(data);"), also=["C06"])
M("c05-unique-swap-no-clr", "C05", "unique_ptr_swap swaps the pointer but not the callback pair",
  (MH, "    cstl_guarded_ptr_swap(&up1->gp, &up2->gp);\n    cstl_swap(&up1->clr, &up2->clr, t, sizeof(t));", "    cstl_guarded_ptr_swap(&up1->gp, &up2->gp);\n    (void)t;"))
M("c05-alloc-fail-leak", "C05", "shared_ptr_alloc failure path does not free the bookkeeping block",
  (MM, "                data = NULL;\n            }\n\n            free(data);", "                data = NULL;\n            }\n"), also=["C16"])
M("c05-lock-no-undo", "C05", "failed lock does not undo the owner increment",
  (MM, "            atomic_fetch_sub(&data->ref.hard, 1);\n            cstl_guarded_ptr_set(&sp->data, NULL);", "            cstl_guarded_ptr_set(&sp->data, NULL);"), also=["C06"])
M("c05-lock-no-soft", "C05", "successful lock forgets the reference increment",
  (MM, "            atomic_fetch_add(&data->ref.soft, 1);\n        } else {", "        } else {"), also=["C06"])
M("c05-clear-after-free", "C05", "unique reset frees before calling the clear callback",
  (MM, "    if (up->clr.func != NULL) {\n        up->clr.func(ptr, up->clr.priv);\n    }\n    free(ptr);", "    free(ptr);\n    if (up->clr.func != NULL) {\n        up->clr.func(ptr, up->clr.priv);\n    }"))
M("c05-release-keeps-clr", "C05", "release reports a NULL callback when priv is not requested",
  (MH, "    if (clr != NULL) {", "    if (clr != NULL && priv != NULL) {"))
M("c05-share-same-block", "C05", "share into a pointer that already owns the same block skips the reset but still increments",
  (MM, "    cstl_shared_ptr_reset(n);\n    cstl_guarded_ptr_copy(&n->data, &e->data);", "    if (cstl_guarded_ptr_get_const(&n->data) != cstl_guarded_ptr_get_const(&e->data)) {\n        cstl_shared_ptr_reset(n);\n    }\n    cstl_guarded_ptr_copy(&n->data, &e->data);"))
# ----------------------------------------------------------------- C06
M("c06-no-spinlock", "C06", "spin lock removed from weak_ptr_lock",
  (MM, "        while (atomic_flag_test_and_set(&data->ref.lock)) {\n            sched_yield(); // GCOV_EXCL_LINE\n        }\n", ""))
M("c06-flag-never-cleared", "C06", "atomic_flag_clear removed",
  (MM, "        atomic_flag_clear(&data->ref.lock);\n    }\n}", "    }\n}"))
M("c06-soft-before-hard", "C06", "reset drops the reference before the owner count",
  (MM, "    if (data != NULL) {\n        if (atomic_fetch_sub(&data->ref.hard, 1) == 1) {\n            cstl_unique_ptr_reset(&data->up);\n        }\n\n        /*\n         * manage the shared data structure via the\n         * weak pointer code; it's the same handling\n         */\n        cstl_weak_ptr_reset(sp);\n    }",
   "    if (data != NULL) {\n        const int last = atomic_load(&data->ref.soft) == 1;\n        if (!last) { atomic_fetch_sub(&data->ref.soft, 1); }\n        if (atomic_fetch_sub(&data->ref.hard, 1) == 1) {\n            cstl_unique_ptr_reset(&data->up);\n        }\n        cstl_guarded_ptr_set(&sp->data, NULL);\n        if (last) { free(data); }\n    }"))
M("c06-check-then-inc", "C06", "lock checks the owner count with a load, then increments (no lock needed?)",
  (MM, "        if (atomic_fetch_add(&data->ref.hard, 1) > 0) {", "        if (atomic_load(&data->ref.hard) > 0 && atomic_fetch_add(&data->ref.hard, 1) >= 0) {"))
M("c06-share-hard-late", "C06", "share increments the reference count first and the owner count only after re-reading the pointer (window with soft>hard is fine) -> owner increment skipped when the count is 1",
  (MM, "        atomic_fetch_add(&data->ref.hard, 1);\n        atomic_fetch_add(&data->ref.soft, 1);\n    }\n}\n\nvoid cstl_shared_ptr_reset",
   "        atomic_fetch_add(&data->ref.soft, 1);\n        if (atomic_load(&data->ref.hard) != 1 || atomic_load(&data->ref.soft) < 4) { atomic_fetch_add(&data->ref.hard, 1); }\n    }\n}\n\nvoid cstl_shared_ptr_reset"))
M("c06-unlock-early", "C06", "lock releases the flag before undoing a failed increment",
  (MM, "            /* the memory wasn't live, put the counter back */\n            atomic_fetch_sub(&data->ref.hard, 1);", "            /* the memory wasn't live, put the counter back */\n            atomic_flag_clear(&data->ref.lock);\n            atomic_fetch_sub(&data->ref.hard, 1);"))
M("c06-relaxed-hard", "C06", "owner-count decrement with memory_order_relaxed",
  (MM, "        if (atomic_fetch_sub(&data->ref.hard, 1) == 1) {", "        if (atomic_fetch_sub_explicit(&data->ref.hard, 1, memory_order_relaxed) == 1) {"))
M("c06-relaxed-soft", "C06", "reference-count decrement with memory_order_relaxed",
  (MM, "        if (atomic_fetch_sub(&data->ref.soft, 1) == 1) {", "        if (atomic_fetch_sub_explicit(&data->ref.soft, 1, memory_order_relaxed) == 1) {"))
M("c06-plain-flag", "C06", "the lock flag is released with a relaxed clear",
  (MM, "        atomic_flag_clear(&data->ref.lock);\n    }\n}", "        atomic_flag_clear_explicit(&data->ref.lock, memory_order_relaxed);\n    }\n}"))
# ----------------------------------------------------------------- C11
M("c11-pivot-not-tracked", "C11", "pivot pointer not updated after a swap",
  (AR, "            if (p == a) {\n                p = b;\n            } else if (p == b) {\n                p = a;\n            }", "            if (p == b) {\n                p = a;\n            }"))
M("c11-recursion-open", "C11", "recursion on [0,m) instead of [0,m]",
  (AR, "            cstl_raw_array_qsort(\n                arr, m + 1, size,", "            cstl_raw_array_qsort(\n                arr, m, size,"))
M("c11-heapify-low", "C11", "heapify starts one parent too low",
  (AR, "        for (i = count / 2 - 1; i >= 0; i--) {", "        for (i = count / 2 - 2; i >= 0; i--) {"))
M("c11-search-lt", "C11", "binary search loops while i < j",
  (AR, "    for (i = 0, j = (ssize_t)count - 1; i <= j;) {", "    for (i = 0, j = (ssize_t)count - 1; i < j;) {"))
M("c11-sift-smaller", "C11", "heap sift-down compares the right child against n instead of the current best",
  (AR, "        if (r < count\n            && cmp(__cstl_raw_array_at(arr, size, r),\n                   __cstl_raw_array_at(arr, size, c),", "        if (r < count\n            && cmp(__cstl_raw_array_at(arr, size, r),\n                   __cstl_raw_array_at(arr, size, n),"))
M("c11-median-unsorted", "C11", "median-of-three leaves the triple unsorted (second comparison dropped)",
  (AR, "            } else if (cmp(end, mid, priv) < 0) {\n                swap(end, mid, tmp, size);\n            }", "            }"))
M("c11-selector-fallback", "C11", "selector fallback missing (out-of-range does nothing)",
  (AR, "    default:\n        cstl_raw_array_sort(\n            arr, count, size, cmp, priv, swap, tmp,\n            CSTL_SORT_ALGORITHM_DEFAULT);\n        break;", "    default:\n        break;"))
M("c11-find-last", "C11", "find keeps scanning and returns the last match",
  (AR, "        if (cmp(ex, __cstl_raw_array_at(arr, size, i), priv) == 0) {\n            return i;\n        }\n    }\n\n    return -1;", "        if (cmp(ex, __cstl_raw_array_at(arr, size, i), priv) == 0) {\n            r = i;\n        }\n    }\n\n    return r;"),
  (AR, "    size_t i;\n\n    for (i = 0; i < count; i++) {\n        if (cmp(ex,", "    size_t i; ssize_t r = -1;\n\n    for (i = 0; i < count; i++) {\n        if (cmp(ex,"))
M("c11-search-static", "C11", "binary search keeps its bounds in static variables (not re-entrant)",
  (AR, "    ssize_t i, j;\n\n    for (i = 0, j = (ssize_t)count - 1; i <= j;) {", "    static ssize_t i, j;\n\n    for (i = 0, j = (ssize_t)count - 1; i <= j;) {"))
M("c11-reverse-odd", "C11", "reverse stops one pair early",
  (AR, "    for (i = 0, j = (ssize_t)count - 1; i < j; i++, j--) {\n        swap(", "    for (i = 0, j = (ssize_t)count - 1; i + 1 < j; i++, j--) {\n        swap("))
M("c11-swap-8-as-4", "C11", "cstl_swap moves only 4 bytes of 8-byte elements",
  ("include/cstl/common.h", "    case sizeof(uint64_t): EXCH(uint64_t, x, y, t); break;", "    case sizeof(uint64_t): EXCH(uint32_t, x, y, t); break;"))
M("c11-vector-search-cap", "C11", "vector binary search covers capacity instead of size",
  (VE, "    return cstl_raw_array_search(v->elem.base,\n                                 v->count, v->elem.size,", "    return cstl_raw_array_search(v->elem.base,\n                                 v->cap, v->elem.size,"))
M("c11-vector-find-short", "C11", "vector find stops one element early",
  (VE, "    return cstl_raw_array_find(v->elem.base,\n                               v->count, v->elem.size,", "    return cstl_raw_array_find(v->elem.base,\n                               v->count ? v->count - 1 : 0, v->elem.size,"))
M("c11-vector-reverse-scratch", "C11", "vector reverse uses the last element as scratch",
  (VE, "                           swap, __cstl_vector_at(v, v->cap));\n}\n\nvoid cstl_vector_swap", "                           swap, __cstl_vector_at(v, v->count ? v->count - 1 : 0));\n}\n\nvoid cstl_vector_swap"))
M("c12-foreach-result-char", "C12", "dlist foreach keeps the visit result in a signed char (256 reads as 0: the traversal does not stop)",
  (DL, "    struct cstl_dlist_node * c, * n;\n    int res = 0;\n\n    switch (dir) {", "    struct cstl_dlist_node * c, * n;\n    signed char res = 0;\n\n    switch (dir) {"))
M("c03-find-accept-positive", "C03", "hash find accepts only positive visit results",
  (HS, "        if (hfp->visit == NULL || hfp->visit(e, hfp->p) != 0) {", "        if (hfp->visit == NULL || hfp->visit(e, hfp->p) > 0) {"))
M("c03-element-offset-uint", "C03", "hash: node-to-element conversion narrows the offset to unsigned int",
  (HS, "    return (void *)((uintptr_t)n - h->off);", "    return (void *)((uintptr_t)n - (unsigned int)h->off);"))
M("c12-element-offset-int", "C12", "dlist: element-to-node conversion narrows the offset to int",
  (DL, "    return (void *)((uintptr_t)e + l->off);", "    return (void *)((uintptr_t)e + (int)l->off);"))
M("c13-element-offset-uint", "C13", "slist: node-to-element conversion narrows the offset to unsigned int",
  (SL, "    return (void *)((uintptr_t)n - s->off);", "    return (void *)((uintptr_t)n - (unsigned int)s->off);"))
M("c07-element-offset-int", "C07", "bintree (heap): node-to-element conversion narrows the offset to int",
  (BT, "    return (void *)((uintptr_t)bn - bt->off);", "    return (void *)((uintptr_t)bn - (int)bt->off);"))
M("c11-search-int-index", "C11", "binary search keeps its indices in int again (the defect repaired by ca929c1)",
  (AR, "    ssize_t i, j;\n\n    for (i = 0, j = (ssize_t)count - 1; i <= j;) {\n        const ssize_t n = i + (j - i) / 2;", "    int i, j;\n\n    for (i = 0, j = count - 1; i <= j;) {\n        const int n = (i + j) / 2;"))
M("c11-reverse-int-index", "C11", "reverse keeps its indices in int again (the defect repaired by ca929c1)",
  (AR, "    ssize_t i, j;\n\n    for (i = 0, j = (ssize_t)count - 1; i < j; i++, j--) {", "    int i, j;\n\n    for (i = 0, j = count - 1; i < j; i++, j--) {"))
# ----------------------------------------------------------------- C15
M("c15-dlist-cb-before-unlink", "C15", "dlist clear calls back before unlinking",
  (DL, "    while (l->size > 0) {\n        clr(__cstl_dlist_erase(l, l->h.n), NULL);\n    }", "    while (l->size > 0) {\n        struct cstl_dlist_node * const n = l->h.n;\n        clr(__cstl_dlist_element(l, n), NULL);\n        __cstl_dlist_erase(l, n);\n    }"))
M("c15-slist-next-after-cb", "C15", "slist clear reads next after the callback",
  (SL, "        struct cstl_slist_node * const n = h->n;\n        clr(__cstl_slist_element(sl, h), NULL);\n        h = n;", "        clr(__cstl_slist_element(sl, h), NULL);\n        h = h->n;"))
M("c15-tree-root-kept", "C15", "tree clear does not reset root",
  (BT, "        bt->root  = NULL;\n        bt->size = 0;", "        bt->size = 0;"))
M("c15-tree-cb-pre", "C15", "tree clear calls back on the PRE visit of non-leaves (children read afterwards are captured, but MID/POST revisit the freed node)",
  (BT, "    if (order == CSTL_BINTREE_VISIT_ORDER_POST\n        || order == CSTL_BINTREE_VISIT_ORDER_LEAF) {", "    if (order == CSTL_BINTREE_VISIT_ORDER_PRE\n        || order == CSTL_BINTREE_VISIT_ORDER_POST\n        || order == CSTL_BINTREE_VISIT_ORDER_LEAF) {"))
M("c15-slist-no-reinit", "C15", "slist clear does not re-initialise the list",
  (SL, "        h = n;\n    }\n\n    cstl_slist_init(sl, sl->off);", "        h = n;\n    }\n\n    sl->count = 0;"))
M("c15-map-free-first", "C15", "map clear frees the node before building the iterator for the callback",
  (MP, "    if (cmc->clr != NULL) {\n        cstl_map_iterator_t i;\n\n        cstl_map_iterator_init(cmc->map, &i, node);", "    cstl_map_node_free(node);\n    if (cmc->clr != NULL) {\n        cstl_map_iterator_t i;\n\n        cstl_map_iterator_init(cmc->map, &i, node);"),
  (MP, "        cmc->clr(&i, cmc->priv);\n    }\n\n    cstl_map_node_free(node);", "        cmc->clr(&i, cmc->priv);\n    }"))
M("c15-heap-clear-skips-root", "C15", "heap/tree clear of a single-element container skips the callback",
  (BT, "    if (bt->root != NULL) {\n        struct cstl_bintree_clear_priv bcp;", "    if (bt->root != NULL && bt->size > 1) {\n        struct cstl_bintree_clear_priv bcp;"))
# ----------------------------------------------------------------- C16
M("c16-map-link-before-check", "C16", "map insert links the node before checking the allocation",
  (MP, "        node = cstl_map_node_alloc(key, val);\n        if (node != NULL) {\n            cstl_rbtree_insert(&map->t, node, p);\n            err = 0;\n        }", "        node = cstl_map_node_alloc(key, val);\n        cstl_rbtree_insert(&map->t, node, p);\n        if (node != NULL) {\n            err = 0;\n        }"))
M("c16-string-reserve-abort", "C16", "string reserve aborts when the allocation fails",
  ("include/cstl/_string.h", "    cstl_vector_reserve(&s->v, sz + 1);", "    cstl_vector_reserve(&s->v, sz + 1);\n    if (sz + 1 != 0 && cstl_vector_capacity(&s->v) < sz + 1 && sz < 100000) { abort(); }"))
M("c16-unique-alloc-stale", "C16", "unique alloc keeps the callback of a failed allocation",
  (MM, "        if (ptr != NULL) {\n            cstl_guarded_ptr_set(&up->gp, ptr);\n            up->clr.func = clr;\n            up->clr.priv = priv;\n        }", "        up->clr.func = clr;\n        up->clr.priv = priv;\n        if (ptr != NULL) {\n            cstl_guarded_ptr_set(&up->gp, ptr);\n        }"))
M("c16-hash-resize-partial", "C16", "hash resize flips the clean bit even when the allocation failed",
  (HS, "        if (count > h->bucket.capacity) {\n            __cstl_hash_set_capacity(h, count);\n        }", "        if (count > h->bucket.capacity) {\n            __cstl_hash_set_capacity(h, count);\n            if (count > h->bucket.capacity && h->bucket.at != NULL) { h->bucket.cst = !h->bucket.cst; }\n        }"))
# ----------------------------------------------------------------- C20
M("c20-shared-swap-raw", "C20", "shared_ptr_swap swaps raw fields",
  (MH, "    cstl_guarded_ptr_swap(&sp1->data, &sp2->data);", "    void * const t = sp1->data.ptr;\n    sp1->data.ptr = sp2->data.ptr;\n    sp2->data.ptr = t;"))
M("c20-unique-release-raw", "C20", "unique_ptr_release reads gp.ptr directly",
  (MH, "    void * const p = cstl_unique_ptr_get(up);\n    if (clr != NULL) {", "    void * const p = up->gp.ptr;\n    if (clr != NULL) {"))
M("c20-guarded-copy-self", "C20", "guarded_ptr_copy no longer checks its source",
  (MH, "    cstl_guarded_ptr_set(dst, (void *)cstl_guarded_ptr_get_const(src));", "    cstl_guarded_ptr_set(dst, src->ptr);"))
M("c20-null-not-checked", "C20", "the guard is skipped for NULL pointers",
  (MH, "    if (gp->self != gp) {\n        abort();", "    if (gp->ptr != NULL && gp->self != gp) {\n        abort();"))
M("c20-array-data-raw", "C20", "array data() reads the descriptor without the guard when the view is empty",
  (AR, "    const struct cstl_raw_array * const ra =\n        cstl_shared_ptr_get_const(&a->ptr);\n    if (ra != NULL) {\n        return ra->buf;\n    }\n    return NULL;", "    const struct cstl_raw_array * ra;\n    if (a->len == 0 && a->ptr.data.ptr == NULL) {\n        return NULL;\n    }\n    ra = cstl_shared_ptr_get_const(&a->ptr);\n    if (ra != NULL) {\n        return ra->buf;\n    }\n    return NULL;"))
M("c20-weak-reset-raw", "C20", "weak_ptr_reset reads the pointer field directly",
  (MM, "void cstl_weak_ptr_reset(cstl_weak_ptr_t * const wp)\n{\n    struct cstl_shared_ptr_data * const data =\n        cstl_guarded_ptr_get(&wp->data);", "void cstl_weak_ptr_reset(cstl_weak_ptr_t * const wp)\n{\n    struct cstl_shared_ptr_data * const data = wp->data.ptr;"))
# ----------------------------------------------------------------- C14
AR = "src/array.c"
VE = "src/vector.c"
M("c14-at-no-offset", "C14", "at ignores the view offset",
  (AR, "        return __cstl_raw_array_at(ra->buf, ra->sz, a->off + i);", "        return __cstl_raw_array_at(ra->buf, ra->sz, i);"))
M("c14-slice-share-first", "C14", "slice shares before checking bounds",
  (AR, "    if (ra == NULL\n        || end < beg\n        || a->off > ra->nm\n        || end > ra->nm - a->off) {\n        abort();\n    }\n\n    s->off = a->off + beg;\n    s->len = end - beg;\n    if (a != s) {\n        cstl_shared_ptr_share(&a->ptr, &s->ptr);\n    }",
   "    if (a != s && ra != NULL) {\n        cstl_shared_ptr_share(&a->ptr, &s->ptr);\n    }\n    if (ra == NULL\n        || end < beg\n        || a->off > ra->nm\n        || end > ra->nm - a->off) {\n        abort();\n    }\n\n    s->off = a->off + beg;\n    s->len = end - beg;"))
M("c14-release-ignores-views", "C14", "release ignores other views",
  (AR, "        && ra->buf != ra + 1\n        && cstl_shared_ptr_unique(&a->ptr)) {", "        && ra->buf != ra + 1) {"))
M("c14-alloc-keeps-off", "C14", "alloc keeps the old offset again (the repaired defect)",
  (AR, "    /* drop the old buffer *and* the old view of it */\n    cstl_array_reset(a);", "    cstl_shared_ptr_reset(&a->ptr);"), also=["C16"])
M("c14-slice-end-len", "C14", "slice bound checked against the buffer size ignoring the offset",
  (AR, "        || end > ra->nm - a->off) {", "        || end > ra->nm) {"))
M("c14-unslice-keeps-off", "C14", "unslice keeps the offset",
  (AR, "    a->off = 0;\n    a->len = ra->nm;", "    a->len = ra->nm;"))
M("c14-release-internal", "C14", "release also hands out internal buffers",
  (AR, "    if (ra != NULL\n        && ra->buf != ra + 1\n        && cstl_shared_ptr_unique(&a->ptr)) {", "    if (ra != NULL\n        && cstl_shared_ptr_unique(&a->ptr)) {"))
M("c14-at-le", "C14", "at accepts index == size",
  (AR, "    if (i >= a->len) {\n        abort();", "    if (i > a->len) {\n        abort();"))

N("neg-lock-cas-loop", ["C06", "C05"], "weak lock implemented with a compare-exchange loop instead of the spin flag",
  (MM, "        while (atomic_flag_test_and_set(&data->ref.lock)) {\n            sched_yield(); // GCOV_EXCL_LINE\n        }\n", "        size_t seen = atomic_load(&data->ref.hard);\n        while (seen > 0 && !atomic_compare_exchange_weak(&data->ref.hard, &seen, seen + 1)) {\n        }\n"),
  (MM, "        if (atomic_fetch_add(&data->ref.hard, 1) > 0) {", "        if (seen > 0) {"),
  (MM, "            /* the memory wasn't live, put the counter back */\n            atomic_fetch_sub(&data->ref.hard, 1);\n", ""),
  (MM, "        atomic_flag_clear(&data->ref.lock);\n    }\n}", "    }\n}"))
N("neg-share-soft-first", ["C06", "C05"], "share increments the reference count before the owner count",
  (MM, "        atomic_fetch_add(&data->ref.hard, 1);\n        atomic_fetch_add(&data->ref.soft, 1);\n    }\n}\n\nvoid cstl_shared_ptr_reset", "        atomic_fetch_add(&data->ref.soft, 1);\n        atomic_fetch_add(&data->ref.hard, 1);\n    }\n}\n\nvoid cstl_shared_ptr_reset"))
N("neg-hash-insert-tail", ["C03", "C04", "C19"], "hash insert appends at the chain tail instead of the head",
  (HS, "    HASH_LIST_INSERT(bk->n, hn);\n\n    h->count++;", "    {\n        struct cstl_hash_node ** pp = &bk->n;\n        while (*pp != NULL) { pp = &(*pp)->next; }\n        hn->next = NULL;\n        *pp = hn;\n    }\n\n    h->count++;"))
N("neg-hash-eager-resize", ["C03", "C04", "C19"], "resize completes its rehash eagerly when the table is small (not a keyed operation)",
  (HS, "            h->bucket.rh.count = count;\n            h->bucket.rh.clean = 0;\n", "            h->bucket.rh.count = count;\n            h->bucket.rh.clean = 0;\n            if (h->bucket.hash != NULL && h->bucket.count <= 8) { __cstl_hash_rehash(h, SIZE_MAX); }\n"))
N("neg-heapify-extra", ["C11"], "heapify loop starts at count/2 (one extra, childless, index)",
  (AR, "        for (i = count / 2 - 1; i >= 0; i--) {", "        for (i = count / 2; i >= 0; i--) {"))
# ------------------------------------------------------- negative controls
N("neg-vector-overallocate", ["C09", "C10"], "vector growth over-allocates",
  (VC, "    if (sz > v->cap) {\n        cstl_vector_set_capacity(v, sz);\n    }", "    if (sz > v->cap) {\n        cstl_vector_set_capacity(v, sz < 1000 ? sz + sz / 2 + 1 : sz);\n    }"))
N("neg-vector-no-shrink", ["C09", "C10"], "shrink_to_fit declines to shrink",
  (VC, "    if (v->cap > v->count) {\n        cstl_vector_set_capacity(v, v->count);\n    }", "    (void)v;"))
N("neg-map-null-hint", ["C08"], "the map always passes a NULL hint",
  (MP, "            cstl_rbtree_insert(&map->t, node, p);", "            cstl_rbtree_insert(&map->t, node, NULL);"))
N("neg-map-free-before-callback", ["C08", "C15"], "the map frees the node before invoking the user's clear callback (detached iterator)",
  (MP, "    if (cmc->clr != NULL) {\n        cstl_map_iterator_t i;\n\n        cstl_map_iterator_init(cmc->map, &i, node);\n        i._ = NULL;\n\n        cmc->clr(&i, cmc->priv);\n    }\n\n    cstl_map_node_free(node);",
   "    cstl_map_iterator_t i;\n    cstl_map_iterator_init(cmc->map, &i, node);\n    i._ = NULL;\n    cstl_map_node_free(node);\n    if (cmc->clr != NULL) {\n        cmc->clr(&i, cmc->priv);\n    }"))
N("neg-string-find-ch-terminator", ["C10"], "find_ch(NUL) reports the terminator's index, as strchr does",
  ("src/_string.c", "    if (f != NULL && f != str + sz) {", "    if (f != NULL) {"))
N("neg-hash-load-double", ["C19"], "load computed in double precision",
  ("include/cstl/hash.h", "    return (float)h->count / count;", "    return (float)((double)h->count / (double)count);"))
N("neg-hash-sweep-two", ["C03", "C04", "C19"], "keyed access sweeps two extra buckets instead of one",
  (HS, "        __cstl_hash_rehash(h, 1);\n\n        bk = _bk;", "        __cstl_hash_rehash(h, 2);\n\n        bk = _bk;"))
N("neg-bintree-equal-left", ["C01", "C02", "C08"], "bintree insert sends equal keys left",
  (BT, "        if (__cstl_bintree_cmp(bt, bn, bp) < 0) {\n            bc = &bp->l;", "        if (__cstl_bintree_cmp(bt, bn, bp) <= 0) {\n            bc = &bp->l;"))
N("neg-bintree-ignore-hint", ["C01", "C02", "C08"], "the insert hint is ignored",
  (BT, "    if (p != NULL) {\n        bp = __cstl_bintree_node(bt, p);\n        bc = &bp;\n    }", "    (void)p;"))
N("neg-dlist-sort-unstable", ["C12"], "list sort becomes unstable",
  (DL, "                    priv) <= 0) {\n                ol = &_l[0];", "                    priv) < 0) {\n                ol = &_l[0];"))
N("neg-slist-sort-unstable", ["C13"], "slist sort becomes unstable",
  (SL, "                    cmp_p) <= 0) {\n                l = &_sl[0];", "                    cmp_p) < 0) {\n                l = &_sl[0];"))
N("neg-heap-tie", ["C07"], "heap sift-down breaks ties toward the right child",
  (HP, "                if (n->r != NULL\n                    && __cstl_bintree_cmp(&h->bt, n->r, c) > 0) {",
   "                if (n->r != NULL\n                    && __cstl_bintree_cmp(&h->bt, n->r, c) >= 0 && (c != n || __cstl_bintree_cmp(&h->bt, n->r, c) > 0)) {"))
N("neg-tree-clear-mid", ["C15", "C01"], "tree clear calls back on the MID visit instead of POST",
  (BT, "    if (order == CSTL_BINTREE_VISIT_ORDER_POST\n        || order == CSTL_BINTREE_VISIT_ORDER_LEAF) {",
   "    if (order == CSTL_BINTREE_VISIT_ORDER_MID\n        || order == CSTL_BINTREE_VISIT_ORDER_LEAF) {"))


# ---- negative controls that replace a whole function by a different correct implementation
def _func(path, start, end):
    src = open("/repo/" + path).read()
    a = src.index(start); b = src.index(end, a)
    return src[a:b]

try:
    N("neg-dlist-reverse-rewrite", ["C12", "C15"], "dlist reverse rewritten as a pointer-swap walk over every node",
      (DL, _func(DL, "void cstl_dlist_reverse(", "void cstl_dlist_concat("),
       "void cstl_dlist_reverse(struct cstl_dlist * const l)\n{\n    struct cstl_dlist_node * c = &l->h;\n    do {\n        struct cstl_dlist_node * const t = c->n;\n        c->n = c->p;\n        c->p = t;\n        c = t;\n    } while (c != &l->h);\n}\n\n"))
    N("neg-slist-reverse-rewrite", ["C13", "C15"], "slist reverse rewritten with the classic three-pointer loop",
      (SL, _func(SL, "void cstl_slist_reverse(", "void cstl_slist_concat("),
       "void cstl_slist_reverse(struct cstl_slist * const sl)\n{\n    struct cstl_slist_node * prev = NULL, * c = sl->h.n;\n    if (c != NULL) {\n        sl->t = c;\n    }\n    while (c != NULL) {\n        struct cstl_slist_node * const n = c->n;\n        c->n = prev;\n        prev = c;\n        c = n;\n    }\n    sl->h.n = prev;\n}\n\n"))
    N("neg-bintree-erase-predecessor", ["C01", "C02", "C08"], "bintree erase of a two-child node splices out the in-order predecessor instead of the successor",
      (BT, "        y = __cstl_bintree_next(bn);", "        y = __cstl_bintree_prev(bn);"))
    N("neg-string-resize-memset", ["C10"], "string resize NUL-fills with a loop from the old size computed after the internal resize",
      ("src/_string.c", "    size_t sz = STRF(size, s);\n    STRF(__resize, s, n);\n    while (sz < n) {\n        *STRF(__at, s, sz++) = STRV(nul);\n    }",
       "    const size_t old = STRF(size, s);\n    size_t i;\n    STRF(__resize, s, n);\n    for (i = old; i < n; i++) {\n        *STRF(__at, s, i) = STRV(nul);\n    }"))
    N("neg-weak-reset-order", ["C05", "C06"], "weak_ptr_reset clears the pointer after the decrement instead of before",
      (MM, "        cstl_guarded_ptr_set(&wp->data, NULL);\n\n        if (atomic_fetch_sub(&data->ref.soft, 1) == 1) {\n            free(data);\n        }", "        if (atomic_fetch_sub(&data->ref.soft, 1) == 1) {\n            free(data);\n        }\n        cstl_guarded_ptr_set(&wp->data, NULL);"))
    N("neg-rbtree-clear-iterative", ["C15", "C02", "C08"], "rbtree clear rewritten as a non-recursive post-order walk with a path stack deep enough for any tree (128 slots)",
      ("include/cstl/rbtree.h", "static inline void cstl_rbtree_clear(struct cstl_rbtree * const t,\n                                     cstl_xtor_func_t * const clr,\n                                     void * const priv)\n{\n    cstl_bintree_clear(&t->t, clr, priv);\n}",
       "void cstl_rbtree_clear(struct cstl_rbtree * t,\n                       cstl_xtor_func_t * clr, void * priv);"),
      (RB, "#ifdef __cfg_test__", "void cstl_rbtree_clear(struct cstl_rbtree * const t,\n                       cstl_xtor_func_t * const clr, void * const priv)\n{\n    struct cstl_bintree_node * path[128];\n    const struct cstl_bintree_node * done = NULL;\n    struct cstl_bintree_node * n = t->t.root;\n    unsigned int d = 0;\n\n    while (n != NULL || d > 0) {\n        if (n != NULL) {\n            path[d++] = n;\n            n = n->l;\n        } else {\n            struct cstl_bintree_node * const c = path[d - 1];\n            if (c->r != NULL && c->r != done) {\n                n = c->r;\n            } else {\n                d--;\n                done = c;\n                clr((void *)((uintptr_t)c - t->t.off), priv);\n            }\n        }\n    }\n\n    t->t.root = NULL;\n    t->t.size = 0;\n}\n\n#ifdef __cfg_test__"))
    N("neg-qsort-m-iterative", ["C11"], "quicksort recurses into the upper part before the lower part",
      (AR, "            cstl_raw_array_qsort(\n                arr, m + 1, size,\n                cmp, priv,\n                swap, tmp,\n                algo);\n            cstl_raw_array_qsort(\n                __cstl_raw_array_at(arr, size, m + 1), count - m - 1, size,\n                cmp, priv,\n                swap, tmp,\n                algo);",
       "            cstl_raw_array_qsort(\n                __cstl_raw_array_at(arr, size, m + 1), count - m - 1, size,\n                cmp, priv,\n                swap, tmp,\n                algo);\n            cstl_raw_array_qsort(\n                arr, m + 1, size,\n                cmp, priv,\n                swap, tmp,\n                algo);"))
except (OSError, ValueError):
    pass

# attributes on prototypes that promise the optimiser more than the functions keep (the library's object code is unchanged)
M("c11-sort-leaf-attribute", "C11", "cstl_raw_array_sort declared __attribute__((leaf)): the caller's statics written by the comparison callback may be cached across the call",
  ("include/cstl/array.h", "void cstl_raw_array_sort(\n    void * arr, size_t count, size_t size,", "__attribute__((nothrow, leaf)) void cstl_raw_array_sort(\n    void * arr, size_t count, size_t size,"))
M("c01-find-leaf-attribute", "C01", "cstl_bintree_find declared __attribute__((leaf))",
  ("include/cstl/bintree.h", "const void * cstl_bintree_find(\n    const struct cstl_bintree * bt, const void * e, const void ** p);", "__attribute__((nothrow, leaf)) const void * cstl_bintree_find(\n    const struct cstl_bintree * bt, const void * e, const void ** p);"))
M("c01-foreach-leaf-attribute", "C01", "cstl_bintree_foreach declared __attribute__((leaf))",
  ("include/cstl/bintree.h", "int cstl_bintree_foreach(const struct cstl_bintree * bt,", "__attribute__((nothrow, leaf)) int cstl_bintree_foreach(const struct cstl_bintree * bt,"))
M("c04-foreach-const-leaf-attribute", "C04", "cstl_hash_foreach_const declared __attribute__((leaf))",
  ("include/cstl/hash.h", "int cstl_hash_foreach_const(const struct cstl_hash * h,", "__attribute__((nothrow, leaf)) int cstl_hash_foreach_const(const struct cstl_hash * h,"))
M("c07-push-leaf-attribute", "C07", "cstl_heap_push declared __attribute__((leaf))",
  ("include/cstl/heap.h", "void cstl_heap_push(struct cstl_heap * h, void * e);", "__attribute__((nothrow, leaf)) void cstl_heap_push(struct cstl_heap * h, void * e);"))
M("c13-foreach-leaf-attribute", "C13", "cstl_slist_foreach declared __attribute__((leaf))",
  ("include/cstl/slist.h", "int cstl_slist_foreach(struct cstl_slist * sl,", "__attribute__((nothrow, leaf)) int cstl_slist_foreach(struct cstl_slist * sl,"))

# a static temporary in a swap function: invisible to one thread, invisible at basic-block granularity (the window is three
# inlined copies inside one block), visible when two threads that own their containers are interleaved instruction by instruction
M("c12-swap-static-tmp", "C12", "cstl_dlist_swap keeps its temporary in a static variable",
  ("src/dlist.c", "    struct cstl_dlist t;\n\n    cstl_swap(a, b, &t, sizeof(t));", "    static struct cstl_dlist t;\n\n    cstl_swap(a, b, &t, sizeof(t));"))
M("c01-swap-static-tmp", "C01", "cstl_bintree_swap keeps its temporary in a static variable",
  ("src/bintree.c", "    struct cstl_bintree t;\n    cstl_swap(a, b, &t, sizeof(t));", "    static struct cstl_bintree t;\n    cstl_swap(a, b, &t, sizeof(t));"), also=["C02", "C07"])
M("c09-swap-static-tmp", "C09", "cstl_vector_swap keeps its temporary in a static variable",
  ("src/vector.c", "    struct cstl_vector t;\n    cstl_swap(a, b, &t, sizeof(t));", "    static struct cstl_vector t;\n    cstl_swap(a, b, &t, sizeof(t));"))

# __attribute__((malloc)) on a function that hands the caller's own element back: an optimised caller may assume the result
# aliases nothing it can name (the library's object code is unchanged)
M("c01-erase-malloc-attribute", "C01", "cstl_bintree_erase declared __attribute__((malloc))",
  ("include/cstl/bintree.h", "void * cstl_bintree_erase(struct cstl_bintree * bt, const void * e);", "__attribute__((malloc)) void * cstl_bintree_erase(struct cstl_bintree * bt, const void * e);"))
M("c12-pop-front-malloc-attribute", "C12", "cstl_dlist_pop_front declared __attribute__((malloc))",
  ("include/cstl/dlist.h", "void * cstl_dlist_pop_front(struct cstl_dlist * l);", "__attribute__((malloc)) void * cstl_dlist_pop_front(struct cstl_dlist * l);"))
M("c13-pop-front-malloc-attribute", "C13", "cstl_slist_pop_front declared __attribute__((malloc))",
  ("include/cstl/slist.h", "void * cstl_slist_pop_front(struct cstl_slist * sl);", "__attribute__((malloc)) void * cstl_slist_pop_front(struct cstl_slist * sl);"))
