"""Sensitivity catalogue (see mutants.py). Each edit: (file, old, new); old must occur exactly once."""

MUTANTS = []
NEGATIVE = []


def M(id, prop, what, *edits, also=()):
    MUTANTS.append(dict(id=id, prop=prop, what=what, edits=list(edits), also=list(also)))


def N(id, props, what, *edits):
    NEGATIVE.append(dict(id=id, prop=props[0], also=list(props[1:]), what=what, edits=list(edits)))


BT = "src/bintree.c"
RB = "src/rbtree.c"
HP = "src/heap.c"
DL = "src/dlist.c"
SL = "src/slist.c"

# ----------------------------------------------------------------- C01
M("c01-succ-left-parent", "C01", "erase: left child of the erased node does not learn its new parent",
  (BT, "        if (bn->l != NULL) {\n            bn->l->p = y;\n        }", "        if (bn->l != NULL) {\n        }"))
M("c01-self-parent", "C01", "erase: drop the self-parent fix-up",
  (BT, "        if (bn->p == bn) {\n            bn->p = y;\n        }", ""), also=["C02"])
M("c01-find-dir", "C01", "find: swap the two descent directions",
  (BT, "        p = bn;\n        if (eq < 0) {\n            bn = bn->l;\n        } else {\n            bn = bn->r;\n        }",
   "        p = bn;\n        if (eq < 0) {\n            bn = bn->r;\n        } else {\n            bn = bn->l;\n        }"))
M("c01-foreach-skip-post", "C01", "foreach: skip POST when the far child is NULL",
  (BT, "    if (res == 0 && leaf == 0) {\n        /* last visit to the current node (if it's a non-leaf) */",
   "    if (res == 0 && leaf == 0 && rn != NULL) {\n        /* last visit to the current node (if it's a non-leaf) */"))
M("c01-clear-size", "C01", "clear: size not reset",
  (BT, "        bt->root  = NULL;\n        bt->size = 0;", "        bt->root  = NULL;"), also=["C15"])
M("c01-insert-le", "C01", "insert: equal keys go left and the comparison flips to <= 0 only below a hint",
  (BT, "    if (p != NULL) {\n        bp = __cstl_bintree_node(bt, p);\n        bc = &bp;\n    }",
   "    if (p != NULL) {\n        bp = __cstl_bintree_node(bt, p);\n        bc = (bp->r != NULL) ? &bp->r : &bp;\n    }"))
M("c01-erase-size", "C01", "erase of a two-child node forgets to decrement size",
  (BT, "    bt->size--;\n\n    return y;", "    if (y == bn) bt->size--;\n\n    return y;"))
# ----------------------------------------------------------------- C02
M("c02-insert-colours", "C02", "insert fix-up: swapped colour assignments before the rotation",
  (RB, "        *BN_COLOR(x->p) = CSTL_RBTREE_COLOR_B;\n        *BN_COLOR(x->p->p) = CSTL_RBTREE_COLOR_R;\n        __cstl_bintree_rotate(t, x->p->p, r, l);",
   "        *BN_COLOR(x->p) = CSTL_RBTREE_COLOR_R;\n        *BN_COLOR(x->p->p) = CSTL_RBTREE_COLOR_B;\n        __cstl_bintree_rotate(t, x->p->p, r, l);"))
M("c02-erase-colour-transfer", "C02", "erase: colour not transferred to the successor",
  (RB, "    *BN_COLOR(y) = n->c;\n", ""))
M("c02-far-nephew", "C02", "erase fix-up: far-nephew case colours the near nephew",
  (RB, "        *BN_COLOR(*r(w)) = CSTL_RBTREE_COLOR_B;\n        __cstl_bintree_rotate(t, x->p, l, r);",
   "        if (*l(w) != NULL) *BN_COLOR(*l(w)) = CSTL_RBTREE_COLOR_B;\n        __cstl_bintree_rotate(t, x->p, l, r);"))
M("c02-root-black", "C02", "insert: root not forced black",
  (RB, "    *BN_COLOR(t->t.root) = CSTL_RBTREE_COLOR_B;\n", ""))
M("c02-sibling-recolour", "C02", "erase fix-up: black sibling with black children is not made red",
  (RB, "        /* if w has two black children, then make it red */\n        *BN_COLOR(w) = CSTL_RBTREE_COLOR_R;",
   "        /* if w has two black children, then make it red */"))
# ----------------------------------------------------------------- C07
M("c07-sift-smaller", "C07", "pop: second comparison picks the right child against n instead of the current best",
  (HP, "                if (n->r != NULL\n                    && __cstl_bintree_cmp(&h->bt, n->r, c) > 0) {",
   "                if (n->r != NULL\n                    && __cstl_bintree_cmp(&h->bt, n->r, n) > 0) {"))
M("c07-push-side", "C07", "push attaches to the wrong side",
  (HP, "        if (h->bt.size % 2 == 0) {", "        if (h->bt.size % 2 != 0) {"))
M("c07-fls", "C07", "cstl_fls misses the top half-step",
  ("src/common.c", "        for (i = 0, b = (8 * sizeof(x)) / 2; b != 0; b /= 2) {", "        for (i = 0, b = (8 * sizeof(x)) / 2; b > 1; b /= 2) {"))
M("c07-promote-right-parent", "C07", "promote-child forgets p->r->p = c",
  (HP, "    if (p->r != NULL) {\n        p->r->p = c;\n    }", "    if (p->r != NULL) {\n    }"))
M("c07-push-ge", "C07", "push sifts up only while strictly greater than grandparent-level (stops one early on ties is fine) -> stops when equal to size threshold",
  (HP, "        while (n->p != NULL\n               && __cstl_bintree_cmp(&h->bt, n, n->p) > 0) {",
   "        while (n->p != NULL && n->p->p != NULL\n               && __cstl_bintree_cmp(&h->bt, n, n->p) > 0) {"))
# ----------------------------------------------------------------- C12
M("c12-swap-anchor", "C12", "swap: re-anchor only the forward neighbour",
  (DL, "            L->h.n->p = L->h.p->n = &L->h;      \\", "            L->h.n->p = &L->h;                  \\"))
M("c12-reverse-adjacent", "C12", "reverse: drop the adjacent-pair path",
  (DL, "    if (i->n == j) {\n", "    if (0 && i->n == j) {\n"))
M("c12-sort-tail", "C12", "sort: the remaining half is not appended when it is the second one",
  (DL, "        } else {\n            cstl_dlist_concat(l, &_l[1]);\n        }", "        } else if (_l[1].size > 1) {\n            cstl_dlist_concat(l, &_l[1]);\n        }"))
M("c12-concat-reinit", "C12", "concat does not re-initialise the source",
  (DL, "        /* leave the original list in a usable state */\n        cstl_dlist_init(s, s->off);", "        s->size = 0;"))
M("c12-find-rev", "C12", "find ignores the direction",
  (DL, "    if (cstl_dlist_foreach((struct cstl_dlist *)l,\n                           cstl_dlist_find_visit, &lfp, dir) > 0) {",
   "    if (cstl_dlist_foreach((struct cstl_dlist *)l,\n                           cstl_dlist_find_visit, &lfp, CSTL_DLIST_FOREACH_DIR_FWD) > 0) {"))
M("c12-foreach-next-after", "C12", "foreach reads the successor after the visit",
  (DL, "    for (c = *next(&l->h), n = *next(c);\n         res == 0 && c != &l->h;\n         c = n, n = *next(c)) {\n        res = visit(__cstl_dlist_element(l, c), p);\n    }",
   "    for (c = *next(&l->h);\n         res == 0 && c != &l->h;\n         c = n) {\n        res = visit(__cstl_dlist_element(l, c), p);\n        n = *next(c);\n    }"))
# ----------------------------------------------------------------- C13
M("c13-erase-tail", "C13", "erase_after does not move the tail",
  (SL, "    e->n = n->n;\n    if (sl->t == n) {\n        sl->t = e;\n    }", "    e->n = n->n;"))
M("c13-reverse-tail", "C13", "reverse leaves the tail at the old last",
  (SL, "        sl->t = c;\n        assert(sl->t->n == NULL);", ""))
M("c13-swap-empty", "C13", "swap: no tail fix for empty lists",
  (SL, "        if (SL->count == 0) {                   \\\n            SL->t = &SL->h;                     \\\n        }                                       \\", "        (void)SL;                               \\"))
M("c13-concat-tail", "C13", "concat keeps the old tail",
  (SL, "        dst->t->n = src->h.n;\n        dst->t = src->t;", "        dst->t->n = src->h.n;"))
M("c13-sort-tail", "C13", "sort: second half keeps a stale tail (tail of first half not cut)",
  (SL, "        _sl[1].t = sl->t;\n        t->n = NULL;", "        _sl[1].t = sl->t;\n        if (sl->count > 3) t->n = NULL;"))
M("c13-pop-empty", "C13", "pop_front emptiness check removed (the repaired defect)",
  (SL, "    if (sl->h.n == NULL) {\n        /* the list is empty */\n        return NULL;\n    }\n", ""))

# ------------------------------------------------------- negative controls
N("neg-bintree-equal-left", ["C01", "C02", "C08"], "bintree insert sends equal keys left",
  (BT, "        if (__cstl_bintree_cmp(bt, bn, bp) < 0) {\n            bc = &bp->l;", "        if (__cstl_bintree_cmp(bt, bn, bp) <= 0) {\n            bc = &bp->l;"))
N("neg-bintree-ignore-hint", ["C01", "C02", "C08"], "the insert hint is ignored",
  (BT, "    if (p != NULL) {\n        bp = __cstl_bintree_node(bt, p);\n        bc = &bp;\n    }", "    (void)p;"))
N("neg-dlist-sort-unstable", ["C12"], "list sort becomes unstable",
  (DL, "                    priv) <= 0) {\n                ol = &_l[0];", "                    priv) < 0) {\n                ol = &_l[0];"))
N("neg-slist-sort-unstable", ["C13"], "slist sort becomes unstable",
  (SL, "                    cmp_p) <= 0) {\n                l = &_sl[0];", "                    cmp_p) < 0) {\n                l = &_sl[0];"))
N("neg-heap-tie", ["C07"], "heap sift-down breaks ties toward the right child",
  (HP, "                if (n->r != NULL\n                    && __cstl_bintree_cmp(&h->bt, n->r, c) > 0) {",
   "                if (n->r != NULL && c != n\n                    && __cstl_bintree_cmp(&h->bt, n->r, c) >= 0) {"))
N("neg-tree-clear-mid", ["C15", "C01"], "tree clear calls back on the MID visit instead of POST",
  (BT, "    if (order == CSTL_BINTREE_VISIT_ORDER_POST\n        || order == CSTL_BINTREE_VISIT_ORDER_LEAF) {",
   "    if (order == CSTL_BINTREE_VISIT_ORDER_MID\n        || order == CSTL_BINTREE_VISIT_ORDER_LEAF) {"))
