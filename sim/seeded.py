#!/usr/bin/env python3
"""
Evaluate an independently written seeded change (a patch that breaks a property
while compiling and passing the pinned suite) against the checks.

  seeded.py verify <dir-with-patch.diff+demo> <prop> [--name NAME] [--also C03,C04] [--tier quick]
      1. scratch copy of /repo (under /var/tmp), patch applied
      2. pinned suite must pass with the patch
      3. the demonstration must fail with the patch and pass without it
      4. the property's check (and --also) is run against the patched copy
      5. on success the change is kept as /verif/seeded/<NAME>/ with meta.json
  seeded.py rerun [NAME ...]      re-run the recorded checks for kept changes, update meta.json
Nothing is ever applied to /repo itself.
"""
import sys, os, json, shutil, subprocess, time, argparse, glob

VERIF = os.path.dirname(os.path.dirname(os.path.abspath(__file__)))
SEEDED = os.path.join(VERIF, "seeded")


def sh(cmd, cwd=None, env=None, timeout=1800):
    p = subprocess.run(cmd, shell=isinstance(cmd, str), cwd=cwd, env=env, stdout=subprocess.PIPE,
                       stderr=subprocess.STDOUT, text=True, timeout=timeout)
    return p.returncode, p.stdout


def scratch(tag):
    d = f"/var/tmp/verif-seed-{os.getpid()}-{tag}"
    shutil.rmtree(d, ignore_errors=True)
    os.makedirs(d)
    for sub in ("src", "include", "Makefile"):
        s = os.path.join("/repo", sub)
        (shutil.copytree if os.path.isdir(s) else shutil.copy)(s, os.path.join(d, sub))
    os.makedirs(os.path.join(d, "build", "test"), exist_ok=True)
    os.makedirs(os.path.join(d, "build", "benches"), exist_ok=True)
    return d


def run_demo(src_dir, tree):
    """Build and run the demo against `tree` (build.sh convention: it lives in <root>/SEEDED/X and builds ./demo there).
    Returns (exit code, output tail); 99 = could not build."""
    letter = os.path.basename(os.path.normpath(src_dir))
    letter = letter.split("-")[-1] if "-" in letter else letter        # kept copies are named <prop>-<letter>
    work = os.path.join(tree, "SEEDED", letter)
    shutil.rmtree(os.path.join(tree, "SEEDED"), ignore_errors=True)
    shutil.copytree(src_dir, work, ignore=shutil.ignore_patterns("demo", "*.o", "meta.json"))
    if os.path.exists(os.path.join(work, "build.sh")):
        rc, out = sh(["sh", os.path.join(work, "build.sh")], cwd=tree, timeout=300)
    else:
        libs = [f for f in glob.glob(os.path.join(tree, "src", "*.c")) if os.path.basename(f) not in ("check.c", "_string.c")]
        rc, out = sh(["gcc", "-std=gnu11", "-O1", "-g", "-I", os.path.join(tree, "include"), "-D_POSIX_C_SOURCE=199309L",
                      os.path.join(work, "demo.c")] + libs + ["-lm", "-lpthread", "-o", os.path.join(work, "demo")])
    exe = os.path.join(work, "demo")
    if rc != 0 or not os.path.exists(exe):
        return 99, "demo build failed: " + out[-800:]
    rc, out = sh(f"timeout 300 {exe}", cwd=tree, timeout=400)
    return rc, out[-600:]


def run_check(tree, prop, tier, scale=None):
    env = dict(os.environ, VERIF_REPO=tree, VERIF_BUILD_ROOT=os.path.join(tree, "_build"))
    if scale:
        env["VERIF_RUNS_SCALE"] = str(scale)
    t0 = time.time()
    rc, out = sh([sys.executable, os.path.join(VERIF, "sim", "run.py"), "check", prop, "--tier", tier], cwd=VERIF, env=env, timeout=7200)
    keys = [l.strip() for l in out.split("\n") if l.strip().startswith("key=")]
    return dict(exit=rc, keys=keys[:4], wall_s=round(time.time() - t0, 1), tail=out[-400:] if rc == 2 else "")


def verify(src, prop, name, also, tier):
    patch = os.path.join(src, "patch.diff")
    assert os.path.exists(patch), "no patch.diff"
    meta = dict(name=name, property=prop, source="independent sub-agent given only the property text and a scratch worktree")
    d = scratch(name)
    try:
        rc, out = run_demo(src, d)
        meta["demo_without_change"] = dict(exit=rc, tail=out[-200:])
        rc2, out2 = sh(["patch", "-p1", "-i", patch], cwd=d)
        if rc2 != 0:
            meta["status"] = "patch-does-not-apply"; meta["detail"] = out2[-400:]
            return meta
        rc3, out3 = sh("make -s test 2>&1 | tail -3", cwd=d, timeout=900)
        meta["suite_with_change"] = out3.strip().split("\n")[-1]
        suite_ok = "Checks: 52, Failures: 0, Errors: 0" in out3
        rc4, out4 = run_demo(src, d)
        meta["demo_with_change"] = dict(exit=rc4, tail=out4[-300:])
        confirmed = suite_ok and rc == 0 and rc4 != 0 and rc4 != 99
        meta["confirmed"] = confirmed
        if not confirmed:
            meta["status"] = "not-confirmed"
            return meta
        meta["checks"] = {}
        meta["tier"] = tier
        meta["runs_scale"] = os.environ.get("VERIF_RUNS_SCALE")
        for p in [prop] + [a for a in also if a]:
            meta["checks"][p] = run_check(d, p, tier)
        meta["detected_by_own_check"] = meta["checks"][prop]["exit"] == 1
        meta["status"] = "kept"
        dst = os.path.join(SEEDED, name)
        shutil.rmtree(dst, ignore_errors=True)
        shutil.copytree(src, dst)
        notes = os.path.join(src, "notes.md")
        meta["needs_to_manifest"] = open(notes).read()[:1500] if os.path.exists(notes) else ""
        meta["ran"] = [f"make -s test (patched scratch copy): {meta['suite_with_change']}", "demo on clean copy: exit %d" % rc, "demo on patched copy: exit %d" % rc4] \
            + [f"VERIF_REPO=<patched copy> python3 sim/run.py check {p} --tier {tier}: exit {v['exit']}" for p, v in meta["checks"].items()]
        json.dump(meta, open(os.path.join(dst, "meta.json"), "w"), indent=1)
        return meta
    finally:
        shutil.rmtree(d, ignore_errors=True)


def rerun(names, tier):
    for dst in sorted(glob.glob(os.path.join(SEEDED, "*"))):
        name = os.path.basename(dst)
        if names and name not in names:
            continue
        mp = os.path.join(dst, "meta.json")
        if not os.path.exists(mp):
            continue
        meta = json.load(open(mp))
        if os.environ.get("SEEDED_SKIP_UPTO") and name <= os.environ["SEEDED_SKIP_UPTO"]:
            continue
        if os.environ.get("SEEDED_SKIP_THOROUGH") and meta.get("tier") == "thorough":
            print(name, "skipped (thorough tier only: verified on its own)"); sys.stdout.flush(); continue
        d = scratch(name)
        try:
            rc, out = sh(["patch", "-p1", "-i", os.path.join(dst, "patch.diff")], cwd=d)
            if rc != 0:
                print(name, "patch no longer applies"); continue
            for p in list(meta.get("checks", {meta["property"]: None})):
                meta.setdefault("checks", {})[p] = run_check(d, p, meta.get("tier", tier), meta.get("runs_scale"))
            meta["detected_by_own_check"] = meta["checks"][meta["property"]]["exit"] == 1
            json.dump(meta, open(mp, "w"), indent=1)
            print(name, {p: v["exit"] for p, v in meta["checks"].items()}, meta["checks"][meta["property"]]["keys"][:1]); sys.stdout.flush()
        finally:
            shutil.rmtree(d, ignore_errors=True)


def main():
    ap = argparse.ArgumentParser()
    ap.add_argument("cmd")
    ap.add_argument("args", nargs="*")
    ap.add_argument("--name")
    ap.add_argument("--also", default="")
    ap.add_argument("--tier", default="quick")
    a = ap.parse_args()
    os.makedirs(SEEDED, exist_ok=True)
    if a.cmd == "verify":
        src, prop = a.args[0], a.args[1]
        name = a.name or f"{prop}-{os.path.basename(os.path.normpath(src))}"
        m = verify(src, prop, name, a.also.split(","), a.tier)
        print(json.dumps({k: m[k] for k in m if k not in ("needs_to_manifest",)}, indent=1)[:3000])
        return 0
    if a.cmd == "rerun":
        rerun(a.args, a.tier); return 0
    print(__doc__); return 2


if __name__ == "__main__":
    sys.exit(main())
