/*
 * World "sort": cstl_raw_array_sort / search / find / reverse (C11).
 * The array and the scratch element are separate sim-heap blocks (their
 * canaries are the red zones); rand() is the simulator's (uniform or bounded
 * adversarial streaks); the compare and swap callbacks check every pointer
 * they are handed.
 */
#include "../core/sim.h"

#include "cstl/array.h"

#include <string.h>
#include <stdlib.h>

enum { Z_FILL = 1, Z_SORT, Z_SEARCH, Z_FIND, Z_REVERSE, Z_ADVSORT, Z_VSEARCH, Z_VREVERSE, Z_VSORT };

static const char *z_opname(int k)
{
    switch (k) {
    case Z_FILL: return "fill"; case Z_SORT: return "sort"; case Z_SEARCH: return "search"; case Z_FIND: return "find"; case Z_REVERSE: return "reverse"; case Z_ADVSORT: return "adversary-sort"; case Z_VSEARCH: return "search"; case Z_VREVERSE: return "reverse"; case Z_VSORT: return "sort";
    }
    return "?";
}

enum { CF_ES, CF_JUNK, CF_RAND, CF_MAXN };

#define MAXN 70100
#define MAXES 16400

static unsigned char *arr, *scratch, *ref;      /* ref: harness copy (real heap) */
static size_t es, n, kb;
static int sorted;
static uint64_t ncmp, cmpcap, nswap;
static const char *algoname = "";

#define VIOL(oracle, ...) do { char _k[160]; \
        snprintf(_k, sizeof _k, "C11/%s/%s/%s", oracle, z_opname(g_run.opkind), g_cur_ctx); \
        sim_violation(_k, __VA_ARGS__); } while (0)

static unsigned key_of(const unsigned char *e) { return kb == 2 ? (unsigned)e[0] | (unsigned)e[1] << 8 : e[0]; }

static int is_elem(const void *p)
{
    const unsigned char *q = p;
    return q >= arr && q < arr + n * es && (size_t)(q - arr) % es == 0;
}

/* re-entrancy: in a fraction of the runs the comparison callback itself binary-searches an independent array */
static unsigned char auxarr[32];
static int reentrant;
static int cmp_aux(const void *a, const void *b, void *priv)
{
    (void)priv;
    return (int)*(const unsigned char *)a - (int)*(const unsigned char *)b;
}

/* McIlroy's adversary ("A killer adversary for quicksort", 1999): the elements carry only an identity; their values are
 * decided lazily by the comparison function so that every pivot the library picks turns out to be (nearly) the smallest
 * element still undecided. The answers are consistent with one total order, fixed by the end of the sort, so this is a
 * legal comparison function - and it drives any quicksort to its deepest recursion / longest pending-work list. */
#define ADVMAX 4096
static int adv_active, adv_dir; static unsigned adv_val[ADVMAX], adv_gas, adv_nsolid, adv_cand;
static unsigned adv_id(const unsigned char *e) { return (unsigned)e[0] | (unsigned)e[1] << 8; }
static int adv_cmp(const unsigned char *a, const unsigned char *b)
{
    unsigned x = adv_id(a), y = adv_id(b);
    if (x >= adv_gas || y >= adv_gas) VIOL("torn_element", "the comparison function was handed an element whose bytes are not those of any element of the array");
    if (adv_val[x] == adv_gas && adv_val[y] == adv_gas) { if (x == adv_cand) adv_val[x] = adv_nsolid++; else adv_val[y] = adv_nsolid++; }
    if (adv_val[x] == adv_gas) adv_cand = x; else if (adv_val[y] == adv_gas) adv_cand = y;
    /* adv_dir -1: the mirrored adversary (every pivot turns out to be nearly the largest element undecided) */
    return adv_dir * ((adv_val[x] > adv_val[y]) - (adv_val[x] < adv_val[y]));
}

static int cmp_cb(const void *a, const void *b, void *priv)
{
    CB_ENTER();
    int r;
    if (adv_active) {
        if (++ncmp > cmpcap) VIOL("no_termination", "%s of %zu elements made more than %llu comparisons", z_opname(g_run.opkind), n, (unsigned long long)cmpcap);
        if ((!is_elem(a) && a != (const void *)scratch) || (!is_elem(b) && b != (const void *)scratch))
            VIOL("compare_foreign_pointer", "the comparison function was handed a pointer that is neither an element of the array nor the scratch element");
        r = sim_cmp(adv_cmp(a, b));
        CB_LEAVE();
        return r;
    }
    if (reentrant) {
        unsigned char want = (unsigned char)(key_of(a) % 32);
        ssize_t at;
        g_inlib = 1; at = cstl_raw_array_search(auxarr, 32, 1, &want, cmp_aux, NULL); g_inlib = 0;
        if (at != (ssize_t)want) VIOL("reentrant_search", "a binary search on an independent array, made from inside the comparison callback, returned %zd instead of %u", at, want);
    }
    (void)priv;
    if (++ncmp > cmpcap) VIOL("no_termination", "%s of %zu elements made more than %llu comparisons", z_opname(g_run.opkind), n, (unsigned long long)cmpcap);
    /* the probe of search/find is a harness object; everything else must be an element of the array */
    if (!is_elem(a) && a != (const void *)scratch && priv != a)
        VIOL("compare_foreign_pointer", "the comparison function was handed a pointer that is neither an element of the array nor the scratch element");
    if (!is_elem(b) && b != (const void *)scratch && priv != b)
        VIOL("compare_foreign_pointer", "the comparison function was handed a pointer that is neither an element of the array nor the scratch element");
    {
        unsigned x = key_of(a), y = key_of(b);
        r = sim_cmp((x > y) - (x < y));
    }
    CB_LEAVE();
    return r;
}

/* the documented reason for the swap callback is that the library cannot know what is inside an element and so must
 * leave every move to the caller: with a caller's swap function, where each element ends up must be exactly what the
 * sequence of swap calls says. `where` is that shadow arrangement (indices into the array as it was before the call). */
static uint32_t *where; static size_t where_cap; static void *passed_tmp; static int where_on;
static void swap_cb(void *a, void *b, void *t, size_t len)
{
    CB_ENTER();
    unsigned char own[MAXES];
    nswap++;
    if (!is_elem(a) || !is_elem(b)) VIOL("swap_foreign_pointer", "the swap function was handed a pointer that is not an element of the array");
    if (t != passed_tmp) VIOL("swap_foreign_scratch", "the swap function was handed scratch space other than the caller's scratch element");
    if (len != es) VIOL("swap_len", "the swap function was told %zu bytes for %zu-byte elements", len, es);
    /* this swap function ignores the scratch space it is offered (the callee is free to) */
    memcpy(own, a, len); memcpy(a, b, len); memcpy(b, own, len);
    if (where_on) {
        size_t i = (size_t)((unsigned char *)a - arr) / es, j = (size_t)((unsigned char *)b - arr) / es;
        uint32_t w = where[i]; where[i] = where[j]; where[j] = w;
    }
    CB_LEAVE();
}

static int cmp_bytes(const void *a, const void *b) { return memcmp(a, b, es); }

/* where an array starts relative to 16-byte alignment is part of the plan, not of the process's allocation history: the
 * offset is a multiple of the largest power of two that divides the element size (so 3- and 5-byte elements start at any
 * byte, 4-byte ones at multiples of 4, ...) */
static unsigned char *arr_raw, *scratch_raw; static size_t moff_arr, moff_scratch;
static size_t align_unit(size_t e) { size_t u = 1; while (u < 8 && e % (u * 2) == 0) u *= 2; return u; }
static unsigned char *alloc_at(size_t bytes, size_t off, unsigned char **raw) { *raw = simheap_alloc(bytes + 16, TAG_EXT); return *raw + off; }

/* "virtual" arrays: search and reverse only hand element addresses to the callbacks, so an array of 2^30 ... 2^40
 * elements needs no memory at all: element i "holds" the value i, the comparison function derives it from the address,
 * and the swap function records which pair it was asked to exchange. Nothing ever dereferences an element. */
static uintptr_t vbase; static uint64_t vcount, vprobe_val, vswaps, vbad_at; static int vbad;
static int vcmp(const void *a, const void *b, void *priv)
{
    uintptr_t q = (uintptr_t)b; uint64_t idx;
    if (a != priv || a != (const void *)&vprobe_val) { if (!vbad) { vbad = 1; vbad_at = ncmp; } return 0; }
    if (++ncmp > 200) { if (!vbad) { vbad = 2; vbad_at = ncmp; } return 0; }                 /* a binary search makes <= 64 + slack probes */
    if (q < vbase || q >= vbase + vcount * es || (q - vbase) % es) { if (!vbad) { vbad = 3; vbad_at = (uint64_t)q; } return 0; }
    idx = (q - vbase) / es;
    return sim_cmp((vprobe_val > idx) - (vprobe_val < idx));
}
static void vswap(void *a, void *b, void *t, size_t len)
{
    uintptr_t x = (uintptr_t)a, y = (uintptr_t)b;
    /* the k-th exchange must be (element k, element count-1-k) */
    if (vbad) return;
    if (len != es || t != (void *)scratch) { vbad = 4; vbad_at = vswaps; return; }
    if (x != vbase + vswaps * es || y != vbase + (vcount - 1 - vswaps) * es) {
        if (!(y == vbase + vswaps * es && x == vbase + (vcount - 1 - vswaps) * es)) { vbad = 5; vbad_at = vswaps; return; }
    }
    vswaps++;
}

/* the first few thousand steps of a sort over a virtual array of 2^31 ... 2^40 elements: the values live in a sparse map (an
 * element that was never exchanged holds a function of its index), so the comparison function is consistent and a correct
 * sort never leaves the array; every address handed to the callbacks must be an element or the scratch element. After
 * VS_LIMIT callbacks the run leaves the sort through the abort trap. */
#define VS_LIMIT 4000
#define VS_TAB 16384
static uint64_t vs_key[VS_TAB], vs_val[VS_TAB]; static unsigned char vs_used[VS_TAB];
static uint64_t vs_scratch_val; static unsigned vs_calls, vs_pat; static int vs_bailed;
static uint64_t vs_init(uint64_t i) { uint64_t x = i; return vs_pat == 0 ? i : vs_pat == 1 ? vcount - 1 - i : splitmix64(&x) >> 8; }
static unsigned vs_slot(uint64_t i) { unsigned h = (unsigned)((i * 0x9e3779b97f4a7c15ull) >> 50) % VS_TAB; while (vs_used[h] && vs_key[h] != i) h = (h + 1) % VS_TAB; return h; }
static uint64_t vs_get(uint64_t i) { unsigned h = vs_slot(i); return vs_used[h] ? vs_val[h] : vs_init(i); }
static void vs_put(uint64_t i, uint64_t v) { unsigned h = vs_slot(i); vs_used[h] = 1; vs_key[h] = i; vs_val[h] = v; }
static int vs_index(const void *p, uint64_t *idx)
{
    uintptr_t q = (uintptr_t)p;
    if (p == (const void *)scratch) return 2;
    if (q < vbase || q >= vbase + vcount * es || (q - vbase) % es) { if (!vbad) { vbad = 3; vbad_at = (uint64_t)q; } return 0; }
    *idx = (q - vbase) / es;
    return 1;
}
static void vs_step(void) { if (++vs_calls > VS_LIMIT && !vs_bailed) { vs_bailed = 1; abort(); } }
static int vsort_cmp(const void *a, const void *b, void *priv)
{
    uint64_t i = 0, j = 0, x, y; int ka = vs_index(a, &i), kb = vs_index(b, &j);
    (void)priv;
    if (!ka || !kb) { vs_bailed = 1; abort(); }
    x = ka == 2 ? vs_scratch_val : vs_get(i); y = kb == 2 ? vs_scratch_val : vs_get(j);
    vs_step();
    return (x > y) - (x < y);
}
static void vsort_swap(void *a, void *b, void *t, size_t len)
{
    uint64_t i = 0, j = 0, x, y; int ka = vs_index(a, &i), kb = vs_index(b, &j);
    if (!ka || !kb || len != es || (t != NULL && t != (void *)scratch)) { if (!vbad) { vbad = 5; vbad_at = vs_calls; } vs_bailed = 1; abort(); }
    x = ka == 2 ? vs_scratch_val : vs_get(i); y = kb == 2 ? vs_scratch_val : vs_get(j);
    if (ka == 2) vs_scratch_val = y; else vs_put(i, y);
    if (kb == 2) vs_scratch_val = x; else vs_put(j, x);
    vs_step();
}

static void check_same_multiset(const char *what)
{
    static unsigned char *x, *y; static size_t cap;
    if (cap < n * es + 1) { cap = n * es + 1; x = realloc(x, cap); y = realloc(y, cap); }
    memcpy(x, ref, n * es); memcpy(y, arr, n * es);
    qsort(x, n, es, cmp_bytes); qsort(y, n, es, cmp_bytes);
    if (memcmp(x, y, n * es) != 0) VIOL("not_a_permutation", "%s (%s, %zu elements of %zu bytes): the elements afterwards are not byte-for-byte the elements before (lost, duplicated or torn)", what, algoname, n, es);
}

/* what an optimised caller may assume about the calls (attributes on the prototypes): ncmp is a file-scope static written by
 * the comparison callback; these small functions without setjmp read it right after the library call returns */
static uint64_t sort_plain(void *a, size_t cnt, size_t sz, cstl_swap_func_t *sw, void *tmp, cstl_sort_algorithm_t al)
{ ncmp = 0; g_inlib = 1; cstl_raw_array_sort(a, cnt, sz, cmp_cb, NULL, sw, tmp, al); g_inlib = 0; return ncmp; }
static uint64_t search_plain(int find, const void *a, size_t cnt, size_t sz, const void *pr, ssize_t *res)
{ ncmp = 0; g_inlib = 1; *res = find ? cstl_raw_array_find(a, cnt, sz, pr, cmp_cb, (void *)pr) : cstl_raw_array_search(a, cnt, sz, pr, cmp_cb, (void *)pr); g_inlib = 0; return ncmp; }

static void z_exec(const plan_t *p)
{
    struct simheap_cfg hc = { RP_MOVE, 0, (unsigned char)p->cfg[CF_JUNK] };
    int k; size_t i;
    static unsigned char probe[MAXES];

    simheap_reset(&hc, p->cfg[CF_JUNK]);
    simrand_reset(p->cfg[CF_JUNK] * 131 + p->cfg[CF_RAND], (int)(p->cfg[CF_RAND] & 1) ? RS_STICKY : RS_UNIFORM);
    es = (size_t)p->cfg[CF_ES]; if (es < 1) es = 1; if (es > MAXES) es = MAXES;
    kb = es >= 4 ? 2 : 1;
    n = 0; sorted = 0; arr = NULL; adv_active = 0; vcount = 0;
    reentrant = (int)(p->cfg[CF_RAND] >> 1 & 7) == 0;
    { int q; for (q = 0; q < 32; q++) auxarr[q] = (unsigned char)q; }
    if (reentrant) PROBE("comparator_reenters_library");
    moff_arr = (size_t)(p->cfg[CF_RAND] >> 4 & 15) / align_unit(es) * align_unit(es) % 16;
    moff_scratch = (size_t)(p->cfg[CF_RAND] >> 8 & 15) / align_unit(es) * align_unit(es) % 16;
    if (moff_arr % 8) PROBE("array_not_8_byte_aligned");
    scratch = alloc_at(es, moff_scratch, &scratch_raw); arr_raw = NULL;
    ref = NULL;
    g_cur_prop = "C11";

    for (k = 0; k < p->nops; k++) {
        const op_t *o = &p->ops[k];
        static ssize_t sres;
        g_run.step = k; g_run.opkind = o->kind; g_run.steps++;
        g_cur_ctx = "plain"; passed_tmp = scratch; where_on = 0;
        ncmp = 0; nswap = 0;

        switch (o->kind) {
        case Z_FILL: {
            size_t maxn = (size_t)p->cfg[CF_MAXN], alpha;
            unsigned pattern = (unsigned)(o->a[0] % 8);
            prng_t r;
            if (maxn < 1) maxn = 1; if (maxn > MAXN) maxn = MAXN;
            n = (size_t)(o->a[1] % (maxn + 1));
            alpha = 1 + (size_t)(o->a[2] % (kb == 2 ? 3000 : 200));
            if (o->a[2] % 5 == 0) alpha = 1 + (size_t)(o->a[2] % 3);
            if (arr) simheap_free(arr_raw);
            arr = alloc_at(n * es ? n * es : 1, moff_arr, &arr_raw);
            free(ref); ref = malloc(n * es + 1);
            prng_seed(&r, o->a[3]);
            for (i = 0; i < n; i++) {
                unsigned key;
                unsigned char *e = arr + i * es; size_t b;
                switch (pattern) {
                default: case 0: case 1: key = (unsigned)prng_below(&r, alpha); break;
                case 2: key = (unsigned)(i * alpha / (n ? n : 1)); break;                                  /* sorted */
                case 3: key = (unsigned)((n - 1 - i) * alpha / (n ? n : 1)); break;                        /* reversed */
                case 4: key = (unsigned)(alpha - 1); break;                                               /* constant */
                case 5: key = (unsigned)prng_below(&r, 2); break;                                         /* two-valued */
                case 6: key = (unsigned)((i < n / 2 ? i : n - 1 - i) % alpha); break;                     /* organ pipe */
                case 7: key = (unsigned)(i % (alpha < 7 ? alpha : 7)); break;                             /* saw tooth */
                }
                e[0] = (unsigned char)key; if (kb == 2) e[1] = (unsigned char)(key >> 8);
                for (b = kb; b < es; b++) e[b] = (unsigned char)((i >> (8 * ((b - kb) % 3))) ^ (b * 29));   /* identity of the element */
            }
            memcpy(ref, arr, n * es);
            sorted = n <= 1;
            if (n >= 256) PROBE("large_array"); if (alpha <= 3) PROBE("few_distinct_values"); if (n > 65536) PROBE("array_above_2^16");
            EVT("fill", pattern, n, alpha);
            break;
        }
        case Z_SORT: {
            static const int algos[] = { CSTL_SORT_ALGORITHM_QUICK, CSTL_SORT_ALGORITHM_QUICK_R, CSTL_SORT_ALGORITHM_QUICK_M, CSTL_SORT_ALGORITHM_HEAP, 4, 7, -1, 100 };
            static const char *names[] = { "quick", "quick-random", "quick-median3", "heap", "selector-4", "selector-7", "selector--1", "selector-100" };
            int ai = (int)(o->a[0] % 8), custom_swap = (int)(o->a[1] & 1);
            if (arr == NULL) { EVT("skip", 0, 0, 0); break; }
            /* first-element pivot on (nearly) sorted input is quadratic by design: not on very large arrays */
            if (n > 8000 && ai == 0) {
                size_t up = 0, down = 0;
                for (i = 1; i < n; i++) { unsigned x = key_of(arr + (i - 1) * es), y = key_of(arr + i * es); up += x <= y; down += x >= y; }
                if (sorted || up > n - n / 16 || down > n - n / 16) ai = 3;
            }
            algoname = names[ai]; g_cur_ctx = algoname;
            cmpcap = 64 * (uint64_t)(n + 16) * (uint64_t)(n + 16);
            memcpy(ref, arr, n * es);
            passed_tmp = scratch;
            if (custom_swap) {
                if (where_cap < n + 1) { where_cap = n + 1; where = realloc(where, where_cap * sizeof where[0]); }
                for (i = 0; i < n; i++) where[i] = (uint32_t)i;
                where_on = 1;
                if (o->a[1] & 2) { passed_tmp = NULL; PROBE("custom_swap_without_scratch"); }       /* legal: this swap function needs none */
            }
            if (k % 4 == 1) {
                uint64_t seen = sort_plain(arr, n, es, custom_swap ? swap_cb : cstl_swap, passed_tmp, (cstl_sort_algorithm_t)algos[ai]);
                if (n >= 2 && seen < n - 1) VIOL("callback_effects_invisible", "sort of %zu elements: the caller's own counter, written by the comparison function and read right after the call in an optimised function, says %llu", n, (unsigned long long)seen);
                PROBE("callback_counted_in_plain_function");
            } else
            TRY(cstl_raw_array_sort(arr, n, es, cmp_cb, NULL, custom_swap ? swap_cb : cstl_swap, passed_tmp, (cstl_sort_algorithm_t)algos[ai]));
            if (g_aborted) VIOL(g_aborted == 2 ? "assert" : "abort", "sort aborted");
            where_on = 0;
            check_same_multiset("sort");
            if (custom_swap)
                for (i = 0; i < n; i++)
                    if (memcmp(arr + i * es, ref + (size_t)where[i] * es, es) != 0)
                        VIOL("moved_without_swap", "sort (%s, %zu elements of %zu bytes) with a caller's swap function: position %zu does not hold the element the sequence of swap calls put there (an element was moved behind the caller's back)", algoname, n, es, i);
            for (i = 1; i < n; i++)
                if (key_of(arr + (i - 1) * es) > key_of(arr + i * es))
                    VIOL("not_sorted", "sort (%s, %zu elements of %zu bytes): element %zu compares greater than element %zu", algoname, n, es, i - 1, i);
            simheap_audit("C11", "sort");
            sorted = 1;
            if (ai >= 4) PROBE("selector_out_of_range"); if (ai == 1) PROBE_N("rand_calls", g_rand_calls);
            if (custom_swap) PROBE("custom_swap_checked");
            state_note(fnv1a(fnv1a(0x11, (uint64_t)ai), n < 10 ? n : 10 + (n > 64)));
            EVT("sort", ai, n, ncmp);
            break;
        }
        case Z_ADVSORT: {
            static const int algos[] = { CSTL_SORT_ALGORITHM_QUICK_M, CSTL_SORT_ALGORITHM_QUICK, CSTL_SORT_ALGORITHM_QUICK_R, CSTL_SORT_ALGORITHM_HEAP, 9 };
            static const char *names[] = { "quick-median3", "quick", "quick-random", "heap", "selector-9" };
            static const unsigned ns[] = { 40, 200, 700, 1200, 2000, 3000 };
            int ai = (int)(o->a[0] % 5), custom_swap = (int)(o->a[1] & 1);
            size_t b;
            if (es < 2) { EVT("skip", 0, 0, 0); break; }
            n = ns[o->a[2] % 6];
            if (arr) simheap_free(arr_raw);
            arr = alloc_at(n * es, moff_arr, &arr_raw);
            free(ref); ref = malloc(n * es + 1);
            for (i = 0; i < n; i++) {
                unsigned char *e = arr + i * es;
                e[0] = (unsigned char)i; e[1] = (unsigned char)(i >> 8);
                for (b = 2; b < es; b++) e[b] = (unsigned char)((i * 7) ^ (b * 29));
                adv_val[i] = (unsigned)n;
            }
            memcpy(ref, arr, n * es);
            adv_gas = (unsigned)n; adv_nsolid = 0; adv_cand = 0; adv_active = 1; adv_dir = (o->a[1] & 2) ? -1 : 1;
            algoname = names[ai]; g_cur_ctx = "adversary";
            cmpcap = 64 * (uint64_t)(n + 16) * (uint64_t)(n + 16);
            TRY(cstl_raw_array_sort(arr, n, es, cmp_cb, NULL, custom_swap ? swap_cb : cstl_swap, scratch, (cstl_sort_algorithm_t)algos[ai]));
            adv_active = 0;
            if (g_aborted) VIOL(g_aborted == 2 ? "assert" : "abort", "sort aborted");
            check_same_multiset("sort against the adversary");
            /* values never decided were never compared with each other: any order among them is correct */
            for (i = 0; i < n; i++) { unsigned id = adv_id(arr + i * es); if (id < n && adv_val[id] == adv_gas) adv_val[id] = adv_nsolid++; }
            for (i = 1; i < n; i++)
                if (adv_dir * (int)(adv_val[adv_id(arr + (i - 1) * es)] > adv_val[adv_id(arr + i * es)]) > 0
                    || (adv_dir < 0 && adv_val[adv_id(arr + (i - 1) * es)] < adv_val[adv_id(arr + i * es)]))
                    VIOL("not_sorted", "sort (%s, %zu elements of %zu bytes) against McIlroy's adversary: element %zu compares greater than element %zu", algoname, n, es, i - 1, i);
            simheap_audit("C11", "sort");
            sorted = 0;
            PROBE("adversary_sort"); if (adv_dir < 0) PROBE("adversary_mirrored");
            if (ncmp > (uint64_t)n * n / 8) PROBE("adversary_forced_quadratic");
            EVT("advsort", ai, n, ncmp);
            break;
        }
        case Z_VSEARCH: {
            static const uint64_t counts[] = { ((uint64_t)1 << 30) + 3, ((uint64_t)1 << 31) - 1, (uint64_t)1 << 31, ((uint64_t)1 << 31) + 1, ((uint64_t)1 << 32) + 5,
                                               ((uint64_t)1 << 33) + 1, (uint64_t)1 << 40, 3000000000ull, 1500000000ull, ((uint64_t)1 << 62) / 24,
                                               ((uint64_t)1 << 62) + 1, (uint64_t)3 << 61, ((uint64_t)1 << 63) - 1, ((uint64_t)1 << 63) - 2 };
            uint64_t target; int present;
            vcount = counts[o->a[0] % 14]; vbase = (uintptr_t)0x10000000u * 16;       /* never dereferenced */
            /* the array must fit into the address space behind its base, and its indices into the ssize_t that search returns */
            if (vcount > (UINT64_MAX - vbase - 4096) / es) vcount = (UINT64_MAX - vbase - 4096) / es;
            if (vcount > ((uint64_t)1 << 62)) PROBE("virtual_search_above_2^62");
            switch (o->a[1] % 6) {
            case 0: target = 0; break; case 1: target = vcount - 1; break; case 2: target = vcount / 2 + 1; break;
            case 3: target = vcount - 1 - o->a[2] % 1000; break; case 4: target = vcount + o->a[2] % 1000; break;     /* absent: above every element */
            default: target = o->a[2] % vcount; break;
            }
            present = target < vcount;
            vprobe_val = target; vbad = 0; ncmp = 0;
            g_cur_ctx = vcount > ((uint64_t)1 << 31) ? "virtual-above-2^31" : "virtual-above-2^30";
            TRY(sres = cstl_raw_array_search((const void *)vbase, (size_t)vcount, es, &vprobe_val, vcmp, &vprobe_val));
            if (g_aborted) VIOL("abort", "search aborted");
            if (vbad == 3) VIOL("compare_foreign_pointer", "binary search over %llu elements of %zu bytes handed the comparison function the address %#llx, which is not an element", (unsigned long long)vcount, es, (unsigned long long)vbad_at);
            if (vbad == 2) VIOL("no_termination", "binary search over %llu elements made more than 200 comparisons", (unsigned long long)vcount);
            if (vbad) VIOL("compare_arguments", "binary search did not hand the comparison function the probe and the caller's private pointer");
            if (present && (uint64_t)sres != target) VIOL("present", "binary search over %llu elements returned %zd for the value held by element %llu", (unsigned long long)vcount, sres, (unsigned long long)target);
            if (!present && sres != -1) VIOL("absent", "binary search over %llu elements returned %zd for a value that is not in the array", (unsigned long long)vcount, sres);
            PROBE("virtual_search"); if (vcount > ((uint64_t)1 << 31)) PROBE("virtual_search_above_2^31");
            EVT("vsearch", vcount, target, (uint64_t)sres);
            break;
        }
        case Z_VSORT: {
            static const uint64_t counts[] = { ((uint64_t)1 << 32) + 6, ((uint64_t)1 << 33) + 2, ((uint64_t)1 << 31) + 5, ((uint64_t)3 << 31) + 1, ((uint64_t)1 << 32) - 1, ((uint64_t)1 << 40) + 3, ((uint64_t)1 << 31) - 1, (uint64_t)1 << 32 };
            static const int valgos[] = { CSTL_SORT_ALGORITHM_HEAP, CSTL_SORT_ALGORITHM_QUICK, CSTL_SORT_ALGORITHM_QUICK_R, CSTL_SORT_ALGORITHM_QUICK_M, 9 };
            static const char *vnames[] = { "heap", "quick", "quick-random", "quick-median3", "selector-9" };
            int ai = (int)(o->a[1] % 5);
            vcount = counts[o->a[0] % 8]; vbase = (uintptr_t)0x10000000u * 16;
            if (vcount > (UINT64_MAX - vbase - 4096) / es) vcount = (UINT64_MAX - vbase - 4096) / es;
            memset(vs_used, 0, sizeof vs_used); vs_calls = 0; vs_bailed = 0; vs_scratch_val = 0; vs_pat = (unsigned)(o->a[2] % 3); vbad = 0;
            algoname = vnames[ai]; g_cur_ctx = "virtual-sort-first-steps";
            TRY(cstl_raw_array_sort((void *)vbase, (size_t)vcount, es, vsort_cmp, NULL, vsort_swap, scratch, (cstl_sort_algorithm_t)valgos[ai]));
            if (vbad == 3) VIOL("compare_foreign_pointer", "%s sort of %llu elements of %zu bytes handed a callback the address %#llx, which is neither an element nor the scratch element (step %u)", algoname, (unsigned long long)vcount, es, (unsigned long long)vbad_at, vs_calls);
            if (vbad) VIOL("swap_arguments", "%s sort of %llu elements: the exchange callback got a wrong length or scratch pointer (step %u)", algoname, (unsigned long long)vcount, vs_calls);
            if (g_aborted && !vs_bailed) VIOL(g_aborted == 2 ? "assert" : "abort", "%s sort of %llu virtual elements aborted", algoname, (unsigned long long)vcount);
            if (!vs_bailed) VIOL("sort_too_short", "%s sort of %llu elements returned after %u callbacks", algoname, (unsigned long long)vcount, vs_calls);
            PROBE("virtual_sort_first_steps");
            EVT("vsort", vcount, ai, vs_calls);
            break;
        }
        case Z_VREVERSE: {
            /* costs count/2 callback invocations: sizes just above 2^31 only, and rarely */
            static const uint64_t counts[] = { ((uint64_t)1 << 31) + 1, ((uint64_t)1 << 31) + 2, ((uint64_t)1 << 31) + 5, 40000000 };
            vcount = counts[o->a[0] % 4]; vbase = (uintptr_t)0x10000000u * 16; vswaps = 0; vbad = 0;
            g_cur_ctx = vcount > ((uint64_t)1 << 31) ? "virtual-above-2^31" : "virtual-large";
            TRY(cstl_raw_array_reverse((void *)vbase, (size_t)vcount, es, vswap, scratch));
            if (g_aborted) VIOL("abort", "reverse aborted");
            if (vbad == 4) VIOL("swap_len", "reverse handed the swap function a wrong length or scratch element");
            if (vbad) VIOL("not_mirrored", "reverse of %llu elements: exchange number %llu is not (element %llu, element %llu)", (unsigned long long)vcount, (unsigned long long)vbad_at, (unsigned long long)vbad_at, (unsigned long long)(vcount - 1 - vbad_at));
            if (vswaps != vcount / 2) VIOL("not_mirrored", "reverse of %llu elements made %llu exchanges, a mirror image needs %llu", (unsigned long long)vcount, (unsigned long long)vswaps, (unsigned long long)(vcount / 2));
            PROBE("virtual_reverse");
            EVT("vreverse", vcount, vswaps, 0);
            break;
        }
        case Z_SEARCH: case Z_FIND: {
            unsigned key; int exists = 0; size_t first = 0;
            if (arr == NULL) { EVT("skip", 0, 0, 0); break; }
            if (o->kind == Z_SEARCH && !sorted) { EVT("skip", 0, 0, 0); break; }      /* binary search is defined on sorted arrays */
            key = (o->a[1] & 1) && n ? key_of(arr + (size_t)(o->a[0] % n) * es) : (unsigned)(o->a[0] % (kb == 2 ? 3100 : 210));
            memset(probe, 0x77, sizeof probe);
            probe[0] = (unsigned char)key; if (kb == 2) probe[1] = (unsigned char)(key >> 8);
            for (i = 0; i < n; i++) if (key_of(arr + i * es) == key) { exists = 1; first = i; break; }
            cmpcap = 4 * (uint64_t)(n + 16);
            g_cur_ctx = exists ? "present" : "absent";
            if ((o->a[1] & 2) && exists && n > 0) {
                /* the probe is itself an element of the array ("where is the first one like this one?"), not necessarily the first */
                size_t at = (size_t)(o->a[0] >> 3) % n, guard = 0;
                while (key_of(arr + at * es) != key && guard++ < n) at = (at + 1) % n;
                PROBE("probe_is_an_element_of_the_array"); if (at != first) PROBE("probe_is_a_later_duplicate");
                if (o->kind == Z_SEARCH) TRY(sres = cstl_raw_array_search(arr, n, es, arr + at * es, cmp_cb, NULL));
                else TRY(sres = cstl_raw_array_find(arr, n, es, arr + at * es, cmp_cb, NULL));
            } else
            if (k % 4 == 1) {
                uint64_t seen = search_plain(o->kind != Z_SEARCH, arr, n, es, probe, &sres);
                if (n >= 1 && seen < 1) VIOL("callback_effects_invisible", "%s among %zu elements: the caller's own counter, written by the comparison function and read right after the call in an optimised function, says %llu", z_opname(o->kind), n, (unsigned long long)seen);
            } else
            if (o->kind == Z_SEARCH) TRY(sres = cstl_raw_array_search(arr, n, es, probe, cmp_cb, probe));
            else TRY(sres = cstl_raw_array_find(arr, n, es, probe, cmp_cb, probe));
            if (g_aborted) VIOL("abort", "%s aborted", z_opname(o->kind));
            if (!exists) { if (sres != -1) VIOL("absent", "%s returned %zd for a value that is not in the array", z_opname(o->kind), sres); PROBE("probe_absent"); }
            else {
                PROBE("probe_present");
                if (sres < 0 || (size_t)sres >= n) VIOL("present", "%s returned %zd although an equal element exists (array of %zu)", z_opname(o->kind), sres, n);
                if (key_of(arr + (size_t)sres * es) != key) VIOL("wrong_index", "%s returned index %zd whose element does not compare equal", z_opname(o->kind), sres);
                if (o->kind == Z_FIND && (size_t)sres != first) VIOL("not_first", "find returned index %zd, the first equal element is at %zu", sres, first);
            }
            if (n == 1) PROBE("single_element_probe");
            EVT(z_opname(o->kind), key, (uint64_t)sres, n);
            break;
        }
        case Z_REVERSE:
            if (arr == NULL) { EVT("skip", 0, 0, 0); break; }
            memcpy(ref, arr, n * es);
            TRY(cstl_raw_array_reverse(arr, n, es, (o->a[0] & 1) ? swap_cb : cstl_swap, scratch));
            if (g_aborted) VIOL("abort", "reverse aborted");
            for (i = 0; i < n; i++)
                if (memcmp(arr + i * es, ref + (n - 1 - i) * es, es) != 0) VIOL("not_mirrored", "reverse of %zu elements: position %zu does not hold the element from position %zu", n, i, n - 1 - i);
            simheap_audit("C11", "reverse");
            sorted = n <= 1;
            PROBE("reverse");
            EVT("reverse", n, 0, 0);
            break;
        default: EVT("skip", 0, 0, 0);
        }
    }
    free(ref); ref = NULL; adv_active = 0;
    simheap_audit("C11", "sort-end");
    g_run.nontrivial = n >= 2 || vcount > 0;
}

static void z_gen(prng_t *r, int mode, plan_t *p)
{
    static const int sizes[] = { 1, 2, 4, 8, 1, 2, 4, 8, 3, 5, 16, 24, 7, 12, 255, 256, 257, 300, 512, 1, 2, 4, 8, 3, 16, 1000, 1024, 1025, 1500, 2048, 2049, 4096, 4097, 5000, 8191, 8192, 8193, 12288, 16384, 1, 2, 4, 8, 3, 16 };
    int huge = prng_chance(r, 1, 400);
    int large = !huge && prng_chance(r, 1, 20), small = !large && !huge && prng_chance(r, 1, 4);
    int rounds = huge ? 1 : 1 + (int)prng_below(r, 3), q, j;
    p->cfg[CF_ES] = (uint64_t)sizes[prng_below(r, sizeof sizes / sizeof sizes[0])];
    p->cfg[CF_JUNK] = 1 + prng_below(r, 254);
    p->cfg[CF_RAND] = prng_below(r, 4096);
    p->cfg[CF_MAXN] = huge ? 70000 : large ? 4096 : small ? 8 : 64;
    if (p->cfg[CF_ES] > 64) { if (huge) p->cfg[CF_ES] = 8; else if (large) p->cfg[CF_MAXN] = 300; PROBE("element_size_256_or_more"); }
    for (q = 0; q < rounds; q++) {
        op_t *o = plan_add(p, Z_FILL);
        int nf = (int)prng_below(r, 4), ns = 1 + (int)prng_below(r, 2);
        o->a[0] = huge ? prng_below(r, 2) : prng_below(r, 8); o->a[1] = huge ? 65000 + prng_below(r, 5000) : prng_next(r) >> 8; o->a[2] = prng_next(r) >> 8; o->a[3] = prng_next(r);
        if (huge) o->a[2] = 7 + 5 * prng_below(r, 500);      /* many distinct values */
        for (j = 0; j < nf; j++) { op_t *f = plan_add(p, Z_FIND); f->a[0] = prng_next(r) >> 8; f->a[1] = prng_below(r, 4); }
        if (prng_chance(r, 1, 3)) { op_t *v = plan_add(p, Z_REVERSE); v->a[0] = prng_below(r, 2); }
        for (j = 0; j < ns; j++) {
            op_t *s = plan_add(p, Z_SORT);
            int k2, nq = 1 + (int)prng_below(r, 4);
            s->a[0] = prng_below(r, 8); s->a[1] = prng_below(r, 4);
            for (k2 = 0; k2 < nq; k2++) { op_t *f = plan_add(p, prng_chance(r, 3, 4) ? Z_SEARCH : Z_FIND); f->a[0] = prng_next(r) >> 8; f->a[1] = prng_below(r, 4); }
            if (prng_chance(r, 1, 3)) { op_t *v = plan_add(p, Z_REVERSE); v->a[0] = prng_below(r, 2); }     /* the next sort sees reversed input */
        }
    }
    if (mode == 111) {          /* the virtual-array batch */
        int nq = 4 + (int)prng_below(r, 8);
        p->nops = 0;
        if (g_gen_index % 2 == 0) p->cfg[CF_ES] = 1 + (g_gen_index / 2) % 3;      /* small elements: only these allow counts beyond 2^62 */
        for (j = 0; j < nq; j++) { op_t *s = plan_add(p, Z_VSEARCH); s->a[0] = prng_below(r, 14); s->a[1] = prng_below(r, 6); s->a[2] = prng_next(r) >> 8; }
        if (prng_chance(r, 1, 20)) { op_t *s = plan_add(p, Z_VREVERSE); s->a[0] = prng_below(r, 4); }
        { int nv = 1 + (int)prng_below(r, 3); for (j = 0; j < nv; j++) { op_t *s = plan_add(p, Z_VSORT); s->a[0] = prng_below(r, 8); s->a[1] = prng_below(r, 5); s->a[2] = prng_below(r, 3); } }
        return;
    }
    if (!huge && prng_chance(r, 1, 12)) {
        op_t *s = plan_add(p, Z_ADVSORT);
        s->a[0] = prng_chance(r, 1, 2) ? 0 : prng_below(r, 5); s->a[1] = prng_below(r, 4); s->a[2] = prng_below(r, 6);
        if (prng_chance(r, 1, 2)) { op_t *f = plan_add(p, Z_FIND); f->a[0] = prng_next(r) >> 8; f->a[1] = prng_below(r, 4); }
    }
}

static const char *z_crash_prop(const plan_t *p, int opkind) { (void)p; (void)opkind; return "C11"; }

const world_t world_sort = { "sort", z_gen, z_exec, z_opname, z_crash_prop };
