/*
 * World "mem": guarded / unique / shared / weak pointers, one task (C05), the
 * sequential reference for C06; allocation failure (C16); stray bitwise
 * copies (C20).
 * mode 5: histories (a fraction with attached malloc failures);
 * mode 16: allocation-failure enumeration; mode 20: history + one stray use.
 */
#include "../core/sim.h"

#include "cstl/memory.h"

#include <string.h>
#include <sys/mman.h>

enum { U_ALLOC = 1, U_RELEASE, U_SWAP, U_RESET, U_GET,
       S_ALLOC = 10, S_SHARE, S_SWAP, S_RESET, S_GET, S_UNIQUE,
       W_FROM = 20, W_LOCK, W_SWAP, W_RESET,
       G_SET = 30, G_COPY, G_SWAP, G_GET,
       X_STRAY = 40, X_MANY = 41, X_SELFREF = 42, X_CHURN = 43 };

static const char *q_opname(int k)
{
    switch (k) {
    case U_ALLOC: return "unique_alloc"; case U_RELEASE: return "unique_release"; case U_SWAP: return "unique_swap";
    case U_RESET: return "unique_reset"; case U_GET: return "unique_get";
    case S_ALLOC: return "shared_alloc"; case S_SHARE: return "shared_share"; case S_SWAP: return "shared_swap";
    case S_RESET: return "shared_reset"; case S_GET: return "shared_get"; case S_UNIQUE: return "shared_unique";
    case W_FROM: return "weak_from"; case W_LOCK: return "weak_lock"; case W_SWAP: return "weak_swap"; case W_RESET: return "weak_reset";
    case G_SET: return "guarded_set"; case G_COPY: return "guarded_copy"; case G_SWAP: return "guarded_swap"; case G_GET: return "guarded_get";
    case X_STRAY: return "stray"; case X_MANY: return "many_owners"; case X_SELFREF: return "self_reference"; case X_CHURN: return "churn";
    }
    return "?";
}

enum { CF_JUNK, CF_MAXLIVE };

#define NSP 4
#define NWP 3
#define NUP 3
#define NGP 2
#define MAXA 512
#define NCB 8

struct malloc_ {                /* model of one allocation */
    int live_payload, live_book;
    int shared;                 /* 0: unique pointer allocation (no bookkeeping block) */
    unsigned char *addr; size_t size;
    int cb;                     /* callback index, -1 none */
    void *priv;
    int owners, refs;           /* hard, soft */
    int cleared, released_to_caller;
    int blk_payload, blk_book;
    unsigned char tag;
};

static cstl_shared_ptr_t sp[NSP + 1];       /* +1: stray slot */
static cstl_weak_ptr_t wp[NWP + 1];
static cstl_unique_ptr_t up[NUP + 1];
static struct cstl_guarded_ptr gp[NGP + 1];
static int tsp[NSP], twp[NWP], tup[NUP];    /* targets (allocation index) or -1 */
static void *tgp[NGP];
static struct malloc_ ma[MAXA];
static int nalloc, mode_g, maxlive, stray_call;
static unsigned reach;
static char privtok[MAXA];                  /* &privtok[i] is the private pointer of unique allocation i */

#define PROP() (mode_g == 16 ? "C16" : stray_call ? "C20" : "C05")

/* the stray copy normally lives in the extra slot of each object array; a "far" stray lives exactly k * 2^32 bytes away
 * from the object it was copied from (a self-check that compares addresses in 32 bits cannot tell the two apart) */
static void *far_sp, *far_up, *far_gp, *far_wp;
#define SSP ((cstl_shared_ptr_t *)(far_sp ? far_sp : (void *)&sp[NSP]))
#define SUP ((cstl_unique_ptr_t *)(far_up ? far_up : (void *)&up[NUP]))
#define SGP ((struct cstl_guarded_ptr *)(far_gp ? far_gp : (void *)&gp[NGP]))
#define SWP ((cstl_weak_ptr_t *)(far_wp ? far_wp : (void *)&wp[NWP]))
#ifndef MAP_FIXED_NOREPLACE
# define MAP_FIXED_NOREPLACE 0x100000
#endif
static void *far_place(const void *orig, size_t size, int k)
{
    /* map (once) the page(s) that lie k * 2^32 bytes from the original object; NULL if the address range is taken */
    static uintptr_t mapped[64]; static int nmapped;
    uintptr_t want = (uintptr_t)orig + (uintptr_t)((int64_t)k * ((int64_t)1 << 32)), pg = want & ~(uintptr_t)4095, end = (want + size + 4095) & ~(uintptr_t)4095;
    int i;
    for (; pg < end; pg += 4096) {
        for (i = 0; i < nmapped; i++) if (mapped[i] == pg) break;
        if (i < nmapped) continue;
        if (nmapped >= 64) return NULL;
        if (mmap((void *)pg, 4096, PROT_READ | PROT_WRITE, MAP_PRIVATE | MAP_ANONYMOUS | MAP_FIXED_NOREPLACE, -1, 0) != (void *)pg) return NULL;
        mapped[nmapped++] = pg;
    }
    return (void *)want;
}
#define VIOL(oracle, ...) do { char _k[160]; \
        snprintf(_k, sizeof _k, "%s/%s/%s/%s", PROP(), oracle, q_opname(g_run.opkind), g_cur_ctx); \
        sim_violation(_k, __VA_ARGS__); } while (0)

/* ------------------------------------------------------- clear callbacks */

struct cblog { int cb; void *ptr; void *priv; int payload_ok; int alloc; };       /* alloc: the live allocation the pointer was at the time (-1 none): addresses may come back */
static struct cblog cbl[16];
static int ncbl;

static void cb_common(int idx, void *ptr, void *priv)
{
    CB_ENTER();
    int i, ok = 0, which = -1;
    /* the callback runs while the payload is still intact and allocated */
    for (i = 0; i < nalloc; i++) if (ma[i].addr == ptr && ma[i].live_payload) {
        ok = simheap_is_live(ptr) && ((unsigned char *)ptr)[0] == ma[i].tag && ((unsigned char *)ptr)[ma[i].size - 1] == (unsigned char)~ma[i].tag;
        which = i;
        break;
    }
    if (ncbl < 16) { cbl[ncbl].cb = idx; cbl[ncbl].ptr = ptr; cbl[ncbl].priv = priv; cbl[ncbl].payload_ok = ok; cbl[ncbl].alloc = which; }
    ncbl++;
    CB_LEAVE();
}
#define DEFCB(n) static void cb##n(void *p, void *q) { cb_common(n, p, q); }
DEFCB(0) DEFCB(1) DEFCB(2) DEFCB(3) DEFCB(4) DEFCB(5) DEFCB(6) DEFCB(7)
static cstl_xtor_func_t *cbs[NCB] = { cb0, cb1, cb2, cb3, cb4, cb5, cb6, cb7 };

/* an object that keeps a weak back-reference to itself (or to a sibling): its clear callback re-enters the library */
static cstl_weak_ptr_t sr_back, sr_other; static cstl_shared_ptr_t sr_tmp, sr_src; static int sr_reset_src, sr_y_calls;
static void cb_other_object(void *ptr, void *priv) { (void)ptr; (void)priv; sr_y_calls++; }
static int sr_calls, sr_flags, sr_lock_gave_owner, sr_payload_ok; static unsigned char *sr_payload;
static void cb_selfref(void *ptr, void *priv)
{
    CB_ENTER();
    (void)priv;
    sr_calls++;
    sr_payload_ok = ptr == sr_payload && simheap_is_live(ptr) && sr_payload[0] == 0x3a;
    g_inlib = 1;
    if (sr_flags & 1) {
        /* the last owner is going away: a lock through the back-reference must not yield an owner */
        cstl_weak_ptr_lock(&sr_back, &sr_tmp);
        sr_lock_gave_owner = cstl_shared_ptr_get(&sr_tmp) != NULL;
        cstl_shared_ptr_reset(&sr_tmp);
    }
    cstl_weak_ptr_reset(&sr_back);              /* drop the back-reference while the owner's reset is still running */
    if (sr_reset_src) cstl_shared_ptr_reset(&sr_src);      /* ... and the last owner of ANOTHER object, which may be an operand of the call in flight */
    if (sr_flags & 2) cstl_weak_ptr_reset(&sr_other);
    g_inlib = 0;
    CB_LEAVE();
}

/* ---------------------------------------------------------------- model */

static int live_allocs(void)
{
    int i, n = 0;
    for (i = 0; i < nalloc; i++) if (ma[i].live_payload || ma[i].live_book) n++;
    return n;
}

static int exp_clear[4], nexp_clear;   /* allocations whose callback must run in this op */

/* an owner lets go */
static void m_drop_owner(int a)
{
    if (a < 0) return;
    if (--ma[a].owners == 0) {
        if (ma[a].cb >= 0) exp_clear[nexp_clear++] = a;
        ma[a].live_payload = 0; ma[a].cleared = 1;
    }
}
static void m_drop_ref(int a)
{
    if (a < 0) return;
    if (--ma[a].refs == 0) ma[a].live_book = 0;
}
static void m_reset_sp(int i) { int a = tsp[i]; tsp[i] = -1; if (a >= 0) { m_drop_owner(a); m_drop_ref(a); } }
static void m_reset_wp(int i) { int a = twp[i]; twp[i] = -1; if (a >= 0) m_drop_ref(a); }
static void m_reset_up(int i)
{
    int a = tup[i]; tup[i] = -1;
    if (a >= 0) { if (ma[a].cb >= 0) exp_clear[nexp_clear++] = a; ma[a].live_payload = 0; ma[a].cleared = 1; ma[a].owners = 0; }
}

/* after the operation: callbacks and allocator state must be exactly what the model predicts */
static void check_effects(const char *what)
{
    int i, j; unsigned expect_blocks = 0;
    static unsigned char matched[16];
    if (ncbl != nexp_clear)
        VIOL("clear_count", "%s: the clear callback ran %d times, the ownership model says %d (never earlier, never later, never twice)", what, ncbl, nexp_clear);
    memset(matched, 0, sizeof matched);
    for (i = 0; i < ncbl && i < 16; i++) {
        for (j = 0; j < nexp_clear; j++) {
            struct malloc_ *a = &ma[exp_clear[j]];
            if (!matched[j] && cbl[i].ptr == a->addr) {
                matched[j] = 1;
                if (cbl[i].cb != a->cb) VIOL("clear_wrong_callback", "%s: memory of allocation %d was cleared by the callback of another allocation", what, exp_clear[j]);
                if (!a->shared && cbl[i].priv != a->priv) VIOL("clear_wrong_priv", "%s: callback of allocation %d received another allocation's private pointer", what, exp_clear[j]);
                if (!cbl[i].payload_ok) VIOL("clear_after_free", "%s: the clear callback ran on memory that was already released or overwritten", what);
                break;
            }
        }
        if (j == nexp_clear) VIOL("clear_unexpected", "%s: the clear callback ran on memory whose last owner did not let go in this operation", what);
    }
    for (i = 0; i < nalloc; i++) {
        struct malloc_ *a = &ma[i];
        if (a->released_to_caller) continue;
        if (a->blk_payload >= 0) {
            int live = simheap_id_live(a->blk_payload);
            if (live && !a->live_payload) VIOL("payload_not_released", "%s: allocation %d has no owner left but its memory is still allocated", what, i);
            if (!live && a->live_payload) VIOL("payload_released_early", "%s: memory of allocation %d was released while %d owners remain", what, i, a->owners);
            if (a->live_payload) expect_blocks++;
        }
        if (a->blk_book >= 0) {
            int live = simheap_id_live(a->blk_book);
            if (live && !a->live_book) VIOL("bookkeeping_not_released", "%s: no shared or weak reference to allocation %d is left but its bookkeeping block is still allocated", what, i);
            if (!live && a->live_book) VIOL("bookkeeping_released_early", "%s: bookkeeping block of allocation %d was released while %d references remain", what, i, a->refs);
            if (a->live_book) expect_blocks++;
        }
    }
    if (simheap_live_count(TAG_LIB) != expect_blocks)
        VIOL("leak", "%s: %u library blocks are allocated, the model accounts for %u", what, simheap_live_count(TAG_LIB), expect_blocks);
}

/* read-only view of every object */
static void audit_all(const char *what)
{
    int i; uint64_t sh = 0x5e5;
    static const void *g; static bool uq;
    for (i = 0; i < NSP; i++) {
        TRY(g = cstl_shared_ptr_get_const(&sp[i]));
        if (g_aborted) VIOL("abort", "%s: get aborted on an object moved only by library functions", what);
        if (g != (tsp[i] >= 0 ? (const void *)ma[tsp[i]].addr : NULL))
            VIOL("get", "%s: shared pointer %d does not yield the address of its allocation", what, i);
        TRY(uq = cstl_shared_ptr_unique(&sp[i]));
        if (g_aborted) VIOL("abort", "%s: unique() aborted", what);
        if (uq != (tsp[i] < 0 || ma[tsp[i]].refs == 1))
            VIOL("unique", "%s: unique() of shared pointer %d is %d with %d references", what, i, (int)uq, tsp[i] >= 0 ? ma[tsp[i]].refs : 0);
        if (g && (((const unsigned char *)g)[0] != ma[tsp[i]].tag)) VIOL("payload_damaged", "%s: managed memory was overwritten", what);
        sh = fnv1a(sh, tsp[i] < 0 ? 0 : (uint64_t)ma[tsp[i]].owners * 16 + (uint64_t)ma[tsp[i]].refs);
    }
    for (i = 0; i < NUP; i++) {
        TRY(g = cstl_unique_ptr_get_const(&up[i]));
        if (g_aborted) VIOL("abort", "%s: get aborted on an object moved only by library functions", what);
        if (g != (tup[i] >= 0 ? (const void *)ma[tup[i]].addr : NULL)) VIOL("get", "%s: unique pointer %d does not yield the address of its allocation", what, i);
        sh = fnv1a(sh, tup[i] >= 0);
    }
    for (i = 0; i < NWP; i++) sh = fnv1a(sh, twp[i] < 0 ? 0 : 1 + (uint64_t)(ma[twp[i]].owners > 0));
    for (i = 0; i < NGP; i++) {
        TRY(g = cstl_guarded_ptr_get_const(&gp[i]));
        if (g_aborted) VIOL("abort", "%s: guarded get aborted on an object moved only by library functions", what);
        if (g != tgp[i]) VIOL("get", "%s: guarded pointer %d lost its value", what, i);
    }
    state_note(sh);
}

static int new_alloc(int shared, size_t size, int cb, void *priv)
{
    struct malloc_ *a;
    if (nalloc == MAXA) sim_harness_bug("mem: allocation table full");
    a = &ma[nalloc];
    memset(a, 0, sizeof *a);
    a->shared = shared; a->size = size; a->cb = cb; a->priv = priv;
    a->blk_payload = a->blk_book = -1;
    a->tag = (unsigned char)(0x21 + nalloc * 7);
    return nalloc++;
}

/* identify the blocks the allocation call created: the one holding `addr` is the payload */
static int cap_ids[4], ncap;
static void capture_allocs(void)
{
    int i; ncap = 0;
    for (i = 0; i < g_nhev; i++) if (g_hev[i].kind == 'A' && simheap_id_live(g_hev[i].id) && ncap < 4) cap_ids[ncap++] = g_hev[i].id;
}
static void adopt(struct malloc_ *a, void *addr)
{
    int i, id = simheap_id(addr);
    a->addr = addr;
    for (i = 0; i < ncap; i++) { if (cap_ids[i] == id) a->blk_payload = id; else a->blk_book = cap_ids[i]; }
    if (a->blk_payload < 0) VIOL("alloc_block", "the allocated memory is not the start of a block the call allocated");
    if (simheap_size(addr) < a->size) VIOL("alloc_size", "the allocated block is smaller than requested");
    a->addr[0] = a->tag; a->addr[a->size - 1] = (unsigned char)~a->tag;
}

/* interpret an object index "modulo what exists": prefer the idx-th non-empty object */
static int pick_nonempty(const int *tgt, int n, int idx, int want)
{
    int i, c = 0;
    if (!want) return idx % n;
    for (i = 0; i < n; i++) if (tgt[i] >= 0) c++;
    if (c == 0) return idx % n;
    idx %= c;
    for (i = 0; i < n; i++) if (tgt[i] >= 0 && idx-- == 0) return i;
    return 0;
}

#define END_BY_ABORT(why) do { PROBE(why); simheap_audit(PROP(), "at-abort"); g_run.ended_by_abort = 1; EVT("abort", 0, 0, 0); return; } while (0)

/* ---------------------------------------------------------------- exec */

static void q_once(const plan_t *p)
{
    struct simheap_cfg hc = { RP_MOVE, 0, (unsigned char)p->cfg[CF_JUNK] };
    int k, i;

    simheap_reset(&hc, p->cfg[CF_JUNK]);
    faultenum_apply();
    mode_g = p->mode; stray_call = 0;
    maxlive = (int)p->cfg[CF_MAXLIVE]; if (maxlive < 1) maxlive = 3;
    nalloc = 0; reach = 0;
    memset(sp, (int)(unsigned char)p->cfg[CF_JUNK], sizeof sp); memset(wp, (int)(unsigned char)p->cfg[CF_JUNK], sizeof wp);
    memset(up, (int)(unsigned char)p->cfg[CF_JUNK], sizeof up); memset(gp, (int)(unsigned char)p->cfg[CF_JUNK], sizeof gp);
    if (p->cfg[CF_DECL]) {
        /* the documented other way to get empty pointer objects: the initializer macros (they name the object they initialise) */
        for (i = 0; i <= NSP; i++) { sp[i] = (cstl_shared_ptr_t)CSTL_SHARED_PTR_INITIALIZER(sp[i]); if (i < NSP) tsp[i] = -1; }
        for (i = 0; i <= NWP; i++) { wp[i] = (cstl_weak_ptr_t)CSTL_WEAK_PTR_INITIALIZER(wp[i]); if (i < NWP) twp[i] = -1; }
        for (i = 0; i <= NUP; i++) { up[i] = (cstl_unique_ptr_t)CSTL_UNIQUE_PTR_INITIALIZER(up[i]); if (i < NUP) tup[i] = -1; }
        for (i = 0; i <= NGP; i++) { gp[i] = (struct cstl_guarded_ptr)CSTL_GUARDED_PTR_INITIALIZER(gp[i]); if (i < NGP) tgp[i] = NULL; }
        PROBE("from_initializer_macro");
    } else {
    for (i = 0; i <= NSP; i++) { cstl_shared_ptr_init(&sp[i]); if (i < NSP) tsp[i] = -1; }
    for (i = 0; i <= NWP; i++) { cstl_weak_ptr_init(&wp[i]); if (i < NWP) twp[i] = -1; }
    for (i = 0; i <= NUP; i++) { cstl_unique_ptr_init(&up[i]); if (i < NUP) tup[i] = -1; }
    for (i = 0; i <= NGP; i++) { cstl_guarded_ptr_init(&gp[i]); if (i < NGP) tgp[i] = NULL; }
    }

    for (k = 0; k < p->nops; k++) {
        const op_t *o = &p->ops[k];
        int x = (int)o->a[0], y = (int)o->a[1];
        static void *ret;
        int a;

        g_run.step = k; g_run.opkind = o->kind; g_run.steps++;
        g_cur_prop = PROP(); g_cur_ctx = "plain";
        ncbl = 0; nexp_clear = 0;
        if (p->mode != 16) simheap_fail_in_op((unsigned)o->a[4]);

        switch (o->kind) {
        /* ---------------------------------------------------- unique */
        case U_ALLOC: {
            size_t size = (size_t)(2 + o->a[2] % 40); int cb = (o->a[3] & 1) ? (int)(nalloc % NCB) : -1;
            int na;
            if ((o->a[3] >> 2 & 3) == 3 && (o->a[2] >> 8) % 8 == 0) { size = (o->a[2] >> 12 & 1) ? SIZE_MAX : (size_t)1 << 45; PROBE("alloc_size_unsatisfiable"); }
            if ((o->a[2] >> 16) % 12 == 0 && mode_g != 16) { size = 0; PROBE("alloc_size_zero"); }      /* legal: the pointer lets go of what it had and stays empty */
            x %= NUP;
            if (live_allocs() >= maxlive && tup[x] < 0) { EVT("skip", 0, 0, 0); break; }
            g_cur_ctx = tup[x] >= 0 ? "dest-occupied" : "dest-empty";
            na = nalloc;
            TRY(cstl_unique_ptr_alloc(&up[x], size, cb >= 0 ? cbs[cb] : NULL, &privtok[na]));
            capture_allocs();
            if (g_aborted) VIOL(g_aborted == 2 ? "assert" : "abort", "unique alloc aborted");
            m_reset_up(x);
            if (size == 0) {
                TRY(ret = cstl_unique_ptr_get(&up[x]));
                if (ret != NULL) VIOL("alloc_zero_not_empty", "unique alloc of 0 bytes: the pointer must let go of what it had and stay empty");
            } else
            if (g_hs.fired_in_op || g_hs.enomem_in_op) {
                PROBE("alloc_fail_fired");
                TRY(ret = cstl_unique_ptr_get(&up[x]));
                if (ret != NULL) VIOL("failed_alloc_not_empty", "unique alloc failed but the pointer is not empty");
            } else {
                TRY(ret = cstl_unique_ptr_get(&up[x]));
                if (ret == NULL) VIOL("alloc_empty", "unique alloc left the pointer empty although the allocator agreed");
                a = new_alloc(0, size, cb, &privtok[na]);
                adopt(&ma[a], ret);
                ma[a].owners = 1; ma[a].live_payload = 1; tup[x] = a;
            }
            EVT("u_alloc", x, size, cb);
            break;
        }
        case U_RELEASE: {
            static cstl_xtor_func_t *rclr; static void *rpriv;
            x %= NUP; a = tup[x];
            rclr = (cstl_xtor_func_t *)(uintptr_t)1; rpriv = (void *)(uintptr_t)1;
            TRY(ret = cstl_unique_ptr_release(&up[x], (o->a[2] & 1) ? &rclr : NULL, (o->a[2] & 2) ? &rpriv : NULL));
            if (g_aborted) VIOL("abort", "release aborted");
            if (a < 0) {
                if (ret != NULL) VIOL("release_empty", "release of an empty unique pointer returned memory");
            } else {
                if (ret != ma[a].addr) VIOL("release_ptr", "release did not hand back the managed memory");
                if ((o->a[2] & 1) && rclr != (ma[a].cb >= 0 ? cbs[ma[a].cb] : NULL)) VIOL("release_clr", "release did not report the allocation's callback");
                if ((o->a[2] & 2) && rpriv != ma[a].priv) VIOL("release_priv", "release did not report the allocation's private pointer");
                /* the memory is the caller's now: no callback, and the caller frees it */
                tup[x] = -1; ma[a].owners = 0;
                if (!simheap_is_live(ret)) VIOL("release_freed", "release freed the memory it handed back");
                g_inlib = 1; free(ret); g_inlib = 0;
                ma[a].live_payload = 0; ma[a].released_to_caller = 1;
                PROBE("unique_release");
            }
            EVT("u_release", x, a, 0);
            break;
        }
        case U_SWAP: {
            int t;
            x %= NUP; y %= NUP; if (y == x && !(o->a[3] & 8)) y = (x + 1) % NUP;
            if (y == x) { PROBE("self_swap"); g_cur_ctx = "self-swap"; }
            TRY(cstl_unique_ptr_swap(&up[x], &up[y]));
            if (g_aborted) VIOL("abort", "swap aborted");
            t = tup[x]; tup[x] = tup[y]; tup[y] = t;
            PROBE("unique_swap"); EVT("u_swap", x, y, 0);
            break;
        }
        case U_RESET:
            x %= NUP;
            TRY(cstl_unique_ptr_reset(&up[x]));
            if (g_aborted) VIOL("abort", "reset aborted");
            m_reset_up(x);
            EVT("u_reset", x, 0, 0);
            break;
        case U_GET: EVT("u_get", 0, 0, 0); break;

        /* ---------------------------------------------------- shared */
        case S_ALLOC: {
            size_t size = (size_t)(2 + o->a[2] % 40); int cb = (o->a[3] & 1) ? (int)(nalloc % NCB) : -1;
            if ((o->a[3] >> 2 & 3) == 3 && (o->a[2] >> 8) % 8 == 0) { size = (o->a[2] >> 12 & 1) ? SIZE_MAX : (size_t)1 << 45; PROBE("alloc_size_unsatisfiable"); }
            if ((o->a[2] >> 16) % 12 == 0 && mode_g != 16) { size = 0; PROBE("alloc_size_zero"); }      /* legal: the pointer lets go of what it had and stays empty */
            x %= NSP;
            if (live_allocs() >= maxlive && tsp[x] < 0) { EVT("skip", 0, 0, 0); break; }
            g_cur_ctx = tsp[x] >= 0 ? "dest-occupied" : "dest-empty";
            TRY(cstl_shared_ptr_alloc(&sp[x], size, cb >= 0 ? cbs[cb] : NULL));
            capture_allocs();
            if (g_aborted) VIOL(g_aborted == 2 ? "assert" : "abort", "shared alloc aborted");
            m_reset_sp(x);
            if (size == 0) {
                TRY(ret = cstl_shared_ptr_get(&sp[x]));
                if (ret != NULL) VIOL("alloc_zero_not_empty", "shared alloc of 0 bytes: the pointer must let go of what it had and stay empty");
            } else
            if (g_hs.fired_in_op || g_hs.enomem_in_op) {
                PROBE("alloc_fail_fired");
                TRY(ret = cstl_shared_ptr_get(&sp[x]));
                if (ret != NULL) VIOL("failed_alloc_not_empty", "shared alloc failed but the pointer is not empty");
            } else {
                TRY(ret = cstl_shared_ptr_get(&sp[x]));
                if (ret == NULL) VIOL("alloc_empty", "shared alloc left the pointer empty although the allocator agreed");
                a = new_alloc(1, size, cb, NULL);
                adopt(&ma[a], ret);
                ma[a].owners = 1; ma[a].refs = 1; ma[a].live_payload = 1; ma[a].live_book = 1; tsp[x] = a;
            }
            EVT("s_alloc", x, size, cb);
            break;
        }
        case S_SHARE:
            x = pick_nonempty(tsp, NSP, x, (o->a[3] & 3) != 0); y %= NSP; if (y == x) y = (x + 1) % NSP;     /* share(src x, dst y) */
            g_cur_ctx = tsp[y] < 0 ? "dest-empty" : tsp[y] == tsp[x] ? "dest-same-block" : "dest-other-block";
            TRY(cstl_shared_ptr_share(&sp[x], &sp[y]));
            if (g_aborted) VIOL("abort", "share aborted");
            m_reset_sp(y);
            if (tsp[x] >= 0) { tsp[y] = tsp[x]; ma[tsp[x]].owners++; ma[tsp[x]].refs++; }
            if (tsp[x] >= 0) PROBE("share_nonempty"); else PROBE("share_from_empty");
            EVT("s_share", x, y, tsp[x]);
            break;
        case S_SWAP: {
            int t;
            x %= NSP; y %= NSP; if (y == x && !(o->a[3] & 8)) y = (x + 1) % NSP;
            if (y == x) { PROBE("self_swap"); g_cur_ctx = "self-swap"; }
            TRY(cstl_shared_ptr_swap(&sp[x], &sp[y]));
            if (g_aborted) VIOL("abort", "swap aborted");
            t = tsp[x]; tsp[x] = tsp[y]; tsp[y] = t;
            PROBE("shared_swap"); EVT("s_swap", x, y, 0);
            break;
        }
        case S_RESET:
            x = pick_nonempty(tsp, NSP, x, (o->a[3] & 1) != 0);
            if (tsp[x] >= 0 && ma[tsp[x]].owners == 1) { PROBE("reset_last_owner"); if (ma[tsp[x]].refs > 1) PROBE("reset_last_owner_with_weak_left"); }
            TRY(cstl_shared_ptr_reset(&sp[x]));
            if (g_aborted) VIOL("abort", "reset aborted");
            m_reset_sp(x);
            EVT("s_reset", x, 0, 0);
            break;
        case S_GET: case S_UNIQUE: EVT("s_probe", 0, 0, 0); break;

        /* ------------------------------------------------------ weak */
        case W_FROM:
            x %= NWP; y = pick_nonempty(tsp, NSP, y, (o->a[3] & 3) != 0);
            TRY(cstl_weak_ptr_from(&wp[x], &sp[y]));
            if (g_aborted) VIOL("abort", "weak_from aborted");
            m_reset_wp(x);
            if (tsp[y] >= 0) { twp[x] = tsp[y]; ma[tsp[y]].refs++; }
            PROBE("weak_from"); EVT("w_from", x, y, tsp[y]);
            break;
        case W_LOCK: {
            int tgt;
            x = pick_nonempty(twp, NWP, x, (o->a[3] & 3) != 0); y %= NSP; tgt = twp[x];
            g_cur_ctx = tsp[y] < 0 ? "dest-empty" : (tsp[y] == tgt && tgt >= 0 && ma[tgt].owners == 1) ? "dest-is-last-owner" : tsp[y] == tgt ? "dest-same-block" : "dest-other-block";
            TRY(cstl_weak_ptr_lock(&wp[x], &sp[y]));
            if (g_aborted) VIOL("abort", "lock aborted");
            m_reset_sp(y);              /* documented order: the destination is reset first */
            if (tgt >= 0 && ma[tgt].owners > 0) { tsp[y] = tgt; ma[tgt].owners++; ma[tgt].refs++; PROBE("lock_live"); }
            else if (tgt >= 0) PROBE("lock_dead"); else PROBE("lock_empty");
            if (g_cur_ctx[5] == 'i') PROBE("lock_into_last_owner");
            EVT("w_lock", x, y, tsp[y]);
            break;
        }
        case W_SWAP: {
            int t;
            x %= NWP; y %= NWP; if (y == x && !(o->a[3] & 8)) y = (x + 1) % NWP;
            if (y == x) { PROBE("self_swap"); g_cur_ctx = "self-swap"; }
            TRY(cstl_weak_ptr_swap(&wp[x], &wp[y]));
            if (g_aborted) VIOL("abort", "swap aborted");
            t = twp[x]; twp[x] = twp[y]; twp[y] = t;
            EVT("w_swap", x, y, 0);
            break;
        }
        case W_RESET:
            x %= NWP;
            if (twp[x] >= 0 && ma[twp[x]].refs == 1) PROBE("weak_reset_frees_bookkeeping");
            TRY(cstl_weak_ptr_reset(&wp[x]));
            if (g_aborted) VIOL("abort", "weak reset aborted");
            m_reset_wp(x);
            EVT("w_reset", x, 0, 0);
            break;

        /* --------------------------------------------------- guarded */
        case G_SET:
            x %= NGP;
            TRY(cstl_guarded_ptr_set(&gp[x], &privtok[o->a[2] % MAXA]));
            tgp[x] = &privtok[o->a[2] % MAXA];
            EVT("g_set", x, 0, 0);
            break;
        case G_COPY:
            x %= NGP; y = (x + 1) % NGP;
            TRY(cstl_guarded_ptr_copy(&gp[y], &gp[x]));
            if (g_aborted) VIOL("abort", "guarded copy aborted");
            tgp[y] = tgp[x];
            EVT("g_copy", x, y, 0);
            break;
        case G_SWAP: {
            void *t;
            x %= NGP; y = (x + 1) % NGP;
            TRY(cstl_guarded_ptr_swap(&gp[x], &gp[y]));
            if (g_aborted) VIOL("abort", "guarded swap aborted");
            t = tgp[x]; tgp[x] = tgp[y]; tgp[y] = t;
            EVT("g_swap", x, y, 0);
            break;
        }
        case G_GET: EVT("g_get", 0, 0, 0); break;

        /* ------------------------------- very many references to one allocation */
        case X_MANY: {
            /* a counter narrower than size_t, or any per-reference table, only shows with hundreds / tens of thousands of
             * references: n owners (and n/2 weak references) of one fresh allocation, then everything lets go */
            static cstl_shared_ptr_t many[70000]; static cstl_weak_ptr_t manyw[35000];
            static const unsigned counts[] = { 255, 256, 257, 300, 65535, 65536, 65537, 66000 };
            unsigned n = counts[o->a[2] % 8], q, nw = n / 2 < 35000 ? n / 2 : 35000;
            static bool uq; static const void *pp;
            if (live_allocs() >= maxlive + 1) { EVT("skip", 0, 0, 0); break; }
            g_cur_ctx = n > 60000 ? "refs-above-2^16" : "refs-above-2^8";
            for (q = 0; q < n; q++) cstl_shared_ptr_init(&many[q]);
            for (q = 0; q < nw; q++) cstl_weak_ptr_init(&manyw[q]);
            ncbl = 0;
            TRY(cstl_shared_ptr_alloc(&many[0], 24, cbs[7]));
            TRY(pp = cstl_shared_ptr_get(&many[0]));
            if (pp == NULL) { EVT("skip", 0, 0, 0); break; }
            ((unsigned char *)pp)[0] = 0x5c;
            for (q = 1; q < n; q++) { g_inlib = 1; cstl_shared_ptr_share(&many[q - 1], &many[q]); g_inlib = 0; }
            for (q = 0; q < nw; q++) { g_inlib = 1; cstl_weak_ptr_from(&manyw[q], &many[q]); g_inlib = 0; }
            TRY(uq = cstl_shared_ptr_unique(&many[0]));
            if (uq) VIOL("unique", "unique() is true with %u owners and %u weak references", n, nw);
            /* a lock must succeed while owners exist */
            TRY(cstl_weak_ptr_lock(&manyw[0], &sp[NSP]));
            TRY(pp = cstl_shared_ptr_get(&sp[NSP]));
            if (pp == NULL) VIOL("lock_failed_with_owners", "weak lock failed although %u owners exist", n);
            TRY(cstl_shared_ptr_reset(&sp[NSP]));
            /* every owner but the last lets go: nothing may be cleared or released yet */
            for (q = 0; q + 1 < n; q++) {
                g_inlib = 1; cstl_shared_ptr_reset(&many[q]); g_inlib = 0;
                if (ncbl) VIOL("cleared_early", "the clear callback ran when owner %u of %u let go (%u owners remain)", q + 1, n, n - q - 1);
            }
            TRY(pp = cstl_shared_ptr_get(&many[n - 1]));
            if (pp == NULL || !simheap_is_live(pp) || ((const unsigned char *)pp)[0] != 0x5c)
                VIOL("payload_released_early", "with one of %u owners left the managed memory is gone", n);
            TRY(cstl_shared_ptr_reset(&many[n - 1]));
            if (ncbl != 1) VIOL("clear_count", "after all %u owners let go the clear callback has run %d times", n, ncbl);
            for (q = 0; q < nw; q++) { g_inlib = 1; cstl_weak_ptr_reset(&manyw[q]); g_inlib = 0; }
            ncbl = 0; nexp_clear = 0;
            PROBE(n > 60000 ? "many_refs_above_2^16" : "many_refs_above_2^8");
            EVT("many", n, nw, 0);
            break;      /* check_effects below verifies that nothing of it is left allocated */
        }

        case X_CHURN: {
            /* the n-th repetition: one allocation is shared and let go, referred to weakly, locked and let go again
             * 254 ... 65 536 times in a row; nothing may be cleared, and the counts must end where they began */
            static const unsigned reps[] = { 254, 255, 256, 65534, 65535, 65536 };
            unsigned n = reps[o->a[2] % 6], q; int src = -1, j; static const void *pp; static bool uq;
            for (j = 0; j < NSP; j++) if (tsp[(j + (int)o->a[1]) % NSP] >= 0) { src = (j + (int)o->a[1]) % NSP; break; }
            if (src < 0) { EVT("skip", 0, 0, 0); break; }
            g_cur_ctx = n > 60000 ? "churn-2^16" : "churn-2^8";
            cstl_shared_ptr_init(&sp[NSP]); cstl_weak_ptr_init(&wp[NWP]);
            ncbl = 0; nexp_clear = 0;
            g_inlib = 1;
            for (q = 0; q < n && ncbl == 0; q++) {
                cstl_shared_ptr_share(&sp[src], &sp[NSP]);
                cstl_weak_ptr_from(&wp[NWP], &sp[NSP]);
                cstl_shared_ptr_reset(&sp[NSP]);
                cstl_weak_ptr_lock(&wp[NWP], &sp[NSP]);
                if (cstl_shared_ptr_get(&sp[NSP]) != cstl_shared_ptr_get(&sp[src])) break;
                cstl_shared_ptr_reset(&sp[NSP]);
                cstl_weak_ptr_reset(&wp[NWP]);
            }
            g_inlib = 0;
            if (ncbl) VIOL("cleared_early", "the clear callback ran during repetition %u of share/weak/lock/reset cycles although an owner exists throughout", q);
            if (q != n) VIOL("churn", "repetition %u: a lock through a weak reference did not yield the allocation although an owner exists", q);
            TRY(pp = cstl_shared_ptr_get(&sp[src]));
            if (pp != (const void *)ma[tsp[src]].addr) VIOL("get", "after %u cycles the owner no longer yields the address of its allocation", n);
            TRY(uq = cstl_shared_ptr_unique(&sp[src]));
            if (uq != (ma[tsp[src]].refs == 1)) VIOL("unique", "after %u share/reset cycles unique() is %d with %d references", n, (int)uq, ma[tsp[src]].refs);
            PROBE(n > 60000 ? "churn_2^16" : "churn_2^8");
            EVT("churn", src, n, 0);
            break;
        }
        case X_SELFREF: {
            static cstl_shared_ptr_t s1, s2; static const void *pp; unsigned before;
            if (live_allocs() >= maxlive + 1) { EVT("skip", 0, 0, 0); break; }
            g_cur_ctx = "callback-drops-back-reference";
            sr_flags = (int)(o->a[2] & 15); sr_calls = 0; sr_lock_gave_owner = 0;
            cstl_shared_ptr_init(&s1); cstl_shared_ptr_init(&s2); cstl_shared_ptr_init(&sr_tmp);
            cstl_weak_ptr_init(&sr_back); cstl_weak_ptr_init(&sr_other);
            before = simheap_live_count(TAG_LIB);
            TRY(cstl_shared_ptr_alloc(&s1, 40, cb_selfref));
            TRY(pp = cstl_shared_ptr_get(&s1));
            if (pp == NULL) { EVT("skip", 0, 0, 0); break; }
            sr_payload = (unsigned char *)pp; sr_payload[0] = 0x3a;
            TRY(cstl_weak_ptr_from(&sr_back, &s1));
            TRY(cstl_weak_ptr_from(&sr_other, &s1));        /* flags&2: dropped by the callback too; else: outlives the payload */
            if (sr_flags & 4) { TRY(cstl_shared_ptr_share(&s1, &s2)); TRY(cstl_shared_ptr_reset(&s2)); }
            if (sr_calls) VIOL("cleared_early", "the clear callback ran while an owner exists");
            sr_reset_src = 0; sr_y_calls = 0; cstl_shared_ptr_init(&sr_src);
            switch (o->a[3] % 4) {
            default:
                if (sr_flags & 8) { TRY(cstl_shared_ptr_share(&s1, &s2)); TRY(cstl_shared_ptr_reset(&s1)); TRY(cstl_shared_ptr_reset(&s2)); }   /* the last owner is a sharer */
                else TRY(cstl_shared_ptr_reset(&s1));
                break;
            case 1:
                /* the last owner lets go because it is the DESTINATION of a lock through the very back-reference the
                 * clear callback drops: the operands of the call in flight change under it */
                g_cur_ctx = "lock-into-last-owner";
                TRY(cstl_weak_ptr_lock(&sr_back, &s1));
                TRY(pp = cstl_shared_ptr_get(&s1));
                if (!g_aborted && pp != NULL) VIOL("lock_after_last_owner", "a lock whose destination was the last owner yielded an owner of the object that just died");
                PROBE("clear_callback_changes_operand_of_call_in_flight");
                break;
            case 2: {
                /* ... or the destination of a share whose SOURCE is reset by the callback (it was the last owner of another object) */
                static const void *q;
                g_cur_ctx = "share-into-last-owner";
                TRY(cstl_shared_ptr_alloc(&sr_src, 24, cb_other_object));
                TRY(q = cstl_shared_ptr_get(&sr_src));
                if (q == NULL) { TRY(cstl_shared_ptr_reset(&s1)); break; }
                sr_reset_src = 1;
                TRY(cstl_shared_ptr_share(&sr_src, &s1));
                sr_reset_src = 0;
                if (sr_y_calls != 1) VIOL("clear_count", "the other object, whose last owner was reset from the clear callback, was cleared %d times", sr_y_calls);
                TRY(pp = cstl_shared_ptr_get(&s1));
                if (!g_aborted && pp != NULL) VIOL("share_from_emptied_source", "share from a source that the destination's clear callback had emptied left the destination owning something");
                TRY(cstl_shared_ptr_reset(&s1));
                PROBE("clear_callback_changes_operand_of_call_in_flight");
                break;
            }
            case 3:
                /* ... or because it is re-targeted by alloc */
                g_cur_ctx = "alloc-over-last-owner";
                TRY(cstl_shared_ptr_alloc(&s1, 24, NULL));
                TRY(cstl_shared_ptr_reset(&s1));
                break;
            }
            if (g_aborted) VIOL(g_aborted == 2 ? "assert" : "abort", "reset of the last owner aborted while its clear callback dropped the object's weak back-reference");
            if (sr_calls != 1) VIOL("clear_count", "the clear callback ran %d times for one allocation", sr_calls);
            if (!sr_payload_ok) VIOL("callback_payload", "the clear callback was not handed the intact, still allocated payload");
            if (sr_lock_gave_owner) VIOL("lock_after_last_owner", "a lock through the back-reference, made from the clear callback of the last owner, yielded an owner");
            if (simheap_is_live(sr_payload)) VIOL("payload_not_released", "the managed memory is still allocated after its last owner let go");
            if (!(sr_flags & 2)) {
                if (simheap_live_count(TAG_LIB) != before + 1) VIOL("bookkeeping_count", "with one weak reference left %u library blocks remain, expected the bookkeeping block alone", simheap_live_count(TAG_LIB) - before);
                TRY(cstl_weak_ptr_lock(&sr_other, &sr_tmp));
                TRY(pp = cstl_shared_ptr_get(&sr_tmp));
                if (pp != NULL) VIOL("lock_after_last_owner", "a weak lock yielded an owner after the last owner let go");
                TRY(cstl_weak_ptr_reset(&sr_other));
            }
            if (simheap_live_count(TAG_LIB) != before) VIOL("bookkeeping_not_released", "%u library blocks of the self-referencing object are still allocated after every reference let go", simheap_live_count(TAG_LIB) - before);
            simheap_audit(PROP(), "self-reference");
            ncbl = 0; nexp_clear = 0;
            PROBE("clear_callback_drops_back_reference");
            EVT("selfref", sr_flags, 0, 0);
            break;
        }

        /* ------------------------------------------------------ C20 */
        case X_STRAY: {
            /* a[0]: kind 0 guarded,1 unique,2 shared,3 weak; a[1]: object; a[2]: function; a[3]: relocate; a[5]: partner */
            int kind = (int)(o->a[0] % 4), fn = (int)o->a[2], relocate = (int)(o->a[3] & 1), tgt = -1, partner = (int)o->a[5];
            /* a[3] bits 1-3: where the copy lives: 0 the next slot of the same array, else exactly +2^32, +2^33, -2^32 bytes away */
            static const int fars[8] = { 0, 0, 0, 0, 0, 1, 2, -1 };
            int fark = fars[o->a[3] >> 1 & 7];
            far_sp = far_up = far_gp = far_wp = NULL;
            static char ctxbuf[64]; const char *state = "empty", *fname = "?";
            static const void *cg; static cstl_xtor_func_t *rclr; static void *rpriv;
            (void)cg;
            int i2;
            switch (kind) {
            case 0: y %= NGP; if (fark) far_gp = far_place(&gp[y], sizeof gp[0], fark); memcpy(SGP, &gp[y], sizeof gp[0]); if (relocate) memset(&gp[y], 0x5A, sizeof gp[0]); state = tgp[y] ? "set" : "empty"; break;
            case 1: y %= NUP; tgt = tup[y]; if (fark) far_up = far_place(&up[y], sizeof up[0], fark); memcpy(SUP, &up[y], sizeof up[0]); if (relocate) memset(&up[y], 0x5A, sizeof up[0]); state = tgt >= 0 ? "owning" : "empty"; break;
            case 2: y %= NSP; tgt = tsp[y]; if (fark) far_sp = far_place(&sp[y], sizeof sp[0], fark); memcpy(SSP, &sp[y], sizeof sp[0]); if (relocate) memset(&sp[y], 0x5A, sizeof sp[0]);
                    state = tgt < 0 ? "empty" : ma[tgt].refs > 1 ? "shared" : "owning"; break;
            default: y %= NWP; tgt = twp[y]; if (fark) far_wp = far_place(&wp[y], sizeof wp[0], fark); memcpy(SWP, &wp[y], sizeof wp[0]); if (relocate) memset(&wp[y], 0x5A, sizeof wp[0]);
                    state = tgt < 0 ? "empty" : ma[tgt].owners > 0 ? "weak-live" : "weak-only"; break;
            }
            stray_call = 1; g_cur_prop = "C20";
            ncbl = 0; nexp_clear = 0;
            switch (kind) {
            case 0:
                fn %= 6; i2 = (y + 1) % NGP;
                switch (fn) {
                case 0: fname = "guarded_get"; g_cur_ctx = fname; TRY(cg = cstl_guarded_ptr_get(SGP)); break;
                case 1: fname = "guarded_get_const"; TRY(cg = cstl_guarded_ptr_get_const(SGP)); break;
                case 2: fname = "guarded_copy-src"; TRY(cstl_guarded_ptr_copy(&gp[i2], SGP)); break;
                case 3: fname = "guarded_swap-a"; TRY(cstl_guarded_ptr_swap(SGP, &gp[i2])); break;
                case 4: fname = "guarded_swap-b"; TRY(cstl_guarded_ptr_swap(&gp[i2], SGP)); break;
                default: fname = "guarded_swap-both"; TRY(cstl_guarded_ptr_swap(SGP, SGP)); break;
                }
                break;
            case 1:
                fn %= 8; i2 = (y + 1) % NUP;
                switch (fn) {
                case 0: fname = "unique_get"; TRY(cg = cstl_unique_ptr_get(SUP)); break;
                case 1: fname = "unique_get_const"; TRY(cg = cstl_unique_ptr_get_const(SUP)); break;
                case 2: fname = "unique_release"; TRY(cg = cstl_unique_ptr_release(SUP, &rclr, &rpriv)); break;
                case 3: fname = "unique_swap-a"; TRY(cstl_unique_ptr_swap(SUP, &up[i2])); break;
                case 4: fname = "unique_swap-b"; TRY(cstl_unique_ptr_swap(&up[i2], SUP)); break;
                case 5: fname = "unique_reset"; TRY(cstl_unique_ptr_reset(SUP)); break;
                case 6: fname = "unique_swap-both"; TRY(cstl_unique_ptr_swap(SUP, SUP)); break;
                default: fname = "unique_alloc"; TRY(cstl_unique_ptr_alloc(SUP, 8, NULL, NULL)); break;
                }
                break;
            case 2:
                fn %= 12; i2 = partner % NSP; if (i2 == y) i2 = (y + 1) % NSP;
                switch (fn) {
                case 0: fname = "shared_get"; TRY(cg = cstl_shared_ptr_get(SSP)); break;
                case 1: fname = "shared_get_const"; TRY(cg = cstl_shared_ptr_get_const(SSP)); break;
                case 2: fname = "shared_unique"; TRY(cg = cstl_shared_ptr_unique(SSP) ? &sp[0] : NULL); break;
                case 3: fname = "shared_share-src"; TRY(cstl_shared_ptr_share(SSP, &sp[i2])); break;
                case 4: fname = "shared_share-dst"; TRY(cstl_shared_ptr_share(&sp[i2], SSP)); break;
                case 5: fname = "shared_swap-a"; TRY(cstl_shared_ptr_swap(SSP, &sp[i2])); break;
                case 6: fname = "shared_swap-b"; TRY(cstl_shared_ptr_swap(&sp[i2], SSP)); break;
                case 7: fname = "shared_reset"; TRY(cstl_shared_ptr_reset(SSP)); break;
                case 8: fname = "shared_alloc"; TRY(cstl_shared_ptr_alloc(SSP, 8, NULL)); break;
                case 9: fname = "weak_from-src"; i2 = partner % NWP; TRY(cstl_weak_ptr_from(&wp[i2], SSP)); break;
                case 11: fname = "shared_swap-both"; TRY(cstl_shared_ptr_swap(SSP, SSP)); break;
                default: fname = "weak_lock-dst"; i2 = partner % NWP; TRY(cstl_weak_ptr_lock(&wp[i2], SSP)); break;
                }
                /* share-src resets its (honest) destination before it touches the stray source */
                if (fn == 3 && tsp[i2] == tgt) tgt = -1;
                break;
            default:
                fn %= 7; i2 = partner % NSP;
                switch (fn) {
                case 0: fname = "weak_from-dst"; TRY(cstl_weak_ptr_from(SWP, &sp[i2])); break;
                case 1: fname = "weak_lock-src"; TRY(cstl_weak_ptr_lock(SWP, &sp[i2]));
                        if (tsp[i2] == tgt) tgt = -1;       /* the honest destination is reset first; it may have been the last owner */
                        break;
                case 2: fname = "weak_swap-a"; TRY(cstl_weak_ptr_swap(SWP, &wp[(y + 1) % NWP])); break;
                case 3: fname = "weak_swap-b"; TRY(cstl_weak_ptr_swap(&wp[(y + 1) % NWP], SWP)); break;
                case 4: fname = "weak_reset"; TRY(cstl_weak_ptr_reset(SWP)); break;
                /* a shared pointer object is the stray here: weak_from(ok weak, stray shared), weak_lock(ok weak, stray shared) are case 2's business */
                case 5: fname = "weak_swap-both"; TRY(cstl_weak_ptr_swap(SWP, SWP)); break;
                default: fname = "weak_reset-again"; TRY(cstl_weak_ptr_reset(SWP)); break;
                }
                break;
            }
            snprintf(ctxbuf, sizeof ctxbuf, "%s-%s-%s%s", fname, state, relocate ? "relocated" : "duplicate", (far_sp || far_up || far_gp || far_wp) ? "-2^32-away" : "");
            if (far_sp || far_up || far_gp || far_wp) PROBE("c20_stray_exactly_2^32_bytes_away");
            far_sp = far_up = far_gp = far_wp = NULL;
            g_cur_ctx = ctxbuf;
            PROBE("c20_stray_call");
            { char pn[96]; snprintf(pn, sizeof pn, "c20:%s", g_cur_ctx); probe_dyn(pn); }
            g_run.nontrivial = 1;
            if (!g_aborted)
                VIOL("stray_not_caught", "%s through a bitwise %s of a %s object returned instead of aborting", fname, relocate ? "relocation" : "copy", state);
            /* before the abort nothing of the allocation the stray refers to may have been cleared or released */
            if (tgt >= 0) {
                int j;
                for (j = 0; j < ncbl && j < 16; j++) if (cbl[j].alloc == tgt) VIOL("cleared_through_stray", "%s: the clear callback ran on the stray copy's memory before the abort", fname);
                for (j = 0; j < g_nhev; j++) if (g_hev[j].kind == 'F' && (g_hev[j].id == ma[tgt].blk_payload || g_hev[j].id == ma[tgt].blk_book))
                    VIOL("released_through_stray", "%s: memory the stray copy refers to was released before the abort", fname);
            }
            END_BY_ABORT("c20_stray_aborted");
        }
        default: EVT("skip", 0, 0, 0);
        }

        /* stray variants with a shared-pointer stray as the *source/destination of weak operations* */
        check_effects(q_opname(o->kind));
        audit_all(q_opname(o->kind));
        if ((unsigned)live_allocs() > reach) reach = (unsigned)live_allocs();
        if ((k & 15) == 15 || k == p->nops - 1) simheap_audit(PROP(), "mem");
    }

    /* epilogue: reset everything; a history that resets every pointer leaks nothing */
    g_run.step = p->nops; g_run.opkind = S_RESET; g_cur_ctx = "epilogue";
    for (i = 0; i < NSP; i++) { ncbl = 0; nexp_clear = 0; TRY(cstl_shared_ptr_reset(&sp[i])); if (g_aborted) VIOL("abort", "reset aborted"); m_reset_sp(i); check_effects("epilogue"); }
    for (i = 0; i < NWP; i++) { ncbl = 0; nexp_clear = 0; TRY(cstl_weak_ptr_reset(&wp[i])); if (g_aborted) VIOL("abort", "reset aborted"); m_reset_wp(i); check_effects("epilogue"); }
    for (i = 0; i < NUP; i++) { ncbl = 0; nexp_clear = 0; TRY(cstl_unique_ptr_reset(&up[i])); if (g_aborted) VIOL("abort", "reset aborted"); m_reset_up(i); check_effects("epilogue"); }
    if (simheap_live_count(TAG_LIB) != 0) VIOL("leak", "%u library blocks still allocated after every pointer was reset", simheap_live_count(TAG_LIB));
    simheap_audit(PROP(), "mem-end");
    g_run.nontrivial = reach >= 1 && nalloc >= 2;
}

static void q_exec(const plan_t *p)
{
    if (p->mode == 16) faultenum(p, q_once); else q_once(p);
}

static void q_gen(prng_t *r, int mode, plan_t *p)
{
    p->cfg[CF_DECL] = DECL_OF_INDEX();    /* one run in five starts from the initializer macros */
    p->cfg[CF_REUSE] = REUSE_OF_INDEX();  /* one run in six: the allocator hands a freed block out again at once */
    int small = prng_chance(r, 1, 5), longrun = mode == 5 && prng_chance(r, 1, 10);
    int nops = longrun ? 200 + (int)prng_below(r, 300) : small ? 2 + (int)prng_below(r, 8) : 10 + (int)prng_below(r, 50);
    int faults = mode == 5 && prng_chance(r, 1, 4);
    int i;
    if (mode == 16) nops = 8 + (int)prng_below(r, 22);
    p->cfg[CF_JUNK] = 1 + prng_below(r, 254);
    p->cfg[CF_MAXLIVE] = 1 + prng_below(r, 3);
    for (i = 0; i < nops; i++) {
        unsigned x = (unsigned)prng_below(r, 100);
        int kind = x < 6 ? U_ALLOC : x < 9 ? U_RELEASE : x < 12 ? U_SWAP : x < 16 ? U_RESET
                 : x < 30 ? S_ALLOC : x < 46 ? S_SHARE : x < 52 ? S_SWAP : x < 66 ? S_RESET
                 : x < 76 ? W_FROM : x < 88 ? W_LOCK : x < 91 ? W_SWAP : x < 97 ? W_RESET
                 : x < 98 ? G_SET : x < 99 ? G_COPY : G_SWAP;
        op_t *o = plan_add(p, kind);
        o->a[0] = prng_below(r, 12); o->a[1] = prng_below(r, 12); o->a[2] = prng_next(r) >> 8; o->a[3] = prng_below(r, 16);
        if (faults && (kind == U_ALLOC || kind == S_ALLOC) && prng_chance(r, 1, 3)) o->a[4] = 1 + prng_below(r, 2);
    }
    if (mode == 5 && prng_chance(r, 1, 150)) { op_t *o = plan_add(p, X_MANY); o->a[2] = prng_below(r, 8); }
    if (mode == 5 && prng_chance(r, 1, 40)) { op_t *o = plan_add(p, X_CHURN); o->a[1] = prng_below(r, 4); o->a[2] = prng_below(r, 6); }
    if (mode == 5 && prng_chance(r, 1, 6)) { op_t *o = plan_add(p, X_SELFREF); o->a[2] = prng_below(r, 16); o->a[3] = prng_below(r, 4); }
    if (mode == 20) {
        op_t *o = plan_add(p, X_STRAY);
        o->a[0] = prng_below(r, 4); o->a[1] = prng_below(r, 12); o->a[2] = prng_below(r, 63); o->a[3] = prng_below(r, 16); o->a[5] = prng_below(r, 12);
    }
}

static const char *q_crash_prop(const plan_t *p, int opkind) { (void)p; (void)opkind; return g_cur_prop; }

const world_t world_mem = { "mem", q_gen, q_exec, q_opname, q_crash_prop };
