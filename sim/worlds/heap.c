/*
 * World "heap": cstl_heap (C07), clear with a freeing callback (C15).
 * mode 7: push/pop/get interleavings; mode 15: clear-heavy.
 */
#include "../core/sim.h"

#include "cstl/heap.h"

#include <string.h>
#include <stdlib.h>
#include <limits.h>

enum { H_PUSH = 1, H_POP, H_GET, H_CLEAR, H_SWAP, H_HUGE, H_CHURN, H_GIANT };

static const char *h_opname(int k)
{
    switch (k) {
    case H_PUSH: return "push"; case H_POP: return "pop"; case H_GET: return "get";
    case H_CLEAR: return "clear"; case H_SWAP: return "swap"; case H_HUGE: return "huge"; case H_CHURN: return "churn"; case H_GIANT: return "giant";
    }
    return "?";
}

enum { CF_NH, CF_PRIOS, CF_JUNK, CF_MAXN, CF_CLEARFREES };

#define MAXN 1100
#define MAGIC 0x4ea94ea94ea94ea9ull

struct helem {
    uint64_t magic;
    int id, prio, heap, mark;
    uint64_t pad;
    struct cstl_heap_node hn;
    uint64_t tail;
    struct cstl_heap_node hn2;  /* second node member: a heap may be declared over either; swap exchanges offsets */
    uint64_t pad2;
};

/* every heap has a private pointer of its own that tells the comparison function which way round it orders (a
 * max-heap or a min-heap over the same priorities); the pointer belongs to the heap OBJECT and moves with it on swap */
struct hord { int dir; };
static struct hord hords[2];
struct mheap { int n; struct helem *e[MAXN]; int since_clear; struct hord *ord; int fsign; };
/* ... and a comparison function of its own: one of two different functions that order the opposite way. Function and private
 * pointer both belong to the heap object and both move with swap. */
#define DIR(h) (mh[h].ord->dir * mh[h].fsign)
#define EFF(h, e) (DIR(h) * (e)->prio)

static struct cstl_heap hp[2];
static struct mheap mh[2];
static int nh, prios, maxn, clear_frees, next_id, walk_epoch;
static struct helem *recycle[4]; static int nrecycle;
static unsigned maxreach;

static const char *prop_of(int h) { return (mh[h].since_clear >= 0 && mh[h].since_clear <= 3) ? "C15" : "C07"; }
static const char *ctx_of(int h)
{
    int n = mh[h].n;
    if (mh[h].since_clear >= 0 && mh[h].since_clear <= 3) return "after-clear";
    if (n == 0) return "empty";
    if ((n & (n - 1)) == 0) return "size-2^k";
    if (((n + 1) & n) == 0) return "size-2^k-1";
    return "size-other";
}

#define VIOL(h, oracle, ...) do { char _k[128]; \
        snprintf(_k, sizeof _k, "%s/%s/%s/%s", prop_of(h), oracle, h_opname(g_run.opkind), g_cur_ctx); \
        sim_violation(_k, __VA_ARGS__); } while (0)

/* element handles (see the trees world): what the caller hands to the library may be an address past the node members
 * ("negative" offsets) or 2^31 / 2^32 bytes before the structure (offsets just above 2^31 / 2^32). The huge-heap
 * batch keeps plain structure pointers. */
static size_t g_hnd;
#define HND(e) ((void *)((uintptr_t)(e) + g_hnd))
#define ELM(h) ((struct helem *)((uintptr_t)(h) - g_hnd))
#define ELMN(h) ((h) ? ELM(h) : NULL)
static int cmp_plainheap;       /* the huge-heap batch: handles are the structures themselves */

static int pl_calls;     /* bumped by the comparison function; read by a small setjmp-free function right after a library call */
static int cmp_prio(const void *a, const void *b, void *p)
{
    pl_calls++;
    const struct helem *x = cmp_plainheap ? a : ELM(a), *y = cmp_plainheap ? b : ELM(b); const struct hord *o = p;
    int d = o ? o->dir : 1;
    return sim_cmp(d * ((x->prio > y->prio) - (x->prio < y->prio)));
}
static int cmp_prio_rev(const void *a, const void *b, void *p) { return cmp_prio(b, a, p); }

static int hkind[2], cur_h;     /* node member each heap is declared over; heap being audited */
static size_t hoff(int kind) { return kind ? offsetof(struct helem, hn2) : offsetof(struct helem, hn); }
static struct helem *elem_of(const struct cstl_bintree_node *n)
{
    return (struct helem *)((char *)n - hoff(hkind[cur_h]) - offsetof(struct cstl_heap_node, bn));
}

static int a_count;

static void audit_node(int h, const struct cstl_bintree_node *n, const struct cstl_bintree_node *parent,
                       uint64_t pos, int depth)
{
    struct helem *e;
    if (n == NULL) return;
    if (depth > 40 || a_count > mh[h].n + 2) VIOL(h, "links_cycle", "heap %d: walk from the root does not terminate", h);
    e = elem_of(n);
    if (!simheap_is_live(e) || e->magic != MAGIC || e->tail != ~MAGIC)
        VIOL(h, "foreign_node", "heap %d: a reachable node is not a live element", h);
    if (e->heap != h) VIOL(h, "foreign_node", "heap %d: reachable element %d belongs to heap %d", h, e->id, e->heap);
    if (e->mark == walk_epoch) VIOL(h, "node_twice", "heap %d: element %d reachable twice", h, e->id);
    e->mark = walk_epoch;
    a_count++;
    if (pos > (uint64_t)mh[h].n)
        VIOL(h, "complete", "heap %d: a node sits at level-order slot %llu but the heap has %d elements (tree not complete)",
             h, (unsigned long long)pos, mh[h].n);
    if (n->p != parent) VIOL(h, "parent_link", "heap %d: parent link of element %d is wrong", h, e->id);
    if (parent && EFF(h, elem_of(parent)) < EFF(h, e))
        VIOL(h, "heap_order", "heap %d: element %d (prio %d) is above its parent (prio %d)", h, e->id, e->prio, elem_of(parent)->prio);
    audit_node(h, n->l, n, pos * 2, depth + 1);
    audit_node(h, n->r, n, pos * 2 + 1, depth + 1);
}

static void audit_heap(int h)
{
    struct mheap *m = &mh[h];
    int i; uint64_t sh = 0x4e;
    static const void *g;
    if (cstl_heap_size(&hp[h]) != (size_t)m->n)
        VIOL(h, "size", "heap %d reports size %zu, reference has %d", h, cstl_heap_size(&hp[h]), m->n);
    walk_epoch++; a_count = 0; cur_h = h;
    audit_node(h, hp[h].bt.root, NULL, 1, 0);
    if (a_count != m->n) VIOL(h, "reachable_count", "heap %d: %d nodes reachable, reference has %d", h, a_count, m->n);
    for (i = 0; i < m->n; i++)
        if (m->e[i]->mark != walk_epoch) VIOL(h, "lost_element", "heap %d: element %d is held but not reachable", h, m->e[i]->id);
    TRY(g = cstl_heap_get(&hp[h])); g = ELMN(g);
    if (g_aborted) VIOL(h, "abort", "get aborted");
    if (m->n == 0) { if (g != NULL) VIOL(h, "get_empty", "heap %d: get on an empty heap returned non-NULL", h); }
    else {
        int mx = EFF(h, m->e[0]);
        const struct helem *ge = g;
        for (i = 1; i < m->n; i++) if (EFF(h, m->e[i]) > mx) mx = EFF(h, m->e[i]);
        for (i = 0; i < m->n; i++) if (m->e[i] == ge) break;
        if (i == m->n) VIOL(h, "get_foreign", "heap %d: get returned a pointer that is not a held element", h);
        if (EFF(h, ge) != mx) VIOL(h, "get_max", "heap %d: get returned priority %d, the %s is %d", h, ge->prio, DIR(h) > 0 ? "maximum" : "minimum (this heap orders the other way round)", mx * DIR(h));
    }
    sh = fnv1a(sh, (uint64_t)m->n);
    if (m->n <= 16) {
        /* level order priorities = exact abstract state */
        const struct cstl_bintree_node *q[32]; int qh = 0, qt = 0;
        if (hp[h].bt.root) q[qt++] = hp[h].bt.root;
        while (qh < qt && qt < 30) {
            const struct cstl_bintree_node *n = q[qh++];
            sh = fnv1a(sh, (uint64_t)elem_of(n)->prio);
            if (n->l) q[qt++] = n->l; if (n->r) q[qt++] = n->r;
        }
    }
    state_note(sh);
    if ((unsigned)m->n > maxreach) maxreach = (unsigned)m->n;
}

static int clr_id[MAXN + 8], nclr, pre_ids[MAXN];

static int plain_count;          /* see the lists world */
static void clear_cb(void *obj, void *priv);
static int heap_clear_plain(struct cstl_heap *h) { plain_count = 0; g_inlib = 1; cstl_heap_clear(h, clear_cb); g_inlib = 0; return plain_count; }

static void clear_cb(void *obj, void *priv)
{
    CB_ENTER();
    struct helem *e = ELM(obj);
    plain_count++;
    int id = -1;
    (void)priv;
    if (simheap_is_live(e) && e->magic == MAGIC && e->tail == ~MAGIC) id = e->id;
    if (nclr < MAXN + 8) clr_id[nclr] = id;
    nclr++;
    if (id >= 0 && clear_frees) { memset(e, 0xDD, sizeof *e); simheap_free(e); }
    CB_LEAVE();
}

static void tick(int h) { if (mh[h].since_clear >= 0 && mh[h].since_clear < 100) mh[h].since_clear++; }

/* very large heaps: slot navigation from the size alone (find-last-set, bit walks) has size-dependent paths that only
 * show beyond 2^8 / 2^16 elements. Push n, pop half, push a quarter, pop everything; every pop must be a maximum. */
static uint64_t huge_walk(const struct cstl_bintree_node *n, const struct cstl_bintree_node *parent, uint64_t pos, uint64_t size, int depth, struct helem *pool, size_t np)
{
    struct helem *e;
    if (n == NULL) return 0;
    if (depth > 40 || pos > size) VIOL(0, "complete", "huge heap: a node sits at level-order slot %llu of %llu (tree not complete)", (unsigned long long)pos, (unsigned long long)size);
    e = (struct helem *)((char *)n - hoff(0) - offsetof(struct cstl_heap_node, bn));
    if (e < pool || e >= pool + np) VIOL(0, "foreign_node", "huge heap: a reachable node is not an element");
    if (n->p != parent) VIOL(0, "parent_link", "huge heap: a parent link is wrong");
    if (parent && ((struct helem *)((char *)parent - hoff(0) - offsetof(struct cstl_heap_node, bn)))->prio < e->prio) VIOL(0, "heap_order", "huge heap: a child is above its parent");
    return 1 + huge_walk(n->l, n, pos * 2, size, depth + 1, pool, np) + huge_walk(n->r, n, pos * 2 + 1, size, depth + 1, pool, np);
}

/* giant heaps (thorough tier): 2^24 ... 2^26 compact elements. Whatever depends only on the COUNT (slot navigation from the bits
 * of the size) first goes wrong at some 2^k - 1, 2^k or 2^k + 1; around each of them up to the top size the maximum is popped,
 * checked, and pushed back (it sifts up to the root again). */
struct gh_elem { struct cstl_heap_node hn; int prio, id; };
static int gh_cmp(const void *a, const void *b, void *p) { (void)p; return (((const struct gh_elem *)a)->prio > ((const struct gh_elem *)b)->prio) - (((const struct gh_elem *)a)->prio < ((const struct gh_elem *)b)->prio); }
static size_t gh_cleared;
static void gh_clr(void *e, void *p) { (void)e; (void)p; gh_cleared++; }
static void giant_heap(uint64_t sel)
{
    static const unsigned tops[] = { 25, 26, 24 };
    unsigned top = tops[sel % 3]; size_t N = ((size_t)1 << top) + 2, i; int asc = (int)(sel / 3 % 2);
    struct gh_elem *pool = malloc(N * sizeof *pool);
    static struct cstl_heap gh; static void *ret; static const void *gret;
    if (!pool) sim_harness_bug("heap: no memory for a giant heap");
    sim_watchdog(1500);
    g_cur_prop = "C07"; g_cur_ctx = "giant-heap";
    memset(&gh, 0x5b, sizeof gh);
    cstl_heap_init(&gh, gh_cmp, NULL, offsetof(struct gh_elem, hn));
    for (i = 0; i < N; i++) {
        size_t n = i + 1, k;
        /* descending priorities (no sift-up: the first element stays the maximum) or, for the smallest top size, ascending ones */
        pool[i].prio = asc && top == 24 ? (int)i : (int)(N - i); pool[i].id = (int)i;
        g_inlib = 1; cstl_heap_push(&gh, &pool[i]); g_inlib = 0;
        for (k = 20; k <= top; k++) if (n + 1 >= ((size_t)1 << k) && n <= ((size_t)1 << k) + 1) break;
        if (k <= top) {
            /* n is 2^k - 1, 2^k or 2^k + 1 */
            int mx = asc && top == 24 ? (int)i : (int)N;
            TRY(gret = cstl_heap_get(&gh));
            if (gret == NULL || ((const struct gh_elem *)gret)->prio != mx) VIOL(0, "get_max", "giant heap of %zu elements: get does not return the maximum", n);
            TRY(ret = cstl_heap_pop(&gh));
            if (g_aborted) VIOL(0, g_aborted == 2 ? "assert" : "abort", "giant heap of %zu elements: pop aborted", n);
            if (ret == NULL || ((struct gh_elem *)ret)->prio != mx) VIOL(0, "pop_max", "giant heap of %zu elements: pop does not return the maximum", n);
            if (cstl_heap_size(&gh) != n - 1) VIOL(0, "size", "giant heap: size %zu after popping from %zu", cstl_heap_size(&gh), n);
            TRY(cstl_heap_push(&gh, ret));
            if (g_aborted) VIOL(0, g_aborted == 2 ? "assert" : "abort", "giant heap of %zu elements: push aborted", n - 1);
            if (cstl_heap_size(&gh) != n) VIOL(0, "size", "giant heap: size %zu after pushing onto %zu", cstl_heap_size(&gh), n - 1);
        }
    }
    /* a few dozen pops at the top size: non-increasing */
    { int prev = INT_MAX; for (i = 0; i < 40; i++) { TRY(ret = cstl_heap_pop(&gh)); if (ret == NULL || ((struct gh_elem *)ret)->prio > prev) VIOL(0, "pop_max", "giant heap: pop %zu at the top size is out of order", i); prev = ((struct gh_elem *)ret)->prio; } }
    g_cur_prop = "C15"; gh_cleared = 0;
    TRY(cstl_heap_clear(&gh, gh_clr));
    if (gh_cleared != N - 40) VIOL(0, "clear_count", "clear of a giant heap of %zu elements called back %zu times", N - 40, gh_cleared);
    free(pool);
    PROBE("giant_heap_2^24"); if (top >= 25) PROBE("giant_heap_2^25"); if (top >= 26) PROBE("giant_heap_2^26");
    EVT("giant_heap", top, asc, 0);
    if (N > maxreach) maxreach = (unsigned)N;
    g_run.nontrivial = 1;
}

static void huge_heap(uint64_t nsel, uint64_t seed)
{
    static const size_t bases[] = { 255, 256, 257, 4095, 4097, 65535, 65536, 65537, 70000, 131073, 262147, 393300, 524290,
                                    2097160 /* 2^21+8 */, 4194310 /* 2^22+6 */ };
    size_t n = bases[nsel >> 60 == 15 ? 13 + (nsel & 1) : nsel % 13], extra = n / 4, np = n + extra, i, live = 0, pushed = 0;
    struct helem *pool = malloc(np * sizeof *pool);
    uint64_t x = seed; int prev; static void *ret;
    int phase;
    if (!pool) sim_harness_bug("heap: no memory for a huge heap");
    hkind[0] = 0; cur_h = 0;
    cmp_plainheap = 1;
    cstl_heap_init(&hp[0], cmp_prio, NULL, hoff(0));
    g_cur_ctx = n > 2000000 ? "size-above-2^21" : n > 60000 ? "size-above-2^16" : n > 4000 ? "size-above-2^12" : "size-above-2^8";
    if (n > 2000000) { sim_watchdog(100); PROBE("huge_heap_2^21"); }
    for (phase = 0; phase < 4; phase++) {
        size_t cnt = phase == 0 ? n : phase == 1 ? n / 2 : phase == 2 ? extra : live;
        if (n > 2000000 && phase > 0) cnt = 5000;     /* the giants only work around their size: emptying them would take a minute */
        prev = 1 << 30;
        for (i = 0; i < cnt; i++) {
            if (phase == 0 || phase == 2) {
                struct helem *e = &pool[pushed++];
                e->magic = MAGIC; e->tail = ~MAGIC; e->id = 0; e->heap = 0; e->mark = 0; e->prio = (int)(splitmix64(&x) % 5000);
                g_inlib = 1; cstl_heap_push(&hp[0], e); g_inlib = 0;
                live++;
            } else {
                struct helem *e;
                TRY(ret = cstl_heap_pop(&hp[0]));
                if (g_aborted) VIOL(0, g_aborted == 2 ? "assert" : "abort", "pop on a heap of %zu aborted", live);
                e = ret;
                if (e == NULL || e < pool || e >= pool + np || e->id != 0) VIOL(0, "pop_foreign", "pop on a heap of %zu returned NULL, a foreign pointer or an element twice", live);
                e->id = 1;
                if (e->prio > prev) VIOL(0, "pop_max", "pop on a heap of %zu returned priority %d after %d: an earlier pop was not a maximum", live, e->prio, prev);
                prev = e->prio; live--;
            }
        }
        if (cstl_heap_size(&hp[0]) != live) VIOL(0, "size", "huge heap reports size %zu, reference has %zu", cstl_heap_size(&hp[0]), live);
        if (huge_walk(hp[0].bt.root, NULL, 1, live, 0, pool, np) != live) VIOL(0, "reachable_count", "huge heap: reachable nodes do not match size %zu", live);
    }
    if (n <= 2000000) {
        TRY(ret = cstl_heap_pop(&hp[0]));
        if (ret != NULL) VIOL(0, "pop_empty", "pop on the emptied huge heap returned non-NULL");
    }
    free(pool);
    PROBE(n > 60000 ? "huge_heap_2^16" : "huge_heap");
    EVT("huge", n, 0, 0);
    if (n > maxreach) maxreach = (unsigned)n;
}

/* ... and about what a function returns: the pointer that pop / get hand back IS the caller's element, an object the caller can
 * also name directly (an attribute such as malloc or alloc_size on the prototype says otherwise). A file-scope element goes in as
 * the top, comes back, is written through the returned pointer and read through its own name. */
static struct helem pl_top;
/* (one function per library call: a returned pointer that may come from either of two calls hides what is claimed about one) */
static __attribute__((noinline)) int pop_alias_plain(struct cstl_heap *hp_, size_t hnd)
{
    struct helem *got; void *r; int before, after;
    pl_top.mark = 1;
    g_inlib = 1;
    cstl_heap_push(hp_, (char *)&pl_top + hnd);
    r = cstl_heap_pop(hp_);
    g_inlib = 0;
    if (r == NULL) return -1;
    got = (struct helem *)((char *)r - hnd);
    before = pl_top.mark;               /* read, write through the returned pointer, read again: */
    got->mark = before + 1;             /* an optimiser told that the two cannot alias re-uses the first read */
    after = pl_top.mark;
    return after;
}
static __attribute__((noinline)) int get_alias_plain(struct cstl_heap *hp_, size_t hnd)
{
    struct helem *got; const void *r; int before, after;
    pl_top.mark = 1;
    g_inlib = 1;
    cstl_heap_push(hp_, (char *)&pl_top + hnd);
    r = cstl_heap_get(hp_);
    if (r == NULL) { g_inlib = 0; return -1; }
    got = (struct helem *)((char *)(uintptr_t)r - hnd);
    before = pl_top.mark;
    got->mark = before + 1;
    after = pl_top.mark;
    (void)cstl_heap_pop(hp_);
    g_inlib = 0;
    return after;
}
static int push_plain(struct cstl_heap *hp_, void *e) { pl_calls = 0; g_inlib = 1; cstl_heap_push(hp_, e); g_inlib = 0; return pl_calls; }

static void h_exec(const plan_t *p)
{
    struct simheap_cfg hc = { RP_MOVE, 0, (unsigned char)p->cfg[CF_JUNK] };
    int i, k;

    simheap_reset(&hc, p->cfg[CF_JUNK]);
    simheap_far((int)p->cfg[CF_FAR]);
    simheap_far_nodeoff(hoff((int)(p->cfg[CF_CLEARFREES] >> 4 & 1)));      /* (mode 3: the node member of heap 0's kind) */
    nh = (int)p->cfg[CF_NH]; if (nh < 1) nh = 1; if (nh > 2) nh = 2;
    prios = (int)p->cfg[CF_PRIOS]; if (prios < 1) prios = 1;
    maxn = (int)p->cfg[CF_MAXN]; if (maxn < 1) maxn = 4; if (maxn > MAXN - 8) maxn = MAXN - 8;
    clear_frees = (int)(p->cfg[CF_CLEARFREES] & 1);
    next_id = 0; maxreach = 0; nrecycle = 0; cmp_plainheap = 0;
    switch (p->cfg[CF_CLEARFREES] >> 12 & 7) {
    default: g_hnd = 0; break;
    case 1: case 2: g_hnd = sizeof(struct helem); PROBE("handles_past_the_node_members"); break;
    case 3: g_hnd = (size_t)0 - (((size_t)1 << 31) + 24); PROBE("handles_2^31_before_the_node_members"); break;
    case 4: g_hnd = (size_t)0 - (((size_t)1 << 32) + 24); PROBE("handles_2^32_before_the_node_members"); break;
    }
    memset(hp, (int)(unsigned char)p->cfg[CF_JUNK], sizeof hp);
    for (i = 0; i < 2; i++) {
        hkind[i] = (int)(p->cfg[CF_CLEARFREES] >> (4 + i) & 1);
        hords[i].dir = (p->cfg[CF_CLEARFREES] >> (8 + i) & 1) ? -1 : 1;
        mh[i].ord = &hords[i];
        mh[i].fsign = (p->cfg[CF_CLEARFREES] >> (16 + i) & 1) ? -1 : 1;
        if (mh[i].fsign < 0) PROBE("heap_with_the_other_comparison_function");
        if (p->cfg[CF_DECL] && g_hnd == 0) {
            /* the documented other way to get an empty heap: the initializer macros, with expressions as arguments */
            if (hkind[i]) { DECLARE_CSTL_HEAP(t, struct helem, hn2, mh[i].fsign > 0 ? cmp_prio : &cmp_prio_rev, hords + i); hp[i] = t; }
            else hp[i] = (struct cstl_heap)CSTL_HEAP_INITIALIZER(struct helem, hn, mh[i].fsign < 0 ? &cmp_prio_rev : cmp_prio, hords + i);
            PROBE("from_initializer_macro");
        } else
        cstl_heap_init(&hp[i], mh[i].fsign > 0 ? cmp_prio : cmp_prio_rev, &hords[i], hoff(hkind[i]) - g_hnd);
        mh[i].n = 0; mh[i].since_clear = -1;
    }

    for (k = 0; k < p->nops; k++) {
        const op_t *o = &p->ops[k];
        int h = (int)(o->a[0] % (uint64_t)nh);
        struct mheap *m = &mh[h];
        static struct helem *e; static void *ret;
        g_run.step = k; g_run.opkind = o->kind; g_run.steps++;
        g_cur_prop = prop_of(h); g_cur_ctx = ctx_of(h);
        if (o->kind == H_GIANT) { giant_heap(o->a[1]); continue; }
        if (o->kind == H_HUGE) {
            g_cur_prop = "C07";
            huge_heap(o->a[1], o->a[2]);
            hkind[0] = (int)(p->cfg[CF_CLEARFREES] >> 4 & 1);
            cmp_plainheap = 0;
            cstl_heap_init(&hp[0], mh[0].fsign > 0 ? cmp_prio : cmp_prio_rev, mh[0].ord, hoff(hkind[0]) - g_hnd);
            continue;
        }

        if (o->kind == H_CHURN) {
            /* the n-th repetition: a transient element that beats every other is pushed and popped 254 ... 65 536 times */
            static const unsigned reps[] = { 254, 255, 256, 65534, 65535, 65536 };
            static struct helem tr; unsigned n = reps[o->a[2] % 6], q; void *got = NULL;
            tr.magic = MAGIC; tr.tail = ~MAGIC; tr.id = -7; tr.prio = DIR(h) > 0 ? 1 << 20 : -(1 << 20);
            g_cur_ctx = n > 60000 ? "churn-2^16" : "churn-2^8";
            g_inlib = 1;
            for (q = 0; q < n; q++) { cstl_heap_push(&hp[h], HND(&tr)); got = cstl_heap_pop(&hp[h]); if (got != HND(&tr)) break; }
            g_inlib = 0;
            if (q != n) VIOL(h, "churn", "repetition %u of push/pop of a transient top element returned another element", q);
            PROBE(n > 60000 ? "churn_2^16" : "churn_2^8");
            EVT("churn", h, n, 0);
            g_cur_ctx = ctx_of(h);
            audit_heap(h);
            continue;
        }
        switch (o->kind) {
        case H_PUSH:
            if (m->n >= maxn) goto do_pop;
            if (nrecycle > 0 && (o->a[2] & 1)) {
                /* the same element object goes back in (a popped element is the caller's again: callers re-use them) */
                e = recycle[--nrecycle];
                PROBE("push_recycled_element");
            } else
            e = simheap_alloc(sizeof *e, TAG_ELEM);
            e->magic = MAGIC; e->tail = ~MAGIC; e->id = next_id++; e->heap = h; e->mark = 0;
            e->prio = (int)(o->a[1] % (uint64_t)prios);
            if (k % 4 == 1) {
                int seen = push_plain(&hp[h], HND(e));
                if (m->n >= 1 && seen < 1) VIOL(h, "callback_effects_invisible", "push onto %d elements: the caller's own counter, written by the comparison function and read right after the call in an optimised function, says %d", m->n, seen);
                PROBE("callback_counted_in_plain_function");
            } else
            TRY(cstl_heap_push(&hp[h], HND(e)));
            if (g_aborted) VIOL(h, g_aborted == 2 ? "assert" : "abort", "push aborted");
            m->e[m->n++] = e;
            if ((m->n & (m->n - 1)) == 0) PROBE("push_to_2^k");
            if (m->n == 256 || m->n == 512) PROBE("heap_reached_256");
            EVT("push", h, e->id, e->prio);
            break;
        case H_POP: do_pop:
            TRY(ret = cstl_heap_pop(&hp[h])); ret = ELMN(ret);
            if (g_aborted) VIOL(h, g_aborted == 2 ? "assert" : "abort", "pop aborted");
            if (m->n == 0) {
                PROBE("pop_empty");
                if (ret != NULL) VIOL(h, "pop_empty", "pop on an empty heap returned non-NULL");
            } else {
                int mx = EFF(h, m->e[0]);
                for (i = 1; i < m->n; i++) if (EFF(h, m->e[i]) > mx) mx = EFF(h, m->e[i]);
                for (i = 0; i < m->n; i++) if (m->e[i] == ret) break;
                if (ret == NULL) VIOL(h, "pop_null", "pop returned NULL on a heap of %d", m->n);
                if (i == m->n) VIOL(h, "pop_foreign", "pop returned a pointer that is not a held element");
                e = m->e[i];
                if (EFF(h, e) != mx) VIOL(h, "pop_max", "pop returned priority %d, the %s is %d", e->prio, DIR(h) > 0 ? "maximum" : "minimum (this heap orders the other way round)", mx * DIR(h));
                if ((m->n & (m->n - 1)) == 0) PROBE("pop_from_2^k");
                m->e[i] = m->e[--m->n];
                EVT("pop", h, e->id, e->prio);
                e->heap = -1;
                if (nrecycle < 4 && (o->a[2] & 2)) {
                    /* kept by the caller for re-use; the node members are the caller's to scribble on meanwhile */
                    memset(&e->hn, 0xA5, sizeof e->hn); memset(&e->hn2, 0xA5, sizeof e->hn2);
                    recycle[nrecycle++] = e;
                } else
                simheap_free(e);
            }
            break;
        case H_GET:
            if (k % 2 == 1 && m->n + 1 < MAXN) {
                int seen;
                pl_top.magic = MAGIC; pl_top.tail = ~MAGIC; pl_top.id = -8; pl_top.heap = h; pl_top.prio = DIR(h) > 0 ? 1 << 21 : -(1 << 21);
                seen = (k / 2 % 2) ? get_alias_plain(&hp[h], g_hnd) : pop_alias_plain(&hp[h], g_hnd);
                if (seen != 2) VIOL(h, "returned_pointer_is_not_the_element", "a value written through the pointer that %s returned is not seen through the element's own name in an optimised caller (%d)", (k / 2 % 2) ? "get" : "pop", seen);
                PROBE("returned_pointer_written_through");
            }
            EVT("get", h, 0, 0);       /* checked in the audit */
            break;
        case H_CLEAR: {
            int npre = m->n, j;
            static unsigned char used[MAXN];
            for (i = 0; i < npre; i++) pre_ids[i] = m->e[i]->id;
            nclr = 0; m->since_clear = 0; g_cur_prop = "C15"; g_cur_ctx = "after-clear";
            if (o->a[1] & 1) {
                int seen = heap_clear_plain(&hp[h]);
                if (seen != npre) VIOL(h, "callback_effects_invisible", "clear of %d elements: the caller's own counter, written by the callback and read right after the call in an optimised function, says %d", npre, seen);
                PROBE("clear_in_plain_function");
            } else
            TRY(cstl_heap_clear(&hp[h], clear_cb));
            m->n = 0;
            if (g_aborted) VIOL(h, "abort", "clear aborted");
            if (nclr != npre) VIOL(h, "clear_count", "clear called back %d times for %d elements", nclr, npre);
            memset(used, 0, (size_t)npre + 1);
            for (i = 0; i < nclr; i++) {
                if (clr_id[i] < 0) VIOL(h, "clear_foreign", "clear handed over something that is not a live element (call %d)", i);
                for (j = 0; j < npre; j++) if (!used[j] && pre_ids[j] == clr_id[i]) { used[j] = 1; break; }
                if (j == npre) VIOL(h, "clear_multiset", "clear handed over an element not in the heap, or twice (call %d)", i);
            }
            if (!clear_frees) for (i = 0; i < npre; i++) { m->e[i]->heap = -1; simheap_free(m->e[i]); }
            PROBE("clear"); if (npre == 0) PROBE("clear_empty");
            EVT("clear", h, nclr, 0);
            break;
        }
        case H_SWAP: {
            static struct helem *tmp[MAXN]; int n, sc, j, u = 1 - h;
            if (o->a[1] % 16 == 5) {
                TRY(cstl_heap_swap(&hp[h], &hp[h]));
                if (g_aborted) VIOL(h, "abort", "swap aborted");
                PROBE("self_swap"); EVT("swap_self", h, 0, 0);
                break;
            }
            if (nh < 2) { EVT("skip", 0, 0, 0); break; }
            TRY(cstl_heap_swap(&hp[h], &hp[u]));
            if (g_aborted) VIOL(h, "abort", "swap aborted");
            { struct hord *to = m->ord; int fs = m->fsign; m->ord = mh[u].ord; mh[u].ord = to; m->fsign = mh[u].fsign; mh[u].fsign = fs;
              if (m->ord->dir != mh[u].ord->dir) PROBE("swap_heaps_that_order_differently"); if (m->fsign != mh[u].fsign) PROBE("swap_heaps_with_different_comparison_functions"); }
            memcpy(tmp, m->e, sizeof(m->e[0]) * (size_t)m->n); n = m->n; sc = m->since_clear;
            memcpy(m->e, mh[u].e, sizeof(m->e[0]) * (size_t)mh[u].n); m->n = mh[u].n; m->since_clear = mh[u].since_clear;
            memcpy(mh[u].e, tmp, sizeof(m->e[0]) * (size_t)n); mh[u].n = n; mh[u].since_clear = sc;
            for (j = 0; j < m->n; j++) m->e[j]->heap = h;
            for (j = 0; j < mh[u].n; j++) mh[u].e[j]->heap = u;
            j = hkind[h]; hkind[h] = hkind[u]; hkind[u] = j;
            if (hkind[h] != hkind[u]) PROBE("swap_different_offsets");
            PROBE("swap"); EVT("swap", h, u, 0);
            g_cur_prop = prop_of(u); g_cur_ctx = ctx_of(u);
            audit_heap(u); tick(u);
            break;
        }
        default: EVT("skip", 0, 0, 0);
        }
        g_cur_prop = prop_of(h); g_cur_ctx = ctx_of(h);
        audit_heap(h);
        if (o->kind != H_CLEAR) tick(h);
        if ((k & 31) == 31 || k == p->nops - 1) simheap_audit(prop_of(h), "heap");
    }
    if (simheap_live_count(TAG_ELEM) != (unsigned)(mh[0].n + mh[1].n + nrecycle)) sim_harness_bug("heap: element accounting broken");
    if (simheap_live_count(TAG_LIB) != 0) sim_violation("C07/heap/unexpected_alloc", "heap code allocated memory");
    g_run.nontrivial = maxreach >= 3;
}

static void h_gen(prng_t *r, int mode, plan_t *p)
{
    p->cfg[CF_FAR] = FAR_OF_INDEX();      /* element blocks 2^32 or 3 * 2^31 bytes apart in one run in seven each */
    p->cfg[CF_DECL] = DECL_OF_INDEX();    /* one run in five starts from the initializer macros */
    p->cfg[CF_REUSE] = REUSE_OF_INDEX();  /* one run in six: the allocator hands a freed block out again at once */
    int longrun = prng_chance(r, 1, 10), small = !longrun && prng_chance(r, 1, 5);
    int nops = longrun ? 600 + (int)prng_below(r, 1800) : small ? 2 + (int)prng_below(r, 8) : 10 + (int)prng_below(r, 70);
    unsigned w_clear = mode == 15 ? 10 : 1;
    unsigned push_w;
    if (mode == 109) {
        op_t *o = plan_add(p, H_GIANT);
        p->cfg[CF_NH] = 1; p->cfg[CF_PRIOS] = 1; p->cfg[CF_JUNK] = 1; p->cfg[CF_MAXN] = 4;
        o->a[1] = g_gen_index;
        return;
    }
    if (mode == 107 || mode == 108) {
        op_t *o = plan_add(p, H_HUGE);
        p->cfg[CF_NH] = 1; p->cfg[CF_PRIOS] = 1; p->cfg[CF_JUNK] = 1 + prng_below(r, 254); p->cfg[CF_MAXN] = 4;
        o->a[1] = prng_next(r) >> 4; o->a[2] = prng_next(r);
        if (mode == 108) o->a[1] = ((uint64_t)15 << 60) | (g_gen_index & 1);      /* the two heaps of more than 2^21 / 2^22 elements, in turn */
        return;
    }
    push_w = longrun ? 55 + (unsigned)prng_below(r, 25) : 35 + (unsigned)prng_below(r, 30);    /* per-run push/pop balance */
    int i;
    p->cfg[CF_NH] = 1 + prng_below(r, 2);
    p->cfg[CF_PRIOS] = small ? 1 + prng_below(r, 3) : 1 + prng_below(r, 40);
    p->cfg[CF_JUNK] = 1 + prng_below(r, 254);
    p->cfg[CF_MAXN] = longrun ? 200 + prng_below(r, 850) : small ? 2 + prng_below(r, 6) : 4 + prng_below(r, 60);
    p->cfg[CF_CLEARFREES] = (mode == 15 ? 1 : prng_below(r, 2)) | (prng_chance(r, 1, 3) ? prng_below(r, 4) << 4 : 0) | (prng_chance(r, 1, 2) ? prng_below(r, 4) << 8 : 0) | (prng_chance(r, 1, 3) ? prng_below(r, 8) << 12 : 0);
    p->cfg[CF_CLEARFREES] |= (uint64_t)((g_gen_index / 3) & 3) << 16;      /* which of the two comparison functions each heap gets */
    for (i = 0; i < nops; i++) {
        unsigned x = (unsigned)prng_below(r, 100 + w_clear);
        int kind = x < push_w ? H_PUSH : x < 90 ? H_POP : x < 94 ? H_GET : x < 100 ? H_SWAP : H_CLEAR;
        if (kind == H_GET && prng_chance(r, 1, 40)) kind = H_CHURN;
        op_t *o = plan_add(p, kind);
        o->a[0] = prng_below(r, 2);
        o->a[1] = prng_below(r, 4096);
        o->a[2] = prng_below(r, 4);           /* bit 0: push a recycled element if there is one; bit 1: keep the popped element for re-use */
        if (kind == H_CLEAR && prng_chance(r, 3, 4)) {
            int j, nf = 1 + (int)prng_below(r, 5);
            for (j = 0; j < nf; j++) { op_t *q = plan_add(p, H_PUSH); q->a[0] = o->a[0]; q->a[1] = prng_below(r, 4096); }
        }
    }
}

static const char *h_crash_prop(const plan_t *p, int opkind) { (void)p; (void)opkind; return g_cur_prop; }

const world_t world_heap = { "heap", h_gen, h_exec, h_opname, h_crash_prop };
