/*
 * World "lists": cstl_dlist (C12), cstl_slist (C13), clear with a freeing
 * callback (C15) -- seeded histories against reference sequences, inside the
 * sim heap (removed/cleared elements are poisoned and quarantined at once).
 *
 * mode 12: dlist ops only; mode 13: slist ops only; mode 15: both, clear-heavy.
 */
#include "../core/sim.h"

#include "cstl/dlist.h"
#include "cstl/slist.h"

#include <string.h>
#include <stdlib.h>
#include <limits.h>
/* a visit function stops a traversal with "a non-zero value": any of them, which the traversal must hand back unchanged */
static const int stopvals[12] = { -3, -2, -1, 11, 1, 2, 3, 256, 65536, -65536, INT_MIN, INT_MAX };

enum {
    D_PUSH_FRONT = 1, D_PUSH_BACK, D_POP_FRONT, D_POP_BACK, D_INSERT, D_ERASE,
    D_REVERSE, D_SORT, D_CONCAT, D_SWAP, D_FIND, D_FOREACH, D_CLEAR,
    S_PUSH_FRONT = 20, S_PUSH_BACK, S_POP_FRONT, S_INSERT_AFTER, S_ERASE_AFTER,
    S_REVERSE, S_SORT, S_CONCAT, S_SWAP, S_FOREACH, S_CLEAR,
    D_HUGE_SORT = 40, S_HUGE_SORT, D_CHURN, S_CHURN, D_GIANT_SORT, S_GIANT_SORT,
};

static const char *l_opname(int k)
{
    switch (k) {
    case D_PUSH_FRONT: return "d_push_front"; case D_PUSH_BACK: return "d_push_back";
    case D_POP_FRONT: return "d_pop_front"; case D_POP_BACK: return "d_pop_back";
    case D_INSERT: return "d_insert"; case D_ERASE: return "d_erase";
    case D_REVERSE: return "d_reverse"; case D_SORT: return "d_sort";
    case D_CONCAT: return "d_concat"; case D_SWAP: return "d_swap";
    case D_FIND: return "d_find"; case D_FOREACH: return "d_foreach"; case D_CLEAR: return "d_clear";
    case S_PUSH_FRONT: return "s_push_front"; case S_PUSH_BACK: return "s_push_back";
    case S_POP_FRONT: return "s_pop_front"; case S_INSERT_AFTER: return "s_insert_after";
    case S_ERASE_AFTER: return "s_erase_after"; case S_REVERSE: return "s_reverse";
    case S_SORT: return "s_sort"; case S_CONCAT: return "s_concat"; case S_SWAP: return "s_swap";
    case S_FOREACH: return "s_foreach"; case S_CLEAR: return "s_clear";
    case D_HUGE_SORT: return "d_huge_sort"; case S_HUGE_SORT: return "s_huge_sort"; case D_GIANT_SORT: return "d_giant_sort"; case S_GIANT_SORT: return "s_giant_sort";
    case D_CHURN: return "d_churn"; case S_CHURN: return "s_churn";
    }
    return "?";
}

/* cfg indices */
enum { CF_ND, CF_NS, CF_KEYS, CF_JUNK, CF_MAXLEN, CF_CLEARFREES, CF_LONG, CF_HET };

#define MAXL 3
#define MAXLEN 1200

struct lelem {
    uint64_t magic;
    int id, key;
    struct cstl_dlist_node dn;
    uint64_t pad;
    struct cstl_slist_node sn;
    uint64_t tail;
    /* second set of link members at other offsets: a list may be declared over either member, and
     * swap exchanges whole list objects, offsets included */
    struct cstl_dlist_node dn2;
    uint64_t pad2;
    struct cstl_slist_node sn2;
    int mark2;
};
#define MAGIC 0x11e1e111e1e111e1ull

struct mlist {                  /* model */
    int n;
    int kind;                   /* which link member this list object is currently declared over (moves with swap) */
    struct lelem *e[MAXLEN];
    int since_clear;            /* ops on this list since the last clear (-1: never) */
};

static struct cstl_dlist dl[MAXL];
static struct cstl_slist sl[MAXL];
static struct mlist md[MAXL], ms[MAXL];
static int nd, ns, maxlen, keys, clear_frees;
static int next_id;
static unsigned maxreach;

static size_t doff(int kind) { return kind ? offsetof(struct lelem, dn2) : offsetof(struct lelem, dn); }
static size_t soff(int kind) { return kind ? offsetof(struct lelem, sn2) : offsetof(struct lelem, sn); }
static struct cstl_dlist_node *dnode(struct lelem *e, int kind) { return (struct cstl_dlist_node *)((char *)e + doff(kind)); }
static struct cstl_slist_node *snode(struct lelem *e, int kind) { return (struct cstl_slist_node *)((char *)e + soff(kind)); }

static const char *ctx_of(const struct mlist *m)
{
    if (m->since_clear >= 0 && m->since_clear <= 3) return "after-clear";
    switch (m->n) {
    case 0: return "len0"; case 1: return "len1"; case 2: return "len2"; case 3: return "len3";
    case 4: return "len4"; case 5: return "len5";
    }
    return (m->n & 1) ? "len-odd" : "len-even";
}

/* property to blame for a failed check on list m of kind d/s */
static const char *prop_of(const struct mlist *m, int is_d)
{
    if (m->since_clear >= 0 && m->since_clear <= 3) return "C15";
    return is_d ? "C12" : "C13";
}

#define VIOL(m, is_d, oracle, ...) do { char _k[128]; \
        snprintf(_k, sizeof _k, "%s/%s/%s/%s", prop_of(m, is_d), oracle, l_opname(g_run.opkind), g_cur_ctx); \
        sim_violation(_k, __VA_ARGS__); } while (0)

/* removed elements are the caller's again: one in four is kept (its link members scribbled on) and goes back into a
 * list later - the same object, the same address */
static struct lelem *recycle[4]; static int nrecycle; static unsigned recycle_tick;
static struct lelem *new_elem(int key)
{
    struct lelem *e;
    recycle_tick = recycle_tick * 1103515245u + 12345u;
    if (nrecycle > 0 && (recycle_tick >> 16 & 1)) { e = recycle[--nrecycle]; PROBE("recycled_element_inserted"); }
    else e = simheap_alloc(sizeof *e, TAG_ELEM);
    e->magic = MAGIC;
    e->id = next_id++;
    e->key = key;
    e->tail = ~MAGIC;
    return e;
}

static void drop_elem(struct lelem *e)
{
    recycle_tick = recycle_tick * 1103515245u + 12345u;
    if (nrecycle < 4 && (recycle_tick >> 16 & 3) == 0) {
        memset(&e->dn, 0xA5, sizeof e->dn); memset(&e->dn2, 0xA5, sizeof e->dn2);
        memset(&e->sn, 0xA5, sizeof e->sn); memset(&e->sn2, 0xA5, sizeof e->sn2);
        recycle[nrecycle++] = e;
        return;
    }
    simheap_free(e);            /* poisons: any later touch by the library is visible */
}

static int cmp_plain(const void *a, const void *b, void *p)
{
    const struct lelem *x = a, *y = b;
    (void)p;
    return (x->key > y->key) - (x->key < y->key);
}

/* re-entrancy: the comparison function looks its argument up in an independent list */
static struct cstl_dlist auxlist;
static struct lelem auxel[8];
static int reentrant;

/* element handles (see the trees world): what the caller hands to the library may be an address past the link members
 * ("negative" offsets) or 2^31 / 2^32 bytes before the structure. Auxiliary, nested and huge lists keep plain pointers. */
static size_t g_hnd;
#define HND(e) ((void *)((uintptr_t)(e) + g_hnd))
#define ELM(h) ((struct lelem *)((uintptr_t)(h) - g_hnd))
#define ELMN(h) ((h) ? ELM(h) : NULL)

static int cmp_desc(const void *a, const void *b, void *p)
{
    const struct lelem *x = a, *y = b;
    (void)p;
    return (y->key > x->key) - (y->key < x->key);
}

static struct cstl_slist auxs; static struct cstl_dlist auxd2;
static struct lelem auxse[6], auxde[6];

static void reenter(const struct lelem *x)
{
    struct lelem pr; const struct lelem *f;
    int saved = g_inlib;
    /* ... and sorts two small independent lists in DESCENDING order: a sort that parks its comparator in shared
     * state would finish the outer sort under the wrong ordering */
    g_inlib = 1;
    cstl_slist_sort(&auxs, cmp_desc, (void *)&auxs);
    cstl_dlist_sort(&auxd2, cmp_desc, (void *)&auxd2);
    cstl_slist_reverse(&auxs); cstl_dlist_reverse(&auxd2);
    g_inlib = saved;
    pr.key = x->key % 8;
    g_inlib = 1;
    f = cstl_dlist_find(&auxlist, &pr, cmp_plain, NULL, (x->key & 1) ? CSTL_DLIST_FOREACH_DIR_REV : CSTL_DLIST_FOREACH_DIR_FWD);
    g_inlib = saved;
    if (f == NULL || f->key != x->key % 8)
        sim_violation("C12/reentrant_find/compare/aux-list", "a find on an independent list, made from inside a comparison callback, returned the wrong element");
}

static int cmp_key(const void *a, const void *b, void *p)
{
    const struct lelem *x = ELM(a), *y = ELM(b);
    (void)p;
    if (reentrant) { CB_ENTER(); reenter(x); CB_LEAVE(); }
    return sim_cmp((x->key > y->key) - (x->key < y->key));
}

/* find by bare key: the sought object is an int, not an element (the usual way to avoid building a dummy element).
 * Every find in the library hands the comparison function (sought object, element), and such callers rely on it. */
static int cmp_find_barekey(const void *a, const void *b, void *p)
{
    const struct lelem *y = ELM(b); int k;
    if (a != p) {
        CB_ENTER();
        sim_violation("C12/find_argument_order/d_find/bare-key", b == p ? "find handed the comparison function (element, sought object); every find in the library passes (sought object, element) and callers searching by a bare key rely on it"
                                                                        : "find handed the comparison function a first argument that is not the sought object");
    }
    k = *(const int *)a;
    return sim_cmp((k > y->key) - (k < y->key));
}

static int cmp_key_mod(const void *a, const void *b, void *p)
{
    const struct lelem *x = ELM(a), *y = ELM(b);
    int m = (int)(intptr_t)p;
    int kx = x->key % m, ky = y->key % m;
    return sim_cmp((kx > ky) - (kx < ky));
}

/* ------------------------------------------------------------- callbacks */

#define MAXVIS (MAXLEN + 8)
static struct lelem *vis[MAXVIS];
static int nvis;
static int vis_stop_at, vis_stop_val;
static uint64_t vis_remove_seed;
static unsigned vis_remove_pm;
static struct cstl_dlist *vis_list;
static int vis_removed[MAXVIS];

static int visit_cb(void *obj, void *priv)
{
    CB_ENTER();
    int r = 0;
    (void)priv;
    if (nvis < MAXVIS) {
        vis[nvis] = ELM(obj);
        vis_removed[nvis] = 0;
        if (vis_remove_pm && vis_list) {
            uint64_t x = vis_remove_seed + (uint64_t)nvis;
            if (splitmix64(&x) % 1000 < vis_remove_pm) {
                /* documented: foreach tolerates removal of the visited element */
                g_inlib = 1;
                cstl_dlist_erase(vis_list, obj);
                g_inlib = 0;
                vis_removed[nvis] = 1;
                /* once removed the element is the caller's: free it (poisoned) right here */
                memset(ELM(obj), 0xDD, sizeof(struct lelem));
                simheap_free(ELM(obj));
            }
        }
    }
    nvis++;
    if (vis_stop_at > 0 && nvis == vis_stop_at) r = vis_stop_val;
    CB_LEAVE();
    return r;
}

static int clr_id[MAXVIS];       /* id of each element handed to the clear callback, -1 = not a live element */
static int nclr;
static int pre_ids[MAXLEN];

/* a list of lists: the clear callback clears two small independent lists (other link members, another callback and
 * private pointer) before it deals with its own element */
static struct lelem ncl_el[6]; static int ncl_calls, ncl_bad;
static void ncl_cb(void *obj, void *priv)
{
    struct lelem *e = obj;
    (void)priv;
    if (e < ncl_el || e >= ncl_el + 6 || e->magic != MAGIC) ncl_bad++;
    ncl_calls++;
}
static void nested_list_clear(void)
{
    static struct cstl_dlist nd; static struct cstl_slist ns;
    int q, saved = g_inlib;
    ncl_calls = ncl_bad = 0;
    g_inlib = 1;
    cstl_dlist_init(&nd, offsetof(struct lelem, dn2)); cstl_slist_init(&ns, offsetof(struct lelem, sn2));
    for (q = 0; q < 6; q++) {
        ncl_el[q].magic = MAGIC; ncl_el[q].tail = ~MAGIC; ncl_el[q].key = q; ncl_el[q].id = -4;
        if (q < 3) cstl_dlist_push_back(&nd, &ncl_el[q]); else cstl_slist_push_back(&ns, &ncl_el[q]);
    }
    cstl_dlist_clear(&nd, ncl_cb);
    cstl_slist_clear(&ns, ncl_cb);
    g_inlib = saved;
    if (ncl_calls != 6 || ncl_bad || cstl_dlist_size(&nd) != 0 || cstl_slist_size(&ns) != 0)
        sim_violation("C15/nested_clear/clear/list-of-lists", "two independent 3-element lists cleared from inside a clear callback: %d callbacks (%d with a wrong element)", ncl_calls, ncl_bad);
    PROBE("clear_callback_clears_other_lists");
}

/* what an optimised caller may assume about a library function is part of its interface (attributes on the prototype):
 * the callback writes a file-scope static that nothing else refers to, and a small function without setjmp reads it
 * right after the call returns */
static int plain_count;
static void clear_cb(void *obj, void *priv);
static int d_clear_plain(struct cstl_dlist *D) { plain_count = 0; g_inlib = 1; cstl_dlist_clear(D, clear_cb); g_inlib = 0; return plain_count; }
static int s_clear_plain(struct cstl_slist *S) { plain_count = 0; g_inlib = 1; cstl_slist_clear(S, clear_cb); g_inlib = 0; return plain_count; }

/* the same for the other functions that take a callback: foreach, find, sort */
static int pl_calls; static cstl_compare_func_t *pl_inner;
static int pl_visit(void *e, void *p) { (void)e; (void)p; pl_calls++; return 0; }
static int pl_cmp(const void *a, const void *b, void *p) { pl_calls++; return pl_inner(a, b, p); }
static int d_foreach_plain(struct cstl_dlist *D, int rev) { pl_calls = 0; g_inlib = 1; (void)cstl_dlist_foreach(D, pl_visit, NULL, rev ? CSTL_DLIST_FOREACH_DIR_REV : CSTL_DLIST_FOREACH_DIR_FWD); g_inlib = 0; return pl_calls; }
static int s_foreach_plain(struct cstl_slist *S) { pl_calls = 0; g_inlib = 1; (void)cstl_slist_foreach(S, pl_visit, NULL); g_inlib = 0; return pl_calls; }
static int d_sort_plain(struct cstl_dlist *D, void *priv) { pl_calls = 0; g_inlib = 1; cstl_dlist_sort(D, pl_cmp, priv); g_inlib = 0; return pl_calls; }
static int s_sort_plain(struct cstl_slist *S, void *priv) { pl_calls = 0; g_inlib = 1; cstl_slist_sort(S, pl_cmp, priv); g_inlib = 0; return pl_calls; }
static int d_find_plain(struct cstl_dlist *D, const void *probe, void **ret) { pl_calls = 0; g_inlib = 1; *ret = cstl_dlist_find(D, probe, pl_cmp, NULL, CSTL_DLIST_FOREACH_DIR_FWD); g_inlib = 0; return pl_calls; }
/* ... and about what a function returns: the pointer IS the caller's element (see the heap world) */
static struct lelem pl_el;
/* (one function per library call: a returned pointer that may come from either of two calls hides what is claimed about one) */
#define ALIAS_BODY(PUSH, GET, UNDO) \
    { struct lelem *got; void *r; int before, after; \
      pl_el.mark2 = 1; g_inlib = 1; PUSH; r = GET; \
      if (r == NULL) { g_inlib = 0; return -1; } \
      got = (struct lelem *)((char *)r - hnd); before = pl_el.mark2; got->mark2 = before + 1; after = pl_el.mark2; \
      UNDO; g_inlib = 0; return after; }
static __attribute__((noinline)) int d_alias_pop_front(struct cstl_dlist *D, size_t hnd) ALIAS_BODY(cstl_dlist_push_front(D, (char *)&pl_el + hnd), cstl_dlist_pop_front(D), (void)0)
static __attribute__((noinline)) int d_alias_pop_back(struct cstl_dlist *D, size_t hnd) ALIAS_BODY(cstl_dlist_push_back(D, (char *)&pl_el + hnd), cstl_dlist_pop_back(D), (void)0)
static __attribute__((noinline)) int d_alias_front(struct cstl_dlist *D, size_t hnd) ALIAS_BODY(cstl_dlist_push_front(D, (char *)&pl_el + hnd), cstl_dlist_front(D), (void)cstl_dlist_pop_front(D))
static __attribute__((noinline)) int d_alias_back(struct cstl_dlist *D, size_t hnd) ALIAS_BODY(cstl_dlist_push_back(D, (char *)&pl_el + hnd), cstl_dlist_back(D), (void)cstl_dlist_pop_back(D))
static __attribute__((noinline)) int s_alias_pop_front(struct cstl_slist *S, size_t hnd) ALIAS_BODY(cstl_slist_push_front(S, (char *)&pl_el + hnd), cstl_slist_pop_front(S), (void)0)
static __attribute__((noinline)) int s_alias_front(struct cstl_slist *S, size_t hnd) ALIAS_BODY(cstl_slist_push_front(S, (char *)&pl_el + hnd), cstl_slist_front(S), (void)cstl_slist_pop_front(S))
static int d_alias_plain(struct cstl_dlist *D, size_t hnd, int which) { return which == 0 ? d_alias_pop_front(D, hnd) : which == 1 ? d_alias_pop_back(D, hnd) : which == 2 ? d_alias_front(D, hnd) : d_alias_back(D, hnd); }
static int s_alias_plain(struct cstl_slist *S, size_t hnd, int which) { return which ? s_alias_front(S, hnd) : s_alias_pop_front(S, hnd); }
#define PLAIN_STEP(k) ((k) % 4 == 1)
#define INVISIBLE(m, is_d, what, n, seen) VIOL(m, is_d, "callback_effects_invisible", "%s over %d elements: the caller's own counter, written by the callback and read right after the call in an optimised function, says %d", what, n, seen)

static void clear_cb(void *obj, void *priv)
{
    CB_ENTER();
    struct lelem *e = ELM(obj);
    plain_count++;
    int id = -1;
    if (reentrant) nested_list_clear();
    (void)priv;
    if (simheap_is_live(e) && e->magic == MAGIC && e->tail == ~MAGIC) id = e->id;
    if (nclr < MAXVIS) clr_id[nclr] = id;
    nclr++;
    if (id >= 0 && clear_frees) {
        /* the callback may free the element or reuse its memory: poison and free it */
        memset(e, 0xDD, sizeof *e);
        simheap_free(e);
    }
    CB_LEAVE();
}

/* after a clear: callback ids must be exactly the ids the list held */
static void check_clear(struct mlist *m, int is_d, int npre)
{
    static unsigned char used[MAXLEN];
    int i, j;
    if (g_aborted) VIOL(m, is_d, "abort", "clear aborted");
    if (nclr != npre) VIOL(m, is_d, "clear_count", "clear called back %d times for %d elements", nclr, npre);
    memset(used, 0, (size_t)npre + 1);
    for (i = 0; i < nclr; i++) {
        if (clr_id[i] < 0) VIOL(m, is_d, "clear_foreign", "clear handed over something that is not a live element (call %d)", i);
        for (j = 0; j < npre; j++) if (!used[j] && pre_ids[j] == clr_id[i]) { used[j] = 1; break; }
        if (j == npre) VIOL(m, is_d, "clear_multiset", "clear handed over an element that is not in the list, or twice (call %d)", i);
    }
}

/* ------------------------------------------------------------------ audit */

static void audit_d(int li)
{
    struct cstl_dlist *l = &dl[li];
    struct mlist *m = &md[li];
    struct cstl_dlist_node *n, *prev;
    int i;
    void *f, *b;
    uint64_t sh = 0x12;

    if (cstl_dlist_size(l) != (size_t)m->n)
        VIOL(m, 1, "size", "list %d reports size %zu, reference has %d", li, cstl_dlist_size(l), m->n);

    /* public links, both directions, sentinel included */
    prev = &l->h;
    n = l->h.n;
    for (i = 0; i < m->n; i++) {
        if (n == &l->h) VIOL(m, 1, "fwd_links", "list %d: forward walk ends after %d of %d", li, i, m->n);
        if (n != dnode(m->e[i], m->kind))
            VIOL(m, 1, "fwd_links", "list %d: forward position %d holds the wrong element", li, i);
        if (n->p != prev)
            VIOL(m, 1, "back_links", "list %d: back link of position %d does not point at its predecessor", li, i);
        prev = n;
        n = n->n;
    }
    if (n != &l->h) VIOL(m, 1, "fwd_links", "list %d: forward walk continues past %d elements", li, m->n);
    if (l->h.p != prev) VIOL(m, 1, "back_links", "list %d: sentinel back link is not the last element", li);

    /* API view */
    TRY(f = cstl_dlist_front(l)); f = ELMN(f);
    TRY(b = cstl_dlist_back(l)); b = ELMN(b);
    if (f != (m->n ? (void *)m->e[0] : NULL)) VIOL(m, 1, "front", "list %d: front() wrong", li);
    if (b != (m->n ? (void *)m->e[m->n - 1] : NULL)) VIOL(m, 1, "back", "list %d: back() wrong", li);

    nvis = 0; vis_stop_at = 0; vis_remove_pm = 0; vis_list = NULL;
    TRY((void)cstl_dlist_foreach(l, visit_cb, NULL, CSTL_DLIST_FOREACH_DIR_FWD));
    if (g_aborted) VIOL(m, 1, "abort", "foreach aborted");
    if (nvis != m->n) VIOL(m, 1, "foreach_fwd", "list %d: forward foreach visited %d of %d", li, nvis, m->n);
    for (i = 0; i < m->n; i++)
        if (vis[i] != m->e[i]) VIOL(m, 1, "foreach_fwd", "list %d: forward foreach position %d wrong", li, i);
    nvis = 0;
    TRY((void)cstl_dlist_foreach(l, visit_cb, NULL, CSTL_DLIST_FOREACH_DIR_REV));
    if (nvis != m->n) VIOL(m, 1, "foreach_rev", "list %d: reverse foreach visited %d of %d", li, nvis, m->n);
    for (i = 0; i < m->n; i++)
        if (vis[i] != m->e[m->n - 1 - i]) VIOL(m, 1, "foreach_rev", "list %d: reverse foreach position %d wrong", li, i);

    for (i = 0; i < m->n; i++) {
        if (m->e[i]->magic != MAGIC || m->e[i]->tail != ~MAGIC)
            VIOL(m, 1, "elem_damaged", "list %d: element bytes outside the node were modified", li);
        sh = fnv1a(sh, (uint64_t)m->e[i]->key);
    }
    state_note(sh);
    if ((unsigned)m->n > maxreach) maxreach = (unsigned)m->n;
}

static void audit_s(int li)
{
    struct cstl_slist *l = &sl[li];
    struct mlist *m = &ms[li];
    struct cstl_slist_node *n;
    int i;
    void *f, *b;
    uint64_t sh = 0x13;

    if (cstl_slist_size(l) != (size_t)m->n)
        VIOL(m, 0, "size", "list %d reports size %zu, reference has %d", li, cstl_slist_size(l), m->n);

    n = l->h.n;
    for (i = 0; i < m->n; i++) {
        if (n == NULL) VIOL(m, 0, "links", "list %d: walk ends after %d of %d", li, i, m->n);
        if (n != snode(m->e[i], m->kind)) VIOL(m, 0, "links", "list %d: position %d holds the wrong element", li, i);
        n = n->n;
    }
    if (n != NULL) VIOL(m, 0, "links", "list %d: walk continues past %d elements", li, m->n);

    TRY(f = cstl_slist_front(l)); f = ELMN(f);
    TRY(b = cstl_slist_back(l)); b = ELMN(b);
    if (f != (m->n ? (void *)m->e[0] : NULL)) VIOL(m, 0, "front", "list %d: front() wrong", li);
    /* the tail clause: back() must be the node whose next is NULL */
    if (b != (m->n ? (void *)m->e[m->n - 1] : NULL))
        VIOL(m, 0, "tail", "list %d: back() is not the true last element", li);

    nvis = 0; vis_stop_at = 0; vis_remove_pm = 0; vis_list = NULL;
    TRY((void)cstl_slist_foreach(l, visit_cb, NULL));
    if (nvis != m->n) VIOL(m, 0, "foreach", "list %d: foreach visited %d of %d", li, nvis, m->n);
    for (i = 0; i < m->n; i++)
        if (vis[i] != m->e[i]) VIOL(m, 0, "foreach", "list %d: foreach position %d wrong", li, i);

    for (i = 0; i < m->n; i++) {
        if (m->e[i]->magic != MAGIC || m->e[i]->tail != ~MAGIC)
            VIOL(m, 0, "elem_damaged", "list %d: element bytes outside the node were modified", li);
        sh = fnv1a(sh, (uint64_t)m->e[i]->key);
    }
    state_note(sh);
    if ((unsigned)m->n > maxreach) maxreach = (unsigned)m->n;
}

/* ------------------------------------------------------------ model edits */

static void m_insert(struct mlist *m, int pos, struct lelem *e)
{
    memmove(&m->e[pos + 1], &m->e[pos], sizeof(m->e[0]) * (size_t)(m->n - pos));
    m->e[pos] = e;
    m->n++;
}

static struct lelem *m_remove(struct mlist *m, int pos)
{
    struct lelem *e = m->e[pos];
    memmove(&m->e[pos], &m->e[pos + 1], sizeof(m->e[0]) * (size_t)(m->n - pos - 1));
    m->n--;
    return e;
}

static void check_sorted_perm(struct mlist *m, int is_d, struct lelem **got, int n,
                              cstl_compare_func_t *cmp, void *priv)
{
    /* got[] must be a permutation of m->e[] and non-decreasing under cmp */
    static unsigned char used[MAXLEN];
    int i, j;
    if (n != m->n) VIOL(m, is_d, "sort_perm", "sort changed the number of elements: %d -> %d", m->n, n);
    memset(used, 0, (size_t)m->n);
    for (i = 0; i < n; i++) {
        for (j = 0; j < m->n; j++) if (!used[j] && m->e[j] == got[i]) { used[j] = 1; break; }
        if (j == m->n) VIOL(m, is_d, "sort_perm", "sort result holds an element not in the list (or twice) at %d", i);
    }
    for (i = 1; i < n; i++)
        if (cmp(HND(got[i - 1]), HND(got[i]), priv) > 0)
            VIOL(m, is_d, "sort_order", "sort result not ordered at %d", i);
    for (i = 0; i < n; i++) m->e[i] = got[i];
}

/* walk a list into out[] defensively (bounded) */
static int walk_d(struct cstl_dlist *l, struct lelem **out, int max, int kind)
{
    struct cstl_dlist_node *n = l->h.n;
    int i = 0;
    while (n != &l->h && i < max) {
        out[i++] = (struct lelem *)((char *)n - doff(kind));
        n = n->n;
    }
    return (n == &l->h) ? i : -1;
}

static int walk_s(struct cstl_slist *l, struct lelem **out, int max, int kind)
{
    struct cstl_slist_node *n = l->h.n;
    int i = 0;
    while (n != NULL && i < max) {
        out[i++] = (struct lelem *)((char *)n - soff(kind));
        n = n->n;
    }
    return (n == NULL) ? i : -1;
}

static void tick(struct mlist *m)
{
    if (m->since_clear >= 0 && m->since_clear < 100) m->since_clear++;
}

/* --------------------------------------------------- very large lists (sort) */

static int huge_cleared;
static void huge_clear_cb(void *obj, void *priv) { (void)obj; (void)priv; huge_cleared++; }

/* one list of n elements (n up to a little over 2^20): build, sort, reverse, verify by one walk.
 * Size-dependent code paths (a fixed number of merge bins, a counter that wraps) only show here. */
static int s_accessors_around_push_back(struct cstl_slist *S, void *e, int n0)
{
    void *f0, *b0, *f1, *b1;
    g_inlib = 1;
    f0 = cstl_slist_front(S); b0 = cstl_slist_back(S);
    cstl_slist_push_back(S, e);
    f1 = cstl_slist_front(S); b1 = cstl_slist_back(S);
    g_inlib = 0;
    return b1 == e && f1 == (n0 ? f0 : e) && !(n0 && b0 == b1);
}
static int d_accessors_around_push_front(struct cstl_dlist *D, void *e, int n0)
{
    void *f0, *b0, *f1, *b1;
    g_inlib = 1;
    f0 = cstl_dlist_front(D); b0 = cstl_dlist_back(D);
    cstl_dlist_push_front(D, e);
    f1 = cstl_dlist_front(D); b1 = cstl_dlist_back(D);
    g_inlib = 0;
    return f1 == e && b1 == (n0 ? b0 : e) && !(n0 && f0 == f1);
}

static void huge_sort(int is_d, uint64_t nsel, uint64_t seed)
{
    static const size_t bases[] = { 1u << 12, 1u << 16, 1u << 18, 1u << 20, 1u << 21, (1u << 20) + 3, 1u << 22, (1u << 21) + 3 };
    size_t n = bases[nsel % 8] + (size_t)((nsel >> 8) % 5) - 2 + ((nsel >> 16 & 1) ? (size_t)((nsel >> 20) % 5000) : 0);
    struct lelem *pool = malloc(n * sizeof *pool);
    struct mlist dummy; size_t i, cnt; int prev;
    uint64_t x = seed;
    if (!pool) sim_harness_bug("lists: no memory for a huge list");
    dummy.n = 6; dummy.since_clear = -1; dummy.kind = 0;
    g_cur_ctx = "huge-list";
    if (is_d) cstl_dlist_init(&dl[0], doff(0)); else cstl_slist_init(&sl[0], soff(0));
    for (i = 0; i < n; i++) {
        pool[i].magic = MAGIC; pool[i].tail = ~MAGIC; pool[i].id = 0;
        pool[i].key = (nsel >> 32 & 7) == 0 ? (int)i : (nsel >> 32 & 7) == 1 ? (int)(n - i) : (int)(splitmix64(&x) % 100000);
        g_inlib = 1;
        if (is_d) cstl_dlist_push_back(&dl[0], &pool[i]); else cstl_slist_push_back(&sl[0], &pool[i]);
        g_inlib = 0;
    }
    if (is_d) TRY(cstl_dlist_sort(&dl[0], cmp_plain, NULL)); else TRY(cstl_slist_sort(&sl[0], cmp_plain, NULL));
    if (g_aborted) VIOL(&dummy, is_d, g_aborted == 2 ? "assert" : "abort", "sort of %zu elements aborted", n);
    if ((is_d ? cstl_dlist_size(&dl[0]) : cstl_slist_size(&sl[0])) != n)
        VIOL(&dummy, is_d, "size", "after sorting %zu elements the list reports size %zu", n, is_d ? cstl_dlist_size(&dl[0]) : cstl_slist_size(&sl[0]));
    cnt = 0; prev = -1;
    if (is_d) {
        struct cstl_dlist_node *nd2 = dl[0].h.n, *pv = &dl[0].h;
        while (nd2 != &dl[0].h && cnt <= n) {
            struct lelem *e = (struct lelem *)((char *)nd2 - doff(0));
            if (e < pool || e >= pool + n || e->id != 0) VIOL(&dummy, 1, "sort_perm", "sorted list of %zu holds a foreign or repeated element at %zu", n, cnt);
            e->id = 1;
            if (nd2->p != pv) VIOL(&dummy, 1, "back_links", "sorted list of %zu: back link broken at %zu", n, cnt);
            if (e->key < prev) VIOL(&dummy, 1, "sort_order", "sorted list of %zu elements is not ordered at position %zu", n, cnt);
            prev = e->key; pv = nd2; nd2 = nd2->n; cnt++;
        }
        if (dl[0].h.p != pv) VIOL(&dummy, 1, "back_links", "sorted list of %zu: sentinel back link is not the last element", n);
    } else {
        struct cstl_slist_node *nd2 = sl[0].h.n, *last = NULL;
        while (nd2 != NULL && cnt <= n) {
            struct lelem *e = (struct lelem *)((char *)nd2 - soff(0));
            if (e < pool || e >= pool + n || e->id != 0) VIOL(&dummy, 0, "sort_perm", "sorted list of %zu holds a foreign or repeated element at %zu", n, cnt);
            e->id = 1;
            if (e->key < prev) VIOL(&dummy, 0, "sort_order", "sorted list of %zu elements is not ordered at position %zu", n, cnt);
            prev = e->key; last = nd2; nd2 = nd2->n; cnt++;
        }
        if (cstl_slist_back(&sl[0]) != (last ? (void *)((char *)last - soff(0)) : NULL)) VIOL(&dummy, 0, "tail", "after sorting %zu elements back() is not the true last element", n);
    }
    if (cnt != n) VIOL(&dummy, is_d, "sort_perm", "sorting %zu elements left %zu reachable", n, cnt);
    huge_cleared = 0;
    if (is_d) TRY(cstl_dlist_clear(&dl[0], huge_clear_cb)); else TRY(cstl_slist_clear(&sl[0], huge_clear_cb));
    if ((size_t)huge_cleared != n) { g_cur_prop = "C15"; VIOL(&dummy, is_d, "clear_count", "clear of %zu elements called back %d times", n, huge_cleared); }
    free(pool);
    PROBE(n >= (1u << 20) ? "huge_sort_2^20" : "huge_sort"); if (n >= (1u << 21)) PROBE("huge_sort_2^21"); if (n >= (1u << 22)) PROBE("huge_sort_2^22");
    EVT("huge_sort", is_d, n, 0);
    if (n > maxreach) maxreach = (unsigned)n;
}

/* the same with 2^23 to 2^26 compact elements (thorough tier only): the sizes at which an implementation with a fixed number
 * of merge bins, a 24- or 25-bit field or a depth limit first behaves differently. Order, stability (equal keys keep their
 * original order), permutation, links, tail and size are checked by one walk. */
struct gselem { struct cstl_slist_node sn; int key, id; };
struct gdelem { struct cstl_dlist_node dn; int key, id; };
static int cmp_gs(const void *a, const void *b, void *p) { (void)p; return (((const struct gselem *)a)->key > ((const struct gselem *)b)->key) - (((const struct gselem *)a)->key < ((const struct gselem *)b)->key); }
static int cmp_gd(const void *a, const void *b, void *p) { (void)p; return (((const struct gdelem *)a)->key > ((const struct gdelem *)b)->key) - (((const struct gdelem *)a)->key < ((const struct gdelem *)b)->key); }
static void giant_sort(int is_d, uint64_t sel, uint64_t seed)
{
    static const size_t sizes[] = { ((size_t)1 << 24) + 3, ((size_t)1 << 25) + 1, ((size_t)1 << 23) + 1, ((size_t)1 << 24) + ((size_t)1 << 23) + 7, (size_t)1 << 24, ((size_t)1 << 26) + 5 };
    size_t n = sizes[sel % 6], i, cnt = 0;
    unsigned pat = (unsigned)(sel / 6 % 4);          /* keys: random over few values, random over many, descending, ascending */
    size_t esz = is_d ? sizeof(struct gdelem) : sizeof(struct gselem);
    char *pool = malloc(n * esz);
    struct mlist dummy; uint64_t x = seed; int prevk = INT_MIN, previd = -1;
    static struct cstl_dlist gd; static struct cstl_slist gs;
    if (!pool) sim_harness_bug("lists: no memory for a giant list");
    sim_watchdog(1500);
    dummy.n = 6; dummy.since_clear = -1; dummy.kind = 0;
    g_cur_ctx = "giant-list"; g_cur_prop = is_d ? "C12" : "C13";
    if (is_d) cstl_dlist_init(&gd, offsetof(struct gdelem, dn)); else cstl_slist_init(&gs, offsetof(struct gselem, sn));
    g_inlib = 1;
    for (i = 0; i < n; i++) {
        int key = pat == 0 ? (int)(splitmix64(&x) % 1000) : pat == 1 ? (int)(splitmix64(&x) >> 34) : pat == 2 ? (int)((n - i) / 3) : (int)(i / 3);
        if (is_d) { struct gdelem *e = (struct gdelem *)(pool + i * esz); e->key = key; e->id = (int)i; cstl_dlist_push_back(&gd, e); }
        else { struct gselem *e = (struct gselem *)(pool + i * esz); e->key = key; e->id = (int)i; cstl_slist_push_back(&gs, e); }
    }
    g_inlib = 0;
    if (is_d) TRY(cstl_dlist_sort(&gd, cmp_gd, NULL)); else TRY(cstl_slist_sort(&gs, cmp_gs, NULL));
    if (g_aborted) VIOL(&dummy, is_d, g_aborted == 2 ? "assert" : "abort", "sort of %zu elements aborted", n);
    if ((is_d ? cstl_dlist_size(&gd) : cstl_slist_size(&gs)) != n)
        VIOL(&dummy, is_d, "size", "after sorting %zu elements the list reports size %zu", n, is_d ? cstl_dlist_size(&gd) : cstl_slist_size(&gs));
    if (is_d) {
        struct cstl_dlist_node *nd2 = gd.h.n, *pv = &gd.h;
        while (nd2 != &gd.h && cnt <= n) {
            struct gdelem *e = (struct gdelem *)((char *)nd2 - offsetof(struct gdelem, dn));
            if ((char *)e < pool || (char *)e >= pool + n * esz || e->id < 0) VIOL(&dummy, 1, "sort_perm", "sorted list of %zu holds a foreign or repeated element at %zu", n, cnt);
            if (nd2->p != pv) VIOL(&dummy, 1, "back_links", "sorted list of %zu: back link broken at %zu", n, cnt);
            if (e->key < prevk) VIOL(&dummy, 1, "sort_order", "sorted list of %zu elements is not ordered at position %zu", n, cnt);
            if (e->key == prevk && e->id < previd) VIOL(&dummy, 1, "sort_stable", "sorted list of %zu elements: equal keys changed their order at position %zu", n, cnt);
            prevk = e->key; previd = e->id; e->id = ~e->id; pv = nd2; nd2 = nd2->n; cnt++;
        }
        if (gd.h.p != pv) VIOL(&dummy, 1, "back_links", "sorted list of %zu: sentinel back link is not the last element", n);
    } else {
        struct cstl_slist_node *nd2 = gs.h.n, *last = NULL;
        while (nd2 != NULL && cnt <= n) {
            struct gselem *e = (struct gselem *)((char *)nd2 - offsetof(struct gselem, sn));
            if ((char *)e < pool || (char *)e >= pool + n * esz || e->id < 0) VIOL(&dummy, 0, "sort_perm", "sorted list of %zu holds a foreign or repeated element at %zu", n, cnt);
            if (e->key < prevk) VIOL(&dummy, 0, "sort_order", "sorted list of %zu elements is not ordered at position %zu", n, cnt);
            if (e->key == prevk && e->id < previd) VIOL(&dummy, 0, "sort_stable", "sorted list of %zu elements: equal keys changed their order at position %zu", n, cnt);
            prevk = e->key; previd = e->id; e->id = ~e->id; last = nd2; nd2 = nd2->n; cnt++;
        }
        if (cstl_slist_back(&gs) != (last ? (void *)((char *)last - offsetof(struct gselem, sn)) : NULL)) VIOL(&dummy, 0, "tail", "after sorting %zu elements back() is not the true last element", n);
    }
    if (cnt != n) VIOL(&dummy, is_d, "sort_perm", "sorting %zu elements left %zu reachable", n, cnt);
    huge_cleared = 0;
    if (is_d) TRY(cstl_dlist_clear(&gd, huge_clear_cb)); else TRY(cstl_slist_clear(&gs, huge_clear_cb));
    if ((size_t)huge_cleared != n) { g_cur_prop = "C15"; VIOL(&dummy, is_d, "clear_count", "clear of %zu elements called back %d times", n, huge_cleared); }
    free(pool);
    PROBE("giant_sort_2^23"); if (n >= ((size_t)1 << 24)) PROBE("giant_sort_2^24"); if (n >= ((size_t)1 << 25)) PROBE("giant_sort_2^25"); if (n >= ((size_t)1 << 26)) PROBE("giant_sort_2^26");
    EVT("giant_sort", is_d, n, pat);
    if (n > maxreach) maxreach = (unsigned)n;
    g_run.nontrivial = 1;
}

/* ------------------------------------------------------------------- exec */

static void check_noabort(struct mlist *m, int is_d)
{
    if (g_aborted) VIOL(m, is_d, g_aborted == 2 ? "assert" : "abort", "library %s during an operation that must succeed",
                        g_aborted == 2 ? "assertion failed" : "aborted");
}

static struct lelem *tmp[MAXLEN + 8];

static void l_exec(const plan_t *p)
{
    struct simheap_cfg hc = { RP_MOVE, 0, (unsigned char)p->cfg[CF_JUNK] };
    int i, k;

    simheap_reset(&hc, p->cfg[CF_JUNK]);
    simheap_far((int)p->cfg[CF_FAR]);
    simheap_far_nodeoff((p->cfg[CF_JUNK] & 1) ? soff((int)(p->cfg[CF_HET] >> 4 & 1)) : doff((int)(p->cfg[CF_HET] & 1)));      /* (mode 3: the node member of list 0) */
    nd = (int)p->cfg[CF_ND]; ns = (int)p->cfg[CF_NS];
    if (nd < 1) nd = 1; if (nd > MAXL) nd = MAXL;
    if (ns < 1) ns = 1; if (ns > MAXL) ns = MAXL;
    keys = (int)p->cfg[CF_KEYS]; if (keys < 1) keys = 1;
    maxlen = (int)p->cfg[CF_MAXLEN]; if (maxlen < 1) maxlen = 8; if (maxlen > MAXLEN - 8) maxlen = MAXLEN - 8;
    clear_frees = (int)p->cfg[CF_CLEARFREES];
    next_id = 0; maxreach = 0; nrecycle = 0; recycle_tick = (unsigned)p->cfg[CF_JUNK] * 2654435761u;
    reentrant = 0;
    if (p->cfg[CF_LONG] >> 8 & 1) {
        cstl_dlist_init(&auxlist, offsetof(struct lelem, dn));
        for (i = 0; i < 8; i++) { auxel[i].key = i; auxel[i].magic = MAGIC; g_inlib = 1; cstl_dlist_push_back(&auxlist, &auxel[i]); g_inlib = 0; }
        cstl_slist_init(&auxs, offsetof(struct lelem, sn)); cstl_dlist_init(&auxd2, offsetof(struct lelem, dn));
        for (i = 0; i < 6; i++) {
            auxse[i].key = (i * 5) % 6; auxde[i].key = (i * 5) % 6;
            g_inlib = 1; cstl_slist_push_back(&auxs, &auxse[i]); cstl_dlist_push_back(&auxd2, &auxde[i]); g_inlib = 0;
        }
        reentrant = 1;
        PROBE("comparator_reenters_library");
    }
    /* objects are initialised on memory that holds junk, as on a stack: an init that forgets a field shows deterministically */
    memset(dl, (int)(unsigned char)p->cfg[CF_JUNK], sizeof dl); memset(sl, (int)(unsigned char)p->cfg[CF_JUNK], sizeof sl);
    for (i = 0; i < MAXL; i++) {
        md[i].kind = (int)(p->cfg[CF_HET] >> i & 1); ms[i].kind = (int)(p->cfg[CF_HET] >> (4 + i) & 1);
        if (i == 0) switch (p->cfg[CF_HET] >> 8 & 7) {
        default: g_hnd = 0; break;
        case 1: case 2: g_hnd = sizeof(struct lelem); PROBE("handles_past_the_node_members"); break;
        case 3: g_hnd = (size_t)0 - (((size_t)1 << 31) + 24); PROBE("handles_2^31_before_the_node_members"); break;
        case 4: g_hnd = (size_t)0 - (((size_t)1 << 32) + 24); PROBE("handles_2^32_before_the_node_members"); break;
        }
        if (p->cfg[CF_DECL] && g_hnd == 0) {
            /* the documented other way to get an empty list: the initializer macros (they name the object they initialise) */
            if (md[i].kind) dl[i] = (struct cstl_dlist)CSTL_DLIST_INITIALIZER(dl[i], struct lelem, dn2);
            else dl[i] = (struct cstl_dlist)CSTL_DLIST_INITIALIZER(dl[i], struct lelem, dn);
            if (ms[i].kind) sl[i] = (struct cstl_slist)CSTL_SLIST_INITIALIZER(sl[i], struct lelem, sn2);
            else sl[i] = (struct cstl_slist)CSTL_SLIST_INITIALIZER(sl[i], struct lelem, sn);
            PROBE("from_initializer_macro");
        } else {
        cstl_dlist_init(&dl[i], doff(md[i].kind) - g_hnd);
        cstl_slist_init(&sl[i], soff(ms[i].kind) - g_hnd);
        }
        md[i].n = 0; ms[i].n = 0; md[i].since_clear = -1; ms[i].since_clear = -1;
    }

    for (k = 0; k < p->nops; k++) {
        const op_t *o = &p->ops[k];
        int li = (int)(o->a[0] % (uint64_t)((o->kind < 20) ? nd : ns));
        int is_d = o->kind < 20;
        struct mlist *m = is_d ? &md[li] : &ms[li];
        struct cstl_dlist *D = &dl[li];
        struct cstl_slist *S = &sl[li];
        int key = (int)(o->a[1] % (uint64_t)keys);
        static struct lelem *e; static void *ret;

        g_run.step = k; g_run.opkind = o->kind; g_run.steps++;
        g_cur_ctx = ctx_of(m);
        g_cur_prop = prop_of(m, is_d);
        e = NULL; ret = NULL;

        if (o->kind == D_HUGE_SORT || o->kind == S_HUGE_SORT) {
            g_cur_prop = o->kind == D_HUGE_SORT ? "C12" : "C13";
            huge_sort(o->kind == D_HUGE_SORT, o->a[1], o->a[2]);
            cstl_dlist_init(&dl[0], doff(md[0].kind) - g_hnd); cstl_slist_init(&sl[0], soff(ms[0].kind) - g_hnd);
            continue;
        }
        if (o->kind == D_GIANT_SORT || o->kind == S_GIANT_SORT) { giant_sort(o->kind == D_GIANT_SORT, o->a[1], o->a[2]); continue; }
        if (o->kind == D_CHURN || o->kind == S_CHURN) {
            /* something that only matters on the n-th repetition: a transient element is added and removed 254 ... 65 536
             * times in a row; the list must be what it was (the audit below compares it with the unchanged model) */
            static const unsigned reps[] = { 254, 255, 256, 65534, 65535, 65536 };
            static struct lelem tr; unsigned n = reps[o->a[2] % 6], q; void *got = NULL;
            li = (int)(o->a[0] % (uint64_t)(o->kind == D_CHURN ? nd : ns)); is_d = o->kind == D_CHURN;
            m = is_d ? &md[li] : &ms[li]; D = &dl[li]; S = &sl[li];
            tr.magic = MAGIC; tr.tail = ~MAGIC; tr.id = -7; tr.key = key;
            g_cur_ctx = n > 60000 ? "churn-2^16" : "churn-2^8"; g_cur_prop = is_d ? "C12" : "C13";
            g_inlib = 1;
            for (q = 0; q < n; q++) {
                if (is_d) { if (q & 1) { cstl_dlist_push_back(D, HND(&tr)); got = cstl_dlist_pop_back(D); } else { cstl_dlist_push_front(D, HND(&tr)); got = cstl_dlist_pop_front(D); } }
                else { cstl_slist_push_front(S, HND(&tr)); got = cstl_slist_pop_front(S); }
                if (got != HND(&tr)) break;
            }
            g_inlib = 0;
            if (q != n) VIOL(m, is_d, "churn", "repetition %u of push/pop of a transient element returned another element", q);
            PROBE(n > 60000 ? "churn_2^16" : "churn_2^8");
            EVT("churn", li, n, is_d);
            if (is_d) audit_d(li); else audit_s(li);
            continue;
        }
        switch (o->kind) {
        case D_PUSH_FRONT:
            if (m->n >= maxlen) goto d_pop_front;
            e = new_elem(key);
            if (o->a[2] & 1) {
                if (!d_accessors_around_push_front(D, HND(e), m->n))
                    VIOL(m, 1, "accessor_after_mutation", "front()/back() called right after push_front, in the function that made the call, do not show the new element");
                PROBE("d_accessors_around_mutation");
            } else {
                TRY(cstl_dlist_push_front(D, HND(e))); check_noabort(m, 1);
            }
            m_insert(m, 0, e); EVT("d_push_front", li, e->id, key);
            break;
        case D_PUSH_BACK:
            if (m->n >= maxlen) goto d_pop_back;
            e = new_elem(key);
            TRY(cstl_dlist_push_back(D, HND(e))); check_noabort(m, 1);
            m_insert(m, m->n, e); EVT("d_push_back", li, e->id, key);
            break;
        case D_POP_FRONT: d_pop_front:
            if (k % 4 == 3 && m->kind == 0) {
                int which = (int)(k / 4 % 4), seen = d_alias_plain(D, g_hnd, which);
                if (seen != 2) VIOL(m, 1, "returned_pointer_is_not_the_element", "a value written through the pointer that pop_front / pop_back / front / back (%d) returned is not seen through the element's own name in an optimised caller (%d)", which, seen);
                PROBE("returned_pointer_written_through");
            }
            TRY(ret = cstl_dlist_pop_front(D)); ret = ELMN(ret); check_noabort(m, 1);
            if (m->n == 0) {
                PROBE("d_pop_empty");
                if (ret != NULL) VIOL(m, 1, "pop_empty", "pop_front on an empty list returned non-NULL");
            } else {
                e = m_remove(m, 0);
                if (ret != e) VIOL(m, 1, "pop_front", "pop_front returned the wrong element");
                EVT("d_pop_front", li, e->id, 0);
                drop_elem(e);
            }
            break;
        case D_POP_BACK: d_pop_back:
            TRY(ret = cstl_dlist_pop_back(D)); ret = ELMN(ret); check_noabort(m, 1);
            if (m->n == 0) {
                PROBE("d_pop_empty");
                if (ret != NULL) VIOL(m, 1, "pop_empty", "pop_back on an empty list returned non-NULL");
            } else {
                e = m_remove(m, m->n - 1);
                if (ret != e) VIOL(m, 1, "pop_back", "pop_back returned the wrong element");
                EVT("d_pop_back", li, e->id, 0);
                drop_elem(e);
            }
            break;
        case D_INSERT:
            if (m->n == 0 || m->n >= maxlen) { EVT("skip", 0, 0, 0); break; }
            {
                int pos = (int)(o->a[2] % (uint64_t)m->n);
                e = new_elem(key);
                TRY(cstl_dlist_insert(D, HND(m->e[pos]), HND(e))); check_noabort(m, 1);
                m_insert(m, pos + 1, e); EVT("d_insert", li, pos, e->id);
            }
            break;
        case D_ERASE:
            if (m->n == 0) { EVT("skip", 0, 0, 0); break; }
            {
                int pos = (int)(o->a[2] % (uint64_t)m->n);
                if (o->a[3] == 1) pos = 0; else if (o->a[3] == 2) pos = m->n - 1;
                e = m->e[pos];
                TRY(cstl_dlist_erase(D, HND(e))); check_noabort(m, 1);
                m_remove(m, pos); EVT("d_erase", li, pos, e->id);
                drop_elem(e);
            }
            break;
        case D_REVERSE:
            TRY(cstl_dlist_reverse(D)); check_noabort(m, 1);
            for (i = 0; i < m->n / 2; i++) {
                struct lelem *t = m->e[i]; m->e[i] = m->e[m->n - 1 - i]; m->e[m->n - 1 - i] = t;
            }
            if (m->n <= 5) PROBE_N("d_reverse_len0to5", 1); else if (m->n & 1) PROBE("d_reverse_odd"); else PROBE("d_reverse_even");
            EVT("d_reverse", li, m->n, 0);
            break;
        case D_SORT: {
            int mod = (int)(o->a[2] % 4);
            cstl_compare_func_t *cmp = mod ? cmp_key_mod : cmp_key;
            void *priv = mod ? (void *)(intptr_t)(mod + 1) : NULL;
            int n;
            if ((o->a[2] >> 10) % 4 == 1 && m->n >= 2) {
                /* a list does not care about its elements' keys: the caller sorts, changes the key of a linked element by plain
                 * assignment, and sorts again with the same function - the second sort has work to do */
                TRY(cstl_dlist_sort(D, cmp, priv)); check_noabort(m, 1);
                n = walk_d(D, tmp, m->n + 4, m->kind);
                if (n < 0) VIOL(m, 1, "sort_perm", "list does not terminate after sort");
                check_sorted_perm(m, 1, tmp, n, cmp, priv);
                m->e[(o->a[2] >> 16) % (uint64_t)m->n]->key = (int)((o->a[2] >> 24) % (uint64_t)keys);
                PROBE("key_changed_between_two_sorts");
            }
            if (PLAIN_STEP(k)) { int seen; pl_inner = cmp; seen = d_sort_plain(D, priv); if (m->n >= 2 && seen < m->n - 1) INVISIBLE(m, 1, "sort", m->n, seen); PROBE("callback_counted_in_plain_function"); } else
            TRY(cstl_dlist_sort(D, cmp, priv)); check_noabort(m, 1);
            n = walk_d(D, tmp, m->n + 4, m->kind);
            if (n < 0) VIOL(m, 1, "sort_perm", "list does not terminate after sort");
            check_sorted_perm(m, 1, tmp, n, cmp, priv);
            PROBE("d_sort"); EVT("d_sort", li, m->n, mod);
            break;
        }
        case D_CONCAT: {
            int si; struct mlist *sm;
            if ((o->a[2] >> 8) % 16 == 5) {
                /* a list concatenated with itself: the pinned code checks for it and leaves the list alone */
                TRY(cstl_dlist_concat(D, D)); check_noabort(m, 1);
                PROBE("self_concat"); EVT("d_concat_self", li, 0, 0);
                break;
            }
            if (nd < 2) { EVT("skip", 0, 0, 0); break; }
            si = (int)(o->a[2] % (uint64_t)nd);
            if (si == li) si = (li + 1) % nd;
            sm = &md[si];
            if (sm->kind != m->kind) {
                /* lists over different link members: the pinned code compares the offsets and leaves both lists alone (the
                 * elements of one cannot be appended through the member of the other), whether either is empty or not */
                TRY(cstl_dlist_concat(D, &dl[si])); check_noabort(m, 1);
                if (m->n == 0) PROBE("d_concat_other_member_empty_dst"); else PROBE("d_concat_other_member");
                EVT("d_concat_other", li, si, m->n);
                audit_d(si);
                break;
            }
            if (sm->since_clear >= 0 && sm->since_clear <= 3) { g_cur_prop = "C15"; g_cur_ctx = "after-clear"; }
            TRY(cstl_dlist_concat(D, &dl[si])); check_noabort(m, 1);
            if (sm->n == 0) PROBE("d_concat_empty_src"); if (m->n == 0) PROBE("d_concat_empty_dst");
            for (i = 0; i < sm->n; i++) m->e[m->n + i] = sm->e[i];
            m->n += sm->n; sm->n = 0;
            tick(sm);
            EVT("d_concat", li, si, m->n);
            audit_d(si);
            break;
        }
        case D_SWAP: {
            int si; struct mlist t;
            si = (int)(o->a[2] % (uint64_t)nd);
            if (o->a[3] == 3 && (o->a[2] >> 8) % 4 == 0) {
                /* swapping a list with itself changes nothing */
                TRY(cstl_dlist_swap(D, D)); check_noabort(m, 1);
                PROBE("self_swap"); EVT("d_swap_self", li, 0, 0);
                break;
            }
            if (nd < 2) { EVT("skip", 0, 0, 0); break; }
            if (si == li) si = (li + 1) % nd;
            TRY(cstl_dlist_swap(D, &dl[si])); check_noabort(m, 1);
            if (m->n == 0 || md[si].n == 0) PROBE("d_swap_with_empty");
            memcpy(tmp, m->e, sizeof(m->e[0]) * (size_t)m->n);
            t.n = m->n; t.since_clear = m->since_clear; t.kind = m->kind;
            memcpy(m->e, md[si].e, sizeof(m->e[0]) * (size_t)md[si].n);
            m->n = md[si].n; m->since_clear = md[si].since_clear; m->kind = md[si].kind;
            memcpy(md[si].e, tmp, sizeof(m->e[0]) * (size_t)t.n);
            md[si].n = t.n; md[si].since_clear = t.since_clear; md[si].kind = t.kind;
            if (m->kind != md[si].kind) PROBE("d_swap_different_offsets");
            tick(&md[si]);
            EVT("d_swap", li, si, 0);
            audit_d(si);
            break;
        }
        case D_FIND: {
            static struct lelem probe;
            int dir = (int)(o->a[2] & 1), want = -1;
            probe.key = key; probe.magic = MAGIC;
            if (PLAIN_STEP(k)) {
                int seen; void *r2 = NULL; pl_inner = cmp_key; seen = d_find_plain(D, HND(&probe), &r2);
                if (m->n >= 1 && seen < 1) INVISIBLE(m, 1, "find", m->n, seen);
            }
            if (o->a[2] & 2) {
                static int barekey;
                barekey = key; PROBE("d_find_by_bare_key");
                TRY(ret = cstl_dlist_find(D, &barekey, cmp_find_barekey, &barekey,
                                          dir ? CSTL_DLIST_FOREACH_DIR_REV : CSTL_DLIST_FOREACH_DIR_FWD));
            } else
            TRY(ret = cstl_dlist_find(D, HND(&probe), cmp_key, NULL,
                                      dir ? CSTL_DLIST_FOREACH_DIR_REV : CSTL_DLIST_FOREACH_DIR_FWD));
            check_noabort(m, 1);
            ret = ELMN(ret);
            if (!dir) { for (i = 0; i < m->n; i++) if (m->e[i]->key == key) { want = i; break; } }
            else { for (i = m->n - 1; i >= 0; i--) if (m->e[i]->key == key) { want = i; break; } }
            if (want < 0) { PROBE("d_find_absent"); if (ret != NULL) VIOL(m, 1, "find_absent", "find returned an element for an absent key"); }
            else { PROBE("d_find_present"); if (ret != m->e[want]) VIOL(m, 1, "find_first", "find did not return the first match in direction %d", dir); }
            EVT("d_find", li, key, want);
            break;
        }
        case D_FOREACH: {
            int dir = (int)(o->a[2] & 1), r, expect_n, expect_r = 0, j;
            if (PLAIN_STEP(k)) { int seen = d_foreach_plain(D, dir); if (seen != m->n) INVISIBLE(m, 1, "foreach", m->n, seen); }
            nvis = 0;
            vis_stop_at = (int)(o->a[3] % (uint64_t)(m->n + 2));   /* 0 = never */
            vis_stop_val = stopvals[(o->a[4] >> 8 ^ o->a[4]) % 12];
            vis_remove_pm = (unsigned)(o->a[5] % 1001);
            vis_remove_seed = o->a[6];
            vis_list = D;
            TRY(r = cstl_dlist_foreach(D, visit_cb, NULL,
                                       dir ? CSTL_DLIST_FOREACH_DIR_REV : CSTL_DLIST_FOREACH_DIR_FWD));
            check_noabort(m, 1);
            expect_n = m->n;
            if (vis_stop_at > 0 && vis_stop_at <= m->n) { expect_n = vis_stop_at; expect_r = vis_stop_val; PROBE("d_foreach_cancel"); }
            if (nvis != expect_n) VIOL(m, 1, "foreach_count", "foreach visited %d elements, expected %d", nvis, expect_n);
            if (r != expect_r) VIOL(m, 1, "foreach_result", "foreach returned %d, expected %d", r, expect_r);
            for (j = 0; j < expect_n; j++) {
                struct lelem *w = dir ? m->e[m->n - 1 - j] : m->e[j];
                if (vis[j] != w) VIOL(m, 1, "foreach_order", "foreach visit %d was the wrong element", j);
            }
            /* apply removals to the model */
            {
                int removed = 0;
                /* positions are relative to the pre-call sequence; remove from the back to keep indexes valid */
                static int rm[MAXLEN]; int nrm = 0;
                for (j = 0; j < expect_n; j++) if (vis_removed[j]) rm[nrm++] = dir ? m->n - 1 - j : j;
                /* sort descending */
                for (i = 0; i < nrm; i++) for (j = i + 1; j < nrm; j++) if (rm[j] > rm[i]) { int t = rm[i]; rm[i] = rm[j]; rm[j] = t; }
                for (i = 0; i < nrm; i++) { (void)m_remove(m, rm[i]); removed++; }   /* freed in the callback */
                if (removed) PROBE_N("d_foreach_self_remove", removed);
            }
            vis_remove_pm = 0; vis_list = NULL;
            EVT("d_foreach", li, nvis, r);
            break;
        }
        case D_CLEAR: {
            int npre = m->n;
            for (i = 0; i < npre; i++) pre_ids[i] = m->e[i]->id;
            nclr = 0;
            g_cur_prop = "C15";
            m->since_clear = 0; g_cur_ctx = "after-clear";
            if (o->a[2] & 1) {
                int seen = d_clear_plain(D);
                if (seen != npre) VIOL(m, 1, "callback_effects_invisible", "clear of %d elements: the caller's own counter, written by the callback and read right after the call in an optimised function, says %d", npre, seen);
                PROBE("clear_in_plain_function");
            } else
            TRY(cstl_dlist_clear(D, clear_cb));
            m->n = 0;
            check_clear(m, 1, npre);
            if (!clear_frees) for (i = 0; i < npre; i++) drop_elem(m->e[i]);
            PROBE("d_clear"); if (npre == 0) PROBE("d_clear_empty");
            EVT("d_clear", li, nclr, 0);
            break;
        }

        /* ------------------------------------------------------------ slist */
        case S_PUSH_FRONT:
            if (m->n >= maxlen) goto s_pop_front;
            e = new_elem(key);
            TRY(cstl_slist_push_front(S, HND(e))); check_noabort(m, 0);
            m_insert(m, 0, e); EVT("s_push_front", li, e->id, key);
            break;
        case S_PUSH_BACK:
            if (m->n >= maxlen) goto s_pop_front;
            e = new_elem(key);
            if (o->a[2] & 1) {
                /* the accessors are called before and after the mutation in one small function of optimised caller code
                 * (no setjmp in it): what a caller's optimiser may assume about them - attributes in the header - is
                 * part of the interface */
                if (!s_accessors_around_push_back(S, HND(e), m->n))
                    VIOL(m, 0, "accessor_after_mutation", "back()/front() called right after push_back, in the function that made the call, do not show the new element");
                PROBE("s_accessors_around_mutation");
            } else {
                TRY(cstl_slist_push_back(S, HND(e))); check_noabort(m, 0);
            }
            m_insert(m, m->n, e); EVT("s_push_back", li, e->id, key);
            break;
        case S_POP_FRONT: s_pop_front:
            if (k % 4 == 3 && m->kind == 0) {
                int which = (int)(k / 4 % 2), seen = s_alias_plain(S, g_hnd, which);
                if (seen != 2) VIOL(m, 0, "returned_pointer_is_not_the_element", "a value written through the pointer that %s returned is not seen through the element's own name in an optimised caller (%d)", which ? "front" : "pop_front", seen);
                PROBE("returned_pointer_written_through");
            }
            if (m->n == 0) { PROBE("s_pop_empty"); if (!(m->since_clear >= 0 && m->since_clear <= 3)) g_cur_ctx = "empty-list"; }
            TRY(ret = cstl_slist_pop_front(S)); ret = ELMN(ret); check_noabort(m, 0);
            if (m->n == 0) {
                if (ret != NULL) VIOL(m, 0, "pop_empty", "pop_front on an empty list returned non-NULL");
            } else {
                e = m_remove(m, 0);
                if (ret != e) VIOL(m, 0, "pop_front", "pop_front returned the wrong element");
                EVT("s_pop_front", li, e->id, 0);
                drop_elem(e);
            }
            break;
        case S_INSERT_AFTER:
            if (m->n == 0 || m->n >= maxlen) { EVT("skip", 0, 0, 0); break; }
            {
                int pos = (int)(o->a[2] % (uint64_t)m->n);
                if (o->a[3] == 1) pos = m->n - 1;      /* after the tail */
                e = new_elem(key);
                TRY(cstl_slist_insert_after(S, HND(m->e[pos]), HND(e))); check_noabort(m, 0);
                if (pos == m->n - 1) PROBE("s_insert_after_tail");
                m_insert(m, pos + 1, e); EVT("s_insert_after", li, pos, e->id);
            }
            break;
        case S_ERASE_AFTER:
            if (m->n < 2) { EVT("skip", 0, 0, 0); break; }
            {
                int pos = (int)(o->a[2] % (uint64_t)(m->n - 1));
                if (o->a[3] == 1) pos = m->n - 2;      /* erase the last element */
                e = m->e[pos + 1];
                TRY(ret = cstl_slist_erase_after(S, HND(m->e[pos]))); ret = ELMN(ret); check_noabort(m, 0);
                if (ret != e) VIOL(m, 0, "erase_after", "erase_after returned the wrong element");
                if (pos + 1 == m->n - 1) PROBE("s_erase_last");
                m_remove(m, pos + 1); EVT("s_erase_after", li, pos, e->id);
                drop_elem(e);
            }
            break;
        case S_REVERSE:
            TRY(cstl_slist_reverse(S)); check_noabort(m, 0);
            for (i = 0; i < m->n / 2; i++) {
                struct lelem *t = m->e[i]; m->e[i] = m->e[m->n - 1 - i]; m->e[m->n - 1 - i] = t;
            }
            PROBE("s_reverse"); EVT("s_reverse", li, m->n, 0);
            break;
        case S_SORT: {
            int mod = (int)(o->a[2] % 4);
            cstl_compare_func_t *cmp = mod ? cmp_key_mod : cmp_key;
            void *priv = mod ? (void *)(intptr_t)(mod + 1) : NULL;
            int n;
            if ((o->a[2] >> 10) % 4 == 1 && m->n >= 2) {
                TRY(cstl_slist_sort(S, cmp, priv)); check_noabort(m, 0);
                n = walk_s(S, tmp, m->n + 4, m->kind);
                if (n < 0) VIOL(m, 0, "sort_perm", "list does not terminate after sort");
                check_sorted_perm(m, 0, tmp, n, cmp, priv);
                m->e[(o->a[2] >> 16) % (uint64_t)m->n]->key = (int)((o->a[2] >> 24) % (uint64_t)keys);
                PROBE("key_changed_between_two_sorts");
            }
            if (PLAIN_STEP(k)) { int seen; pl_inner = cmp; seen = s_sort_plain(S, priv); if (m->n >= 2 && seen < m->n - 1) INVISIBLE(m, 0, "sort", m->n, seen); PROBE("callback_counted_in_plain_function"); } else
            TRY(cstl_slist_sort(S, cmp, priv)); check_noabort(m, 0);
            n = walk_s(S, tmp, m->n + 4, m->kind);
            if (n < 0) VIOL(m, 0, "sort_perm", "list does not terminate after sort");
            check_sorted_perm(m, 0, tmp, n, cmp, priv);
            PROBE("s_sort"); EVT("s_sort", li, m->n, mod);
            break;
        }
        case S_CONCAT: {
            int si; struct mlist *sm;
            /* (no self-concat here: cstl_slist_concat(l, l) has no guard in the pinned tree and empties the list - unlike
             * the dlist, which checks d != s. What "concatenate a list with itself" should do is stated nowhere, so it is
             * outside the domain for the slist and inside it, as a no-op, for the dlist) */
            if (ns < 2) { EVT("skip", 0, 0, 0); break; }
            si = (int)(o->a[2] % (uint64_t)ns);
            if (si == li) si = (li + 1) % ns;
            sm = &ms[si];
            if (sm->kind != m->kind) {
                TRY(cstl_slist_concat(S, &sl[si])); check_noabort(m, 0);
                if (m->n == 0) PROBE("s_concat_other_member_empty_dst"); else PROBE("s_concat_other_member");
                EVT("s_concat_other", li, si, m->n);
                audit_s(si);
                break;
            }
            if (sm->since_clear >= 0 && sm->since_clear <= 3) { g_cur_prop = "C15"; g_cur_ctx = "after-clear"; }
            TRY(cstl_slist_concat(S, &sl[si])); check_noabort(m, 0);
            if (sm->n == 0) PROBE("s_concat_empty_src"); if (m->n == 0) PROBE("s_concat_empty_dst");
            for (i = 0; i < sm->n; i++) m->e[m->n + i] = sm->e[i];
            m->n += sm->n; sm->n = 0;
            tick(sm);
            EVT("s_concat", li, si, m->n);
            audit_s(si);
            break;
        }
        case S_SWAP: {
            int si; struct mlist t;
            si = (int)(o->a[2] % (uint64_t)ns);
            if (o->a[3] == 3 && (o->a[2] >> 8) % 4 == 0) {
                TRY(cstl_slist_swap(S, S)); check_noabort(m, 0);
                PROBE("self_swap"); EVT("s_swap_self", li, 0, 0);
                break;
            }
            if (ns < 2) { EVT("skip", 0, 0, 0); break; }
            if (si == li) si = (li + 1) % ns;
            TRY(cstl_slist_swap(S, &sl[si])); check_noabort(m, 0);
            if (m->n == 0 || ms[si].n == 0) PROBE("s_swap_with_empty");
            memcpy(tmp, m->e, sizeof(m->e[0]) * (size_t)m->n);
            t.n = m->n; t.since_clear = m->since_clear; t.kind = m->kind;
            memcpy(m->e, ms[si].e, sizeof(m->e[0]) * (size_t)ms[si].n);
            m->n = ms[si].n; m->since_clear = ms[si].since_clear; m->kind = ms[si].kind;
            memcpy(ms[si].e, tmp, sizeof(m->e[0]) * (size_t)t.n);
            ms[si].n = t.n; ms[si].since_clear = t.since_clear; ms[si].kind = t.kind;
            if (m->kind != ms[si].kind) PROBE("s_swap_different_offsets");
            tick(&ms[si]);
            EVT("s_swap", li, si, 0);
            audit_s(si);
            break;
        }
        case S_FOREACH: {
            int r, expect_n, expect_r = 0, j;
            if (PLAIN_STEP(k)) { int seen = s_foreach_plain(S); if (seen != m->n) INVISIBLE(m, 0, "foreach", m->n, seen); }
            nvis = 0;
            vis_stop_at = (int)(o->a[3] % (uint64_t)(m->n + 2));
            vis_stop_val = stopvals[(o->a[4] >> 8 ^ o->a[4]) % 12];
            vis_remove_pm = 0; vis_list = NULL;
            TRY(r = cstl_slist_foreach(S, visit_cb, NULL)); check_noabort(m, 0);
            expect_n = m->n;
            if (vis_stop_at > 0 && vis_stop_at <= m->n) { expect_n = vis_stop_at; expect_r = vis_stop_val; PROBE("s_foreach_cancel"); }
            if (nvis != expect_n) VIOL(m, 0, "foreach_count", "foreach visited %d elements, expected %d", nvis, expect_n);
            if (r != expect_r) VIOL(m, 0, "foreach_result", "foreach returned %d, expected %d", r, expect_r);
            for (j = 0; j < expect_n; j++)
                if (vis[j] != m->e[j]) VIOL(m, 0, "foreach_order", "foreach visit %d was the wrong element", j);
            EVT("s_foreach", li, nvis, r);
            break;
        }
        case S_CLEAR: {
            int npre = m->n;
            for (i = 0; i < npre; i++) pre_ids[i] = m->e[i]->id;
            nclr = 0;
            g_cur_prop = "C15";
            m->since_clear = 0; g_cur_ctx = "after-clear";
            if (o->a[2] & 1) {
                int seen = s_clear_plain(S);
                if (seen != npre) VIOL(m, 0, "callback_effects_invisible", "clear of %d elements: the caller's own counter, written by the callback and read right after the call in an optimised function, says %d", npre, seen);
                PROBE("clear_in_plain_function");
            } else
            TRY(cstl_slist_clear(S, clear_cb));
            m->n = 0;
            check_clear(m, 0, npre);
            if (!clear_frees) for (i = 0; i < npre; i++) drop_elem(m->e[i]);
            PROBE("s_clear"); if (npre == 0) PROBE("s_clear_empty");
            EVT("s_clear", li, nclr, 0);
            break;
        }
        default:
            EVT("skip", 0, 0, 0);
            break;
        }

        /* after every step: full audit of the list touched */
        g_cur_ctx = ctx_of(m);
        if (is_d) audit_d(li); else audit_s(li);
        if (o->kind != D_CLEAR && o->kind != S_CLEAR) tick(m);
        if ((k & 15) == 15 || k == p->nops - 1) simheap_audit(prop_of(m, is_d), "lists");
    }

    /* every element still linked is accounted for; everything else was freed */
    {
        unsigned live = 0;
        for (i = 0; i < nd; i++) live += (unsigned)md[i].n;
        for (i = 0; i < ns; i++) live += (unsigned)ms[i].n;
        live += (unsigned)nrecycle;
        if (simheap_live_count(TAG_ELEM) != live)
            sim_harness_bug("lists: element accounting broken (%u live, model %u)", simheap_live_count(TAG_ELEM), live);
        if (simheap_live_count(TAG_LIB) != 0)
            sim_violation("C12/heap/unexpected_alloc", "list code allocated memory");
    }
    g_run.nontrivial = maxreach >= 2;
}

/* ---------------------------------------------------------------- generate */

static void l_gen(prng_t *r, int mode, plan_t *p)
{
    p->cfg[CF_FAR] = FAR_OF_INDEX();      /* element blocks 2^32 or 3 * 2^31 bytes apart in one run in seven each */
    p->cfg[CF_DECL] = DECL_OF_INDEX();    /* one run in five starts from the initializer macros */
    p->cfg[CF_REUSE] = REUSE_OF_INDEX();  /* one run in six: the allocator hands a freed block out again at once */
    int nops, i, longrun, small;
    int d_only = mode == 12, s_only = mode == 13;
    unsigned w_clear;

    if (mode == 122 || mode == 123) {
        /* giant lists (thorough tier): the run index walks sizes x key patterns */
        op_t *o = plan_add(p, mode == 122 ? D_GIANT_SORT : S_GIANT_SORT);
        p->cfg[CF_ND] = 1; p->cfg[CF_NS] = 1; p->cfg[CF_KEYS] = 1; p->cfg[CF_JUNK] = 1; p->cfg[CF_MAXLEN] = 8;
        o->a[1] = g_gen_index; o->a[2] = prng_next(r);
        return;
    }
    if (mode == 112 || mode == 113) {
        /* very large lists: one huge build-sort-verify-clear per run */
        op_t *o = plan_add(p, mode == 112 ? D_HUGE_SORT : S_HUGE_SORT);
        p->cfg[CF_ND] = 1; p->cfg[CF_NS] = 1; p->cfg[CF_KEYS] = 1; p->cfg[CF_JUNK] = 1 + prng_below(r, 254); p->cfg[CF_MAXLEN] = 8;
        o->a[1] = prng_next(r); o->a[2] = prng_next(r);
        /* the first eight runs of the batch walk the sizes (2^22 first), the first with descending keys, then random ones */
        if (g_gen_index < 8) o->a[1] = (o->a[1] & ~(uint64_t)7 & ~((uint64_t)7 << 32)) | ((6 + g_gen_index) % 8) | ((uint64_t)(g_gen_index == 0 ? 1 : 2) << 32);
        return;
    }

    longrun = prng_chance(r, 1, 10);
    small = !longrun && prng_chance(r, 1, 5);
    p->cfg[CF_ND] = 1 + prng_below(r, 3);
    p->cfg[CF_NS] = 1 + prng_below(r, 3);
    p->cfg[CF_KEYS] = small ? 1 + prng_below(r, 3) : 1 + prng_below(r, 24);
    p->cfg[CF_JUNK] = 1 + prng_below(r, 254);
    p->cfg[CF_MAXLEN] = longrun ? 300 + prng_below(r, 700) : small ? 2 + prng_below(r, 5) : 4 + prng_below(r, 40);
    p->cfg[CF_CLEARFREES] = (mode == 15) ? 1 : prng_chance(r, 1, 2);
    p->cfg[CF_LONG] = (uint64_t)longrun | (prng_chance(r, 1, 6) ? 256 : 0);
    p->cfg[CF_HET] = (prng_chance(r, 1, 3) ? prng_below(r, 128) : 0) | (prng_chance(r, 1, 3) ? prng_below(r, 8) << 8 : 0);
    nops = longrun ? 400 + (int)prng_below(r, 1600) : small ? 2 + (int)prng_below(r, 9) : 10 + (int)prng_below(r, 70);
    w_clear = (mode == 15) ? 12 : 2;

    for (i = 0; i < nops; i++) {
        int is_d = d_only ? 1 : s_only ? 0 : (int)prng_below(r, 2);
        unsigned x = (unsigned)prng_below(r, 100 + w_clear);
        op_t *o;
        int kind;
        /* pushes dominate slightly so lists grow; lengths 0..5 stay common in short runs */
        if (is_d) {
            if (x < 14) kind = D_PUSH_FRONT; else if (x < 30) kind = D_PUSH_BACK;
            else if (x < 37) kind = D_POP_FRONT; else if (x < 44) kind = D_POP_BACK;
            else if (x < 52) kind = D_INSERT; else if (x < 60) kind = D_ERASE;
            else if (x < 67) kind = D_REVERSE; else if (x < 73) kind = D_SORT;
            else if (x < 79) kind = D_CONCAT; else if (x < 85) kind = D_SWAP;
            else if (x < 91) kind = D_FIND; else if (x < 100) kind = D_FOREACH;
            else kind = D_CLEAR;
        } else {
            if (x < 14) kind = S_PUSH_FRONT; else if (x < 32) kind = S_PUSH_BACK;
            else if (x < 42) kind = S_POP_FRONT;
            else if (x < 52) kind = S_INSERT_AFTER; else if (x < 62) kind = S_ERASE_AFTER;
            else if (x < 70) kind = S_REVERSE; else if (x < 77) kind = S_SORT;
            else if (x < 84) kind = S_CONCAT; else if (x < 91) kind = S_SWAP;
            else if (x < 100) kind = S_FOREACH;
            else kind = S_CLEAR;
        }
        if ((kind == D_FIND || kind == S_FOREACH) && prng_chance(r, 1, 150)) kind = is_d ? D_CHURN : S_CHURN;
        o = plan_add(p, kind);
        o->a[0] = prng_below(r, 3);
        o->a[1] = prng_below(r, 64);
        o->a[2] = prng_next(r) >> 8;
        o->a[3] = prng_below(r, 4);                     /* position bias: 1 = first/tail, 2 = last */
        if (kind == D_FOREACH || kind == S_FOREACH) {
            o->a[3] = prng_chance(r, 1, 2) ? 0 : prng_next(r) >> 8;     /* stop position */
            o->a[4] = prng_below(r, 12);
            o->a[5] = (kind == D_FOREACH && prng_chance(r, 1, 3)) ? prng_below(r, 1001) : 0;
            o->a[6] = prng_next(r) >> 8;
        }
        /* the tail clause: follow tail-moving slist ops with a push_back in a fraction of runs */
        if (!is_d && (kind == S_ERASE_AFTER || kind == S_REVERSE || kind == S_SORT || kind == S_CONCAT
                      || kind == S_SWAP || kind == S_CLEAR || kind == S_POP_FRONT) && prng_chance(r, 1, 2)) {
            op_t *q = plan_add(p, S_PUSH_BACK);
            q->a[0] = o->a[0]; q->a[1] = prng_below(r, 64);
            i++;
        }
        /* C15: refill after clear to prove reusability */
        if ((kind == D_CLEAR || kind == S_CLEAR) && prng_chance(r, 3, 4)) {
            int j, nf = 1 + (int)prng_below(r, 4);
            for (j = 0; j < nf; j++) {
                op_t *q = plan_add(p, kind == D_CLEAR ? (prng_chance(r, 1, 2) ? D_PUSH_BACK : D_PUSH_FRONT)
                                                       : (prng_chance(r, 1, 2) ? S_PUSH_BACK : S_PUSH_FRONT));
                q->a[0] = o->a[0]; q->a[1] = prng_below(r, 64);
            }
        }
    }
}

static const char *l_crash_prop(const plan_t *p, int opkind)
{
    (void)p; (void)opkind;
    return g_cur_prop;
}

const world_t world_lists = { "lists", l_gen, l_exec, l_opname, l_crash_prop };
