/*
 * World "map": cstl_map (C08), clear with a freeing callback (C15), node
 * allocation failure (C16).
 * mode 8: histories with attached allocation faults in a fraction of runs;
 * mode 15: clear-heavy with freeing callbacks; mode 16: fault enumeration.
 */
#include "../core/sim.h"

#include "cstl/map.h"

#include <string.h>

enum { M_INSERT = 1, M_FIND, M_ERASE, M_ERASE_IT, M_CLEAR, M_CHURN };

static const char *m_opname(int k)
{
    switch (k) {
    case M_INSERT: return "insert"; case M_FIND: return "find"; case M_ERASE: return "erase";
    case M_ERASE_IT: return "erase_iterator"; case M_CLEAR: return "clear"; case M_CHURN: return "churn";
    }
    return "?";
}

enum { CF_KEYS, CF_JUNK, CF_MAXN, CF_CLEARFREES, CF_CMP, CF_FAULTS, CF_INTKEYS };

#define MAXN 700
#define KMAGIC 0x6b65796b65796b65ull
#define VMAGIC 0x76616c76616c7661ull

struct mkey { uint64_t magic; int id, val; uint64_t tail; };
struct mval { uint64_t magic; int id; uint64_t tail; };
struct ment { struct mkey *k; struct mval *v; int kid, vid; };

static cstl_map_t map;
static struct ment ent[MAXN];
static int nent, keys, maxn, clear_frees, cmpkind, next_id, since_clear, mode_g;
static unsigned maxreach;
static uint64_t cmp_cookie;

static const char *prop_now(void)
{
    if (since_clear >= 0 && since_clear <= 3) return "C15";
    return mode_g == 16 ? "C16" : "C08";
}
static const char *ctx_now(void) { return (since_clear >= 0 && since_clear <= 3) ? "after-clear" : "map"; }

#define VIOLP(prop, oracle, ...) do { char _k[128]; \
        snprintf(_k, sizeof _k, "%s/%s/%s/%s", (mode_g == 16 && g_hs.fired) ? "C16" : prop, oracle, m_opname(g_run.opkind), g_cur_ctx); \
        sim_violation(_k, __VA_ARGS__); } while (0)
#define VIOL(oracle, ...) VIOLP(prop_now(), oracle, __VA_ARGS__)

static int keyorder(int a, int b, int kind)
{
    switch (kind) {
    default:
    case 0: return (a > b) - (a < b);
    case 1: return (b > a) - (b < a);
    case 2: {
        int ma = a % 5, mb = b % 5;
        if (ma != mb) return (ma > mb) - (ma < mb);
        return (a > b) - (a < b);
    }
    }
}

/* cmpkind 3: the caller's comparison function itself consults ANOTHER map (a rank table); a library whose
 * lookups share hidden state across maps or calls cannot survive that */
static cstl_map_t aux;
static int aux_nodes;
static struct mkey auxkeys[640];

static int cmp_aux(const void *a, const void *b, void *priv)
{
    const struct mkey *x = a, *y = b;
    (void)priv;
    return (x->val > y->val) - (x->val < y->val);
}

static int rank_of(const struct mkey *k)
{
    cstl_map_iterator_t it;
    int saved = g_inlib;
    g_inlib = 1;
    cstl_map_find(&aux, k, &it);
    g_inlib = saved;
    return it.val ? (int)(intptr_t)it.val : -1;
}

static int nested_same_map, nested_active, nested_done, nested_bad, nested_val; static const struct mkey *nested_expect;

static int cmp_keys(const void *a, const void *b, void *priv)
{
    const struct mkey *x = a, *y = b;
    (void)priv;
    /* a key object that the caller has already released must not be handed to the comparison function */
    if ((simheap_id(a) >= 0 && !simheap_is_live(a)) || (simheap_id(b) >= 0 && !simheap_is_live(b))) {
        int saved = g_inlib; g_inlib = 0; (void)saved;
        sim_violation("C08/compare_released_key/erase_iterator/map", "the comparison function was handed a key object the caller had already released");
    }
    if (nested_same_map && !nested_active && g_run.opkind == M_FIND && x->val != nested_val && y->val != nested_val) {
        /* a read inside a read: while a lookup is under way the comparison function looks ANOTHER key up in the same
         * map (recursion is cut at one level); the outer lookup must still find what it was looking for */
        static struct mkey np; cstl_map_iterator_t it2; int saved = g_inlib;
        nested_active = 1;
        np.magic = KMAGIC; np.tail = ~KMAGIC; np.id = -8; np.val = nested_val;
        g_inlib = 1; cstl_map_find(&map, &np, &it2); g_inlib = saved;
        nested_active = 0;
        if ((it2.key != NULL) != (nested_expect != NULL) || (nested_expect && it2.key != (const void *)nested_expect)) nested_bad = 1;
        nested_done = 1;
    }
    if (cmpkind == 3 && aux_nodes) {
        CB_ENTER();
        int rx = rank_of(x), ry = rank_of(y), r;
        r = (rx > ry) - (rx < ry);
        CB_LEAVE();
        return sim_cmp(r);
    }
    return sim_cmp(keyorder(x->val, y->val, cmpkind));
}

static struct mkey *new_key(int val)
{
    struct mkey *k = simheap_alloc(sizeof *k, TAG_ELEM);
    k->magic = KMAGIC; k->tail = ~KMAGIC; k->id = next_id++; k->val = val;
    return k;
}
static struct mval *new_val(void)
{
    struct mval *v = simheap_alloc(sizeof *v, TAG_ELEM);
    v->magic = VMAGIC; v->tail = ~VMAGIC; v->id = next_id++;
    return v;
}

static int find_ent(int val)
{
    int i;
    for (i = 0; i < nent; i++) if (ent[i].k->val == val) return i;
    return -1;
}

/* ------------------------------------------------------ embedded tree audit */

static int a_count;
static const struct cstl_bintree_node *a_prev;

static int audit_node(const struct cstl_bintree_node *n, const struct cstl_bintree_node *parent, int depth)
{
    const struct cstl_rbtree_node *rn;
    int lh, rh, black;
    if (n == NULL) return 0;
    if (depth > 64 || a_count > nent + 2) VIOL("tree_cycle", "walk over the map's tree does not terminate");
    {
        int live; size_t off, size;
        if (simheap_find(n, &live, &off, &size) < 0 || !live || off + sizeof(*n) > size)
            VIOL("tree_dangling", "the map's tree links to memory that is not inside a live map node");
    }
    a_count++;
    if (n->p != parent) VIOL("tree_parent", "map tree: a parent link is wrong");
    rn = (const struct cstl_rbtree_node *)((const char *)n - offsetof(struct cstl_rbtree_node, n));
    lh = audit_node(n->l, n, depth + 1);
    if (a_prev) {
        static int c;
        TRY(c = __cstl_bintree_cmp(&map.t.t, a_prev, n));
        if (c >= 0) VIOL("tree_order", "map tree: in-order neighbours are not strictly increasing (duplicate or misplaced key)");
    }
    a_prev = n;
    rh = audit_node(n->r, n, depth + 1);
    black = rn->c == CSTL_RBTREE_COLOR_B;
    if (!black) {
        const struct cstl_rbtree_node *l = n->l ? (const void *)((const char *)n->l - offsetof(struct cstl_rbtree_node, n)) : NULL;
        const struct cstl_rbtree_node *r = n->r ? (const void *)((const char *)n->r - offsetof(struct cstl_rbtree_node, n)) : NULL;
        if ((l && l->c == CSTL_RBTREE_COLOR_R) || (r && r->c == CSTL_RBTREE_COLOR_R))
            VIOL("tree_red_red", "map tree: red node with a red child");
    }
    if (lh != rh) VIOL("tree_black_height", "map tree: black heights differ (%d vs %d)", lh, rh);
    return lh + black;
}

static void audit_map(int full)
{
    int i;
    uint64_t sh = 0x3a9;
    static cstl_map_iterator_t it;
    if (cstl_map_size(&map) != (size_t)nent) VIOL("size", "map reports size %zu, reference has %d", cstl_map_size(&map), nent);
    if (simheap_live_count(TAG_LIB) < (unsigned)(nent + aux_nodes))
        VIOL("node_blocks", "only %u library blocks are allocated for %d entries", simheap_live_count(TAG_LIB), nent);
    a_count = 0; a_prev = NULL;
    audit_node(map.t.t.root, NULL, 0);
    if (a_count != nent) VIOL("tree_count", "map tree holds %d nodes for %d entries", a_count, nent);
    if (full) {
        for (i = 0; i < nent; i++) {
            static struct mkey probe;
            probe.magic = KMAGIC; probe.val = ent[i].k->val; probe.id = -1;
            TRY(cstl_map_find(&map, &probe, &it));
            if (g_aborted) VIOL("abort", "find aborted");
            if (it.key != ent[i].k || it.val != ent[i].v)
                VIOL("audit_find", "entry for key %d is not found with its stored key/value pointers", ent[i].k->val);
            if (ent[i].k->magic != KMAGIC || ent[i].k->tail != ~KMAGIC || ent[i].v->magic != VMAGIC || ent[i].v->tail != ~VMAGIC)
                VIOL("payload_damaged", "a stored key or value object was modified");
        }
    }
    for (i = 0; i < nent; i++) sh += fnv1a(0x77, (uint64_t)ent[i].k->val);      /* order independent */
    sh = fnv1a(sh, (uint64_t)nent);
    state_note(sh);
    if ((unsigned)nent > maxreach) maxreach = (unsigned)nent;
}

/* ------------------------------------------------------------------- clear */

struct clrrec { const void *k, *v; int kid, vid; };
static struct clrrec clr[MAXN + 8];
static int nclr;

/* a map of maps: the clear callback clears a small independent map (another callback, another private pointer) */
static int ncm_calls, ncm_bad; static char ncm_token; static struct mkey ncm_keys[3];
static void ncm_cb(void *obj, void *priv)
{
    cstl_map_iterator_t *it = obj;
    const struct mkey *k = it->key;
    if (priv != (void *)&ncm_token || k < ncm_keys || k >= ncm_keys + 3 || it->val != (void *)&ncm_token) ncm_bad++;
    ncm_calls++;
}
static void nested_map_clear(void)
{
    static cstl_map_t nm; int q, saved = g_inlib;
    ncm_calls = ncm_bad = 0;
    g_inlib = 1;
    cstl_map_init(&nm, cmp_aux, NULL);
    for (q = 0; q < 3; q++) {
        ncm_keys[q].magic = KMAGIC; ncm_keys[q].tail = ~KMAGIC; ncm_keys[q].id = -5; ncm_keys[q].val = q;
        if (cstl_map_insert(&nm, &ncm_keys[q], &ncm_token, NULL) != 0) { g_inlib = saved; return; }     /* an injected allocation failure: nothing to examine */
    }
    cstl_map_clear(&nm, ncm_cb, &ncm_token);
    g_inlib = saved;
    if (ncm_calls != 3 || ncm_bad || cstl_map_size(&nm) != 0)
        sim_violation("C15/nested_clear/clear/map-of-maps", "an independent 3-entry map cleared from inside a clear callback: %d callbacks (%d with a wrong entry or private pointer)", ncm_calls, ncm_bad);
    PROBE("clear_callback_clears_another_map");
}

static void clear_cb(void *obj, void *priv)
{
    CB_ENTER();
    cstl_map_iterator_t *it = obj;
    if (cmpkind == 3 && mode_g != 16) nested_map_clear();
    struct clrrec *c = nclr < MAXN + 8 ? &clr[nclr] : NULL;
    struct mkey *k = (struct mkey *)it->key;
    struct mval *v = it->val;
    if (priv != &cmp_cookie) { if (c) c->kid = -2; }
    if (c) {
        c->k = k; c->v = v; c->kid = -1; c->vid = -1;
        if (simheap_is_live(k) && k->magic == KMAGIC) c->kid = k->id;
        if (simheap_is_live(v) && v->magic == VMAGIC) c->vid = v->id;
        if (priv != &cmp_cookie) c->kid = -2;
    }
    nclr++;
    if (clear_frees) {
        if (simheap_is_live(k) && k->magic == KMAGIC) { memset(k, 0xDD, sizeof *k); simheap_free(k); }
        if (simheap_is_live(v) && v->magic == VMAGIC) { memset(v, 0xDD, sizeof *v); simheap_free(v); }
    }
    CB_LEAVE();
}

static int held_kid[2];
static void do_clear(void)
{
    held_kid[0] = held_kid[1] = -1;
    int npre = nent, i, j;
    static unsigned char used[MAXN];
    static struct ment pre[MAXN];
    memcpy(pre, ent, sizeof(ent[0]) * (size_t)nent);
    nclr = 0;
    since_clear = 0; g_cur_prop = "C15"; g_cur_ctx = "after-clear";
    TRY(cstl_map_clear(&map, clear_cb, &cmp_cookie));
    nent = 0;
    if (g_aborted) VIOLP("C15", "abort", "clear aborted");
    if (nclr != npre) VIOLP("C15", "clear_count", "clear called back %d times for %d entries", nclr, npre);
    memset(used, 0, (size_t)npre + 1);
    for (i = 0; i < nclr; i++) {
        if (clr[i].kid == -2) VIOLP("C15", "clear_priv", "clear callback received the wrong private pointer");
        if (clr[i].kid < 0 || clr[i].vid < 0) VIOLP("C15", "clear_foreign", "clear handed over a key/value that is not a live stored object (call %d)", i);
        for (j = 0; j < npre; j++) if (!used[j] && pre[j].kid == clr[i].kid && pre[j].vid == clr[i].vid) { used[j] = 1; break; }
        if (j == npre) VIOLP("C15", "clear_multiset", "clear handed over a (key,value) pair that is not an entry, or twice (call %d)", i);
    }
    if (simheap_live_count(TAG_LIB) != (unsigned)aux_nodes)
        VIOLP(mode_g == 16 ? "C16" : "C08", "clear_leak", "%u map nodes still allocated after clear", simheap_live_count(TAG_LIB) - (unsigned)aux_nodes);
    if (!clear_frees) for (i = 0; i < npre; i++) { simheap_free(pre[i].k); simheap_free(pre[i].v); }
    PROBE("map_clear"); if (npre == 0) PROBE("map_clear_empty");
    EVT("clear", nclr, 0, 0);
}

/* -------------------------------------------------------------------- exec */

/* ---------------------------------------------- maps keyed by small integers */

/*
 * A map used as a set/dictionary of integers cast to pointers: the key 0 is the NULL pointer and some values are
 * NULL too. Nothing in the API forbids that; code that uses "key == NULL" or "val == NULL" as a sentinel breaks.
 */
static int ik_cmp(const void *a, const void *b, void *priv)
{
    uintptr_t x = (uintptr_t)a, y = (uintptr_t)b;
    (void)priv;
    return sim_cmp((x > y) - (x < y));
}
#define IKMAX 64
static int ik_seen[IKMAX], ik_bad;
static void ik_clear_cb(void *obj, void *priv)
{
    CB_ENTER();
    cstl_map_iterator_t *it = obj;
    uintptr_t k = (uintptr_t)it->key;
    (void)priv;
    if (k < IKMAX && (uintptr_t)it->val == (k % 3 == 0 ? 0 : k * 8 + 1)) ik_seen[k]++; else ik_bad++;
    CB_LEAVE();
}

/* a very large map: 131 072 ... 300 000 integer keys inserted in ascending / descending / random order (the embedded
 * red-black tree gets 32-35 levels deep), every key found, a quarter erased, cleared (every remaining entry handed over
 * exactly once, every node released), used again */
static uint64_t hm_calls, hm_sum, hm_bad; static size_t hm_n;
static void hm_clear_cb(void *obj, void *priv)
{
    cstl_map_iterator_t *it = obj; uintptr_t k = (uintptr_t)it->key;
    if (priv != (void *)&hm_calls || k < 1 || k > hm_n || it->val != (void *)(k * 2)) hm_bad++;
    hm_calls++; hm_sum += k;
}
static void huge_map(const plan_t *p)
{
    static const size_t sizes[] = { 131072, 200000, 262144, 300000 };
    struct simheap_cfg hc = { RP_MOVE, (uint64_t)1 << 30, (unsigned char)p->cfg[CF_JUNK] };
    static cstl_map_t hm; static cstl_map_iterator_t it; static int rc;
    /* map clear is in C08's statement and in C15's: the batch of either check runs this, under its own label */
    const char *clrprop = p->mode == 115 ? "C15" : "C08";
    size_t n = sizes[p->cfg[CF_KEYS] % 4], i, erased = 0; int pattern = (int)(p->cfg[CF_CMP] % 3); uint64_t x = p->cfg[CF_MAXN], expect = 0;
    simheap_reset(&hc, p->cfg[CF_JUNK]);
    simheap_far((int)p->cfg[CF_FAR]);
    sim_watchdog(100);
    mode_g = p->mode; since_clear = -1; aux_nodes = 0; hm_n = n;
    g_cur_prop = "C08"; g_cur_ctx = "huge-map"; g_run.step = 0; g_run.opkind = M_INSERT; g_run.steps++;
    memset(&hm, (int)(unsigned char)p->cfg[CF_JUNK], sizeof hm);
    cstl_map_init(&hm, ik_cmp, NULL);
    for (i = 0; i < n; i++) {
        uintptr_t k = pattern == 0 ? i + 1 : pattern == 1 ? n - i : 1 + (uintptr_t)(splitmix64(&x) % n);
        g_inlib = 1; rc = cstl_map_insert(&hm, (const void *)k, (void *)(k * 2), NULL); g_inlib = 0;
        if (rc < 0) sim_harness_bug("map: huge map could not allocate");
    }
    if (pattern == 2) n = cstl_map_size(&hm);       /* random keys repeat */
    else if (cstl_map_size(&hm) != n) VIOL("size", "huge map reports size %zu after %zu distinct inserts", cstl_map_size(&hm), n);
    g_run.opkind = M_FIND;
    for (i = 1; i <= hm_n; i += 1 + hm_n / 50000) {
        TRY(cstl_map_find(&hm, (const void *)i, &it));
        if (pattern != 2 && (it.key != (const void *)i || it.val != (void *)(i * 2))) VIOL("find_present", "huge map: key %zu is stored but find did not yield it", i);
    }
    g_run.opkind = M_ERASE;
    /* in half of the runs nothing is erased: the tree is cleared at its full height */
    if (p->cfg[CF_MAXN] & 1)
    for (i = 1; i <= hm_n; i += 4) {
        TRY(rc = cstl_map_erase(&hm, (const void *)i, &it));
        if (rc == 0) { erased++; if (it.key != (const void *)i) VIOL("erase_reports", "huge map: erase of key %zu reported another entry", i); }
        else if (pattern != 2) VIOL("erase_present_rc", "huge map: erase of stored key %zu returned %d", i, rc);
    }
    if (cstl_map_size(&hm) != n - erased) VIOL("size", "huge map reports size %zu, reference has %zu", cstl_map_size(&hm), n - erased);
    /* what is left: found by walking the keys (the model for the clear) */
    for (i = 1; i <= hm_n; i++) { g_inlib = 1; cstl_map_find(&hm, (const void *)i, &it); g_inlib = 0; if (it.key == (const void *)i) expect += i; }
    g_cur_prop = clrprop; g_cur_ctx = "huge-map-clear"; g_run.opkind = M_CLEAR;
    hm_calls = hm_sum = hm_bad = 0;
    TRY(cstl_map_clear(&hm, hm_clear_cb, &hm_calls));
    if (g_aborted) VIOLP(clrprop, "abort", "clear of a huge map aborted");
    if (hm_bad) VIOLP(clrprop, "clear_foreign", "clear of a huge map handed over %llu entries that were never stored (or a wrong private pointer)", (unsigned long long)hm_bad);
    if (hm_calls != n - erased || hm_sum != expect) VIOLP(clrprop, "clear_count", "clear of a map of %zu entries called back %llu times (key sum %llu, expected %llu)", n - erased, (unsigned long long)hm_calls, (unsigned long long)hm_sum, (unsigned long long)expect);
    if (cstl_map_size(&hm) != 0) VIOLP(clrprop, "size", "size is %zu after clear", cstl_map_size(&hm));
    if (simheap_live_count(TAG_LIB) != 0) VIOLP("C08", "clear_leak", "%u map nodes still allocated after clear", simheap_live_count(TAG_LIB));
    TRY(rc = cstl_map_insert(&hm, (const void *)7, (void *)14, &it));
    if (rc != 0 || cstl_map_size(&hm) != 1) VIOLP(clrprop, "reuse", "the cleared huge map is not usable like a fresh one");
    TRY(cstl_map_clear(&hm, NULL, NULL));
    simheap_audit("C08", "huge-map");
    PROBE("huge_map"); if (hm_n >= 200000 && pattern != 2) PROBE("huge_map_deeper_than_32_levels");
    EVT("huge_map", hm_n, pattern, erased);
    g_run.nontrivial = 1;
}

static void intkey_once(const plan_t *p)
{
    struct simheap_cfg hc = { RP_MOVE, 0, (unsigned char)p->cfg[CF_JUNK] };
    static cstl_map_t im; static cstl_map_iterator_t it; static int rc;
    int present[IKMAX], n = 0, k, i, nk = (int)(p->cfg[CF_KEYS] % IKMAX) + 1;
    simheap_reset(&hc, p->cfg[CF_JUNK]);
    simheap_far((int)p->cfg[CF_FAR]);
    mode_g = p->mode; since_clear = -1; aux_nodes = 0;
    memset(present, 0, sizeof present);
    memset(&im, (int)(unsigned char)p->cfg[CF_JUNK], sizeof im);
    cstl_map_init(&im, ik_cmp, NULL);
    for (k = 0; k <= p->nops; k++) {
        const op_t *o = k < p->nops ? &p->ops[k] : NULL;
        int kind = o ? o->kind : M_CLEAR;
        uintptr_t key = o ? (uintptr_t)(o->a[0] % (uint64_t)nk) : 0;
        void *val = (void *)(key % 3 == 0 ? (uintptr_t)0 : key * 8 + 1);
        g_run.step = k; g_run.opkind = kind; g_run.steps++;
        g_cur_prop = kind == M_CLEAR ? "C15" : "C08"; g_cur_ctx = key == 0 ? "int-key-0" : "int-keys";
        switch (kind) {
        case M_INSERT:
            memset(&it, 0x5a, sizeof it);
            TRY(rc = cstl_map_insert(&im, (const void *)key, val, &it));
            if (g_aborted) VIOL("abort", "insert aborted");
            if (rc != (present[key] ? 1 : 0)) VIOL("insert_rc", "insert of integer key %zu returned %d (present before: %d)", (size_t)key, rc, present[key]);
            if (it.key != (const void *)key || it.val != val) VIOL("insert_it", "iterator after inserting integer key %zu does not carry its key/value", (size_t)key);
            if (!present[key]) { present[key] = 1; n++; }
            if (key == 0) PROBE("int_key_zero_inserted");
            break;
        case M_FIND:
            memset(&it, 0x5a, sizeof it);
            TRY(cstl_map_find(&im, (const void *)key, &it));
            if (present[key]) { if (it._ == NULL || it.key != (const void *)key || it.val != val) VIOL("find_present", "integer key %zu is stored but find did not yield it", (size_t)key); }
            else if (!cstl_map_iterator_eq(&it, cstl_map_iterator_end(&im))) VIOL("find_absent", "find of absent integer key %zu did not yield the end iterator", (size_t)key);
            break;
        case M_ERASE: case M_ERASE_IT:
            memset(&it, 0x5a, sizeof it);
            TRY(rc = cstl_map_erase(&im, (const void *)key, &it));
            if (g_aborted) VIOL("abort", "erase aborted");
            if (rc != (present[key] ? 0 : -1)) VIOL("erase_rc", "erase of integer key %zu returned %d (present before: %d)", (size_t)key, rc, present[key]);
            if (present[key] && (it.key != (const void *)key || it.val != val)) VIOL("erase_reports", "erase of integer key %zu did not report the removed entry", (size_t)key);
            if (present[key]) { present[key] = 0; n--; }
            break;
        default: {  /* clear (also the epilogue) */
            memset(ik_seen, 0, sizeof ik_seen); ik_bad = 0;
            since_clear = 0; g_cur_prop = "C15"; g_cur_ctx = "int-keys-clear";
            TRY(cstl_map_clear(&im, ik_clear_cb, NULL));
            if (g_aborted) VIOLP("C15", "abort", "clear aborted");
            if (ik_bad) VIOLP("C15", "clear_foreign", "clear handed over %d entries that were never stored", ik_bad);
            for (i = 0; i < IKMAX; i++) if (ik_seen[i] != present[i])
                VIOLP("C15", "clear_count", "clear called back %d times for integer key %d (stored: %d; key 0 is the NULL pointer, every third value is NULL)", ik_seen[i], i, present[i]);
            if (simheap_live_count(TAG_LIB) != 0) VIOLP("C08", "clear_leak", "%u map nodes still allocated after clear", simheap_live_count(TAG_LIB));
            memset(present, 0, sizeof present); n = 0;
            PROBE("int_key_map_clear");
            since_clear = -1;
            break;
        }
        }
        if (cstl_map_size(&im) != (size_t)n) VIOL("size", "map of integer keys reports size %zu, reference has %d", cstl_map_size(&im), n);
    }
    g_run.nontrivial = 1;
}

/* iterators held by the caller across other operations: an iterator designates its entry for as long as that entry
 * is in the map, whatever happens to other entries (the map is node based; nothing in the interface says otherwise) */
static cstl_map_iterator_t held[2]; static int held_others[2];
static void held_forget(int kid) { int q; for (q = 0; q < 2; q++) if (held_kid[q] == kid) held_kid[q] = -1; else if (held_kid[q] >= 0) held_others[q]++; }

static void m_once(const plan_t *p)
{
    struct simheap_cfg hc = { RP_MOVE, 0, (unsigned char)p->cfg[CF_JUNK] };
    int k;
    static cstl_map_iterator_t it;
    static struct mkey probe;
    static int rc;

    if (p->mode == 108 || p->mode == 115) { huge_map(p); return; }
    if (p->cfg[CF_INTKEYS] && p->mode != 16) { intkey_once(p); return; }
    simheap_reset(&hc, p->cfg[CF_JUNK]);
    simheap_far((int)p->cfg[CF_FAR]);
    faultenum_apply();
    mode_g = p->mode;
    keys = (int)p->cfg[CF_KEYS]; if (keys < 1) keys = 1;
    maxn = (int)p->cfg[CF_MAXN]; if (maxn < 1) maxn = 4; if (maxn > MAXN - 4) maxn = MAXN - 4;
    clear_frees = (int)p->cfg[CF_CLEARFREES];
    cmpkind = (int)(p->cfg[CF_CMP] % 4);
    if (cmpkind == 3 && (p->mode == 16 || keys > 600)) cmpkind = 1;
    nent = 0; next_id = 0; since_clear = -1; maxreach = 0; aux_nodes = 0;
    held_kid[0] = held_kid[1] = -1;
    if (cmpkind == 3) {
        /* rank table: value v ranks keys - v (a reversed order, looked up through a second map) */
        int v;
        cstl_map_init(&aux, cmp_aux, NULL);
        for (v = 0; v < keys; v++) {
            static int rc2;
            auxkeys[v].magic = KMAGIC; auxkeys[v].tail = ~KMAGIC; auxkeys[v].id = -2; auxkeys[v].val = v;
            TRY(rc2 = cstl_map_insert(&aux, &auxkeys[v], (void *)(intptr_t)(keys - v), NULL));
            if (rc2 != 0) sim_harness_bug("map: aux insert failed");
        }
        aux_nodes = keys;
        PROBE("comparator_consults_another_map");
    }
    memset(&map, (int)(unsigned char)p->cfg[CF_JUNK], sizeof map);
    cstl_map_init(&map, cmp_keys, &cmp_cookie);
    probe.magic = KMAGIC; probe.tail = ~KMAGIC; probe.id = -1;

    for (k = 0; k < p->nops; k++) {
        const op_t *o = &p->ops[k];
        int val = (int)(o->a[0] % (uint64_t)keys), ei;
        g_run.step = k; g_run.opkind = o->kind; g_run.steps++;
        g_cur_prop = prop_now(); g_cur_ctx = ctx_now();
        ei = find_ent(val);

        switch (o->kind) {
        case M_INSERT: {
            struct mkey *nk; struct mval *nv; int with_it = (int)(o->a[2] & 1) == 0;
            if (ei < 0 && nent >= maxn) goto do_erase;
            nk = new_key(val); nv = new_val();
            if (ei < 0 && (o->a[2] & 6) == 2 && p->mode != 16) {
                /* the caller's key object is first used, with other contents, for a lookup that misses, then filled in
                 * with the real key and inserted (a scratch record re-used): what the map learnt about the object's
                 * ADDRESS during the lookup says nothing about the key it holds now */
                int j, other = -1;
                for (j = 1; j <= keys && other < 0; j++) if (find_ent((val + j * 7) % keys) < 0 && (val + j * 7) % keys != val) other = (val + j * 7) % keys;
                if (other >= 0) {
                    nk->val = other;
                    TRY(cstl_map_find(&map, nk, &it));
                    if (g_aborted) VIOL("abort", "find aborted");
                    if (!cstl_map_iterator_eq(&it, cstl_map_iterator_end(&map))) VIOL("find_absent", "find of absent key %d did not yield the end iterator", other);
                    nk->val = val;
                    PROBE("insert_with_key_object_reused_after_failed_find");
                }
            }
            memset(&it, 0x5a, sizeof it);
            if (p->mode != 16) simheap_fail_in_op((unsigned)o->a[1]);
            TRY(rc = cstl_map_insert(&map, nk, nv, with_it ? &it : NULL));
            if (g_aborted) VIOL(g_aborted == 2 ? "assert" : "abort", "insert aborted");
            if (ei >= 0) {
                PROBE("insert_existing");
                if (rc != 1) VIOL("insert_existing_rc", "insert of an existing key returned %d, expected 1", rc);
                if (with_it && (it.key != ent[ei].k || it.val != ent[ei].v))
                    VIOL("insert_existing_it", "iterator after inserting an existing key does not carry the originally stored key/value pointers");
                simheap_free(nk); simheap_free(nv);
            } else if (g_hs.fired_in_op || g_hs.enomem_in_op) {
                PROBE("alloc_fail_fired");
                if (rc != -1) VIOLP(p->mode == 16 ? "C16" : "C08", "insert_fail_rc", "insert with a failed node allocation returned %d, expected -1", rc);
                if (with_it && (!cstl_map_iterator_eq(&it, cstl_map_iterator_end(&map)) || it.key != NULL || it.val != NULL))
                    VIOLP(p->mode == 16 ? "C16" : "C08", "insert_fail_it", "iterator after a failed insert is not the end iterator");
                simheap_free(nk); simheap_free(nv);
            } else {
                PROBE("insert_new");
                if (rc != 0) VIOL("insert_new_rc", "insert of a new key returned %d, expected 0", rc);
                if (with_it && (it.key != nk || it.val != nv)) VIOL("insert_new_it", "iterator after inserting a new key does not carry the new key/value");
                ent[nent].k = nk; ent[nent].v = nv; ent[nent].kid = nk->id; ent[nent].vid = nv->id; nent++;
            }
            EVT("insert", val, rc, nent);
            break;
        }
        case M_FIND:
            if ((o->a[2] & 1) && nent > 0) { ei = (int)(o->a[3] % (uint64_t)nent); val = ent[ei].k->val; }
            probe.val = val;
            memset(&it, 0x5a, sizeof it);
            if ((o->a[2] & 6) == 6) {
                /* the probe key lives in the same memory as the result iterator (nothing forbids it: no restrict) */
                static union { cstl_map_iterator_t it; struct mkey k; } alias;
                alias.k.magic = KMAGIC; alias.k.id = -1; alias.k.val = val; alias.k.tail = ~KMAGIC;
                TRY(cstl_map_find(&map, &alias.k, &alias.it));
                it = alias.it;
                PROBE("find_probe_aliases_iterator");
            } else {
                nested_same_map = 0; nested_done = 0; nested_bad = 0;
                if ((o->a[2] >> 3 & 3) == 3 && cmpkind != 3 && nent > 0 && p->mode != 16) {
                    int pick = (int)((o->a[3] >> 9) % (uint64_t)(nent + 1));
                    nested_same_map = 1;
                    if (pick < nent) { nested_val = ent[pick].k->val; nested_expect = ent[pick].k; }
                    else { nested_val = keys + 11; nested_expect = NULL; }
                }
                TRY(cstl_map_find(&map, &probe, &it));
                nested_same_map = 0;
                if (nested_done) { PROBE("find_nested_in_comparison_function"); if (nested_bad) VIOL("nested_find", "a lookup of key %d made from inside the comparison function of another lookup on the same map returned the wrong answer", nested_val); }
            }
            if (g_aborted) VIOL("abort", "find aborted");
            if (ei >= 0) {
                PROBE("find_present");
                if (it.key != ent[ei].k || it.val != ent[ei].v) VIOL("find_present", "find of key %d did not yield the stored pointers", val);
                if (o->a[2] & 8) { int q = (int)(o->a[2] >> 4 & 1); held[q] = it; held_kid[q] = ent[ei].kid; held_others[q] = 0; }
            } else {
                PROBE("find_absent");
                if (!cstl_map_iterator_eq(&it, cstl_map_iterator_end(&map))) VIOL("find_absent", "find of absent key %d did not yield the end iterator", val);
            }
            EVT("find", val, ei >= 0, 0);
            break;
        case M_ERASE: do_erase:
            if (o->kind == M_INSERT || ((o->a[2] & 3) != 0 && nent > 0)) { ei = (int)(o->a[3] % (uint64_t)nent); val = ent[ei].k->val; }
            probe.val = val;
            memset(&it, 0x5a, sizeof it);
            TRY(rc = cstl_map_erase(&map, &probe, (o->a[2] & 4) ? NULL : &it));
            if (g_aborted) VIOL(g_aborted == 2 ? "assert" : "abort", "erase aborted");
            if (ei >= 0) {
                PROBE("erase_present");
                if (rc != 0) VIOL("erase_present_rc", "erase of a present key returned %d", rc);
                if (!(o->a[2] & 4) && (it.key != ent[ei].k || it.val != ent[ei].v)) VIOL("erase_reports", "erase did not report the stored pointers of the removed entry");
                held_forget(ent[ei].kid);
                simheap_free(ent[ei].k); simheap_free(ent[ei].v);
                ent[ei] = ent[--nent];
            } else {
                PROBE("erase_absent");
                if (rc != -1) VIOL("erase_absent_rc", "erase of an absent key returned %d, expected -1", rc);
                if (!(o->a[2] & 4) && !cstl_map_iterator_eq(&it, cstl_map_iterator_end(&map))) VIOL("erase_absent_it", "erase of an absent key did not yield the end iterator");
            }
            EVT("erase", val, rc, nent);
            break;
        case M_ERASE_IT:
            if (nent == 0) { EVT("skip", 0, 0, 0); break; }
            ei = (int)(o->a[3] % (uint64_t)nent); val = ent[ei].k->val;
            {
                int q = (int)(o->a[2] >> 4 & 1), e2;
                if ((o->a[2] & 8) && held_kid[q] >= 0) {
                    /* erase through an iterator obtained earlier; other entries have come and gone since */
                    for (e2 = 0; e2 < nent; e2++) if (ent[e2].kid == held_kid[q]) break;
                    if (e2 == nent) sim_harness_bug("map: held iterator for an entry the model does not have");
                    ei = e2; val = ent[ei].k->val;
                    it = held[q];
                    g_cur_ctx = "held-iterator";
                    if (held_others[q]) PROBE("erase_iterator_held_across_other_erases");
                    if (it.key != ent[ei].k || it.val != ent[ei].v) sim_harness_bug("map: held iterator contents changed in the harness");
                    goto have_it;
                }
            }
            probe.val = val;
            TRY(cstl_map_find(&map, &probe, &it));
            if (g_aborted) VIOL("abort", "find aborted");
            if (it.key != ent[ei].k || it.val != ent[ei].v) VIOL("find_present", "find of key %d did not yield the stored pointers", val);
        have_it:
            held_forget(ent[ei].kid);
            if ((o->a[2] & 3) == 3) {
                /* erase by iterator needs no key: the caller may already have released the record that held it */
                memset(ent[ei].k, 0xDD, sizeof *ent[ei].k); simheap_free(ent[ei].k); ent[ei].k = NULL;
                PROBE("erase_iterator_after_key_released");
            }
            TRY(cstl_map_erase_iterator(&map, &it));
            if (g_aborted) VIOL(g_aborted == 2 ? "assert" : "abort", "erase_iterator aborted");
            if (ent[ei].k) simheap_free(ent[ei].k);
            simheap_free(ent[ei].v);
            ent[ei] = ent[--nent];
            PROBE("erase_iterator");
            EVT("erase_it", val, 0, nent);
            break;
        case M_CLEAR:
            do_clear();
            break;
        case M_CHURN: {
            /* something that only matters on the n-th repetition: an entry is found and erased through the iterator,
             * then a transient entry is inserted and erased through its iterator 254 ... 65 537 times in a row with no
             * lookup in between (removal counts around 2^8 and 2^16), then the first key is looked up again */
            static const unsigned reps[] = { 254, 255, 256, 65534, 65535, 65536 };
            static struct mkey transient; unsigned n = reps[o->a[2] % 6], q;
            if (nent == 0 || cmpkind == 3 || p->mode == 16) { EVT("skip", 0, 0, 0); break; }     /* not under injected allocation failures: the transient inserts must succeed */
            ei = (int)(o->a[3] % (uint64_t)nent); val = ent[ei].k->val;
            probe.val = val;
            TRY(cstl_map_find(&map, &probe, &it));
            if (it.key != ent[ei].k) VIOL("find_present", "find of key %d did not yield the stored pointers", val);
            TRY(cstl_map_erase_iterator(&map, &it));
            held_forget(ent[ei].kid);
            simheap_free(ent[ei].k); simheap_free(ent[ei].v); ent[ei] = ent[--nent];
            transient.magic = KMAGIC; transient.tail = ~KMAGIC; transient.id = -6; transient.val = keys + 7;      /* beyond every key in use */
            g_cur_ctx = n > 60000 ? "churn-2^16" : "churn-2^8";
            for (q = 0; q < n; q++) {
                g_inlib = 1;
                rc = cstl_map_insert(&map, &transient, NULL, &it);
                if (rc == 0) cstl_map_erase_iterator(&map, &it);
                g_inlib = 0;
                if (rc != 0) VIOL("insert_new_rc", "insert of a key that is not in the map returned %d (repetition %u)", rc, q);
            }
            TRY(cstl_map_find(&map, &probe, &it));
            if (g_aborted) VIOL("abort", "find aborted");
            if (!cstl_map_iterator_eq(&it, cstl_map_iterator_end(&map))) VIOL("find_absent", "key %d was erased %u removals ago and is found again", val, n + 1);
            PROBE(n > 60000 ? "churn_2^16_removals" : "churn_2^8_removals");
            EVT("churn", val, n, nent);
            break;
        }
        default: EVT("skip", 0, 0, 0);
        }
        g_cur_prop = prop_now(); g_cur_ctx = ctx_now();
        audit_map(nent <= 40 || (k & 15) == 0);
        if (o->kind != M_CLEAR && since_clear >= 0 && since_clear < 100) since_clear++;
        if ((k & 31) == 31) simheap_audit(prop_now(), "map");
    }
    /* epilogue: clear must release everything the map allocated */
    g_run.step = p->nops; g_run.opkind = M_CLEAR;
    do_clear();
    audit_map(0);
    if (aux_nodes) {
        TRY(cstl_map_clear(&aux, NULL, NULL));
        aux_nodes = 0;
        if (simheap_live_count(TAG_LIB) != 0) VIOL("clear_leak", "%u map nodes still allocated after clear", simheap_live_count(TAG_LIB));
    }
    simheap_audit(mode_g == 16 ? "C16" : "C08", "map-end");
    if (simheap_live_count(TAG_ELEM) != 0) sim_harness_bug("map: key/value accounting broken (%u live)", simheap_live_count(TAG_ELEM));
    g_run.nontrivial = maxreach >= 2;
}

static void m_exec(const plan_t *p)
{
    if (p->mode == 16) faultenum(p, m_once); else m_once(p);
}

static void m_gen(prng_t *r, int mode, plan_t *p)
{
    p->cfg[CF_FAR] = FAR_OF_INDEX();      /* element blocks 2^32 or 3 * 2^31 bytes apart in one run in seven each */
    p->cfg[CF_REUSE] = REUSE_OF_INDEX();  /* one run in six: the allocator hands a freed block out again at once */
    int longrun = mode != 16 && prng_chance(r, 1, 10), small = !longrun && prng_chance(r, 1, 5);
    int nops = longrun ? 300 + (int)prng_below(r, 1500) : small ? 2 + (int)prng_below(r, 8) : 10 + (int)prng_below(r, 70);
    unsigned w_clear = mode == 15 ? 10 : 2;
    int faults = mode == 8 && prng_chance(r, 1, 4);
    int i;
    if (mode == 108 || mode == 115) {
        /* sizes and key orders in turn: the first four runs are 300000 ascending, 262144 descending, 200000 ascending, 131072 random */
        static const uint64_t sz[4] = { 3, 2, 1, 0 }, pat[4] = { 0, 1, 0, 2 };
        p->cfg[CF_KEYS] = g_gen_index < 4 ? sz[g_gen_index] : prng_below(r, 4);
        p->cfg[CF_CMP] = g_gen_index < 4 ? pat[g_gen_index] : prng_below(r, 3);
        p->cfg[CF_JUNK] = 1 + prng_below(r, 254); p->cfg[CF_MAXN] = prng_next(r);
        if (g_gen_index < 4) p->cfg[CF_MAXN] = (p->cfg[CF_MAXN] & ~(uint64_t)1) | (g_gen_index >= 2);
        return;
    }
    if (mode == 16) nops = 8 + (int)prng_below(r, 30);
    p->cfg[CF_KEYS] = small ? 1 + prng_below(r, 4) : longrun ? 20 + prng_below(r, 600) : 2 + prng_below(r, 39);
    p->cfg[CF_JUNK] = 1 + prng_below(r, 254);
    p->cfg[CF_MAXN] = longrun ? 50 + prng_below(r, 600) : 2 + prng_below(r, 40);
    p->cfg[CF_CLEARFREES] = mode == 15 ? 1 : prng_below(r, 2);
    p->cfg[CF_CMP] = prng_below(r, 4);
    p->cfg[CF_FAULTS] = (uint64_t)faults;
    p->cfg[CF_INTKEYS] = (mode != 16 && !longrun && prng_chance(r, 1, 8)) ? 1 : 0;
    for (i = 0; i < nops; i++) {
        unsigned x = (unsigned)prng_below(r, 100 + w_clear);
        int kind = x < 45 ? M_INSERT : x < 60 ? M_FIND : x < 82 ? M_ERASE : x < 100 ? M_ERASE_IT : M_CLEAR;
        op_t *o = plan_add(p, kind);
        o->a[0] = prng_below(r, 4096);
        o->a[1] = (kind == M_INSERT && faults && prng_chance(r, 1, 5)) ? 1 : 0;     /* attached allocation failure */
        o->a[2] = prng_below(r, 32);          /* bits 3/4: hold the found iterator / erase through a held one */
        o->a[3] = prng_next(r) >> 8;
        if (kind == M_FIND && prng_chance(r, 1, 400)) { o->kind = M_CHURN; o->a[2] = prng_below(r, 6); }
        if (kind == M_CLEAR && prng_chance(r, 3, 4)) {
            int j, nf = 1 + (int)prng_below(r, 5);
            for (j = 0; j < nf; j++) { op_t *q = plan_add(p, M_INSERT); q->a[0] = prng_below(r, 4096); q->a[2] = prng_below(r, 8); }
        }
    }
}

static const char *m_crash_prop(const plan_t *p, int opkind) { (void)p; (void)opkind; return g_cur_prop; }

const world_t world_map = { "map", m_gen, m_exec, m_opname, m_crash_prop };
