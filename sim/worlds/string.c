/*
 * World "string": cstl_string and cstl_wstring (C10), allocation failure (C16).
 * mode 10: edit histories against reference strings, boundary positions/counts,
 *          allocator faults; mode 16: allocation-failure enumeration.
 */
#include "../core/sim.h"

#include "cstl/string.h"

#include <string.h>
#include <stdlib.h>
#include <wchar.h>

enum { S_SET_STR = 1, S_INSERT_CH, S_INSERT_STR_N, S_INSERT_STR, S_INSERT, S_APPEND, S_APPEND_CH, S_APPEND_STR_N,
       S_APPEND_STR, S_ERASE, S_SUBSTR, S_RESIZE, S_RESERVE, S_SWAP, S_CLEAR,
       S_FIND_CH, S_FIND_STR, S_FIND, S_COMPARE, S_COMPARE_STR, S_AT, S_CHURN };

static const char *s_opname(int k)
{
    static const char *n[] = { "?", "set_str", "insert_ch", "insert_str_n", "insert_str", "insert", "append", "append_ch",
        "append_str_n", "append_str", "erase", "substr", "resize", "reserve", "swap", "clear", "find_ch", "find_str",
        "find", "compare", "compare_str", "at", "churn" };
    return (k >= 1 && k <= S_CHURN) ? n[k] : "?";
}

enum { CF_NS, CF_JUNK, CF_RPOLICY, CF_BUDGET, CF_MAXLEN, CF_WIDE_PM };

#define NS 3
#define MAXS 70100

typedef unsigned __int128 u128;

struct mstr { size_t n; wchar_t c[MAXS + 2]; };

static struct cstl_string ns[NS];
static struct cstl_wstring ws[NS];
static struct mstr mn[NS], mw[NS];
static int nstr, mode_g;
static size_t maxlen;
static uint64_t budget;
static unsigned maxreach;
static int g_wide;

#define PROP() (mode_g == 16 ? "C16" : "C10")
#define VIOL(oracle, ...) do { char _k[160]; \
        snprintf(_k, sizeof _k, "%s/%s/%s/%s%s", PROP(), oracle, s_opname(g_run.opkind), g_wide ? "wide-" : "", g_cur_ctx); \
        sim_violation(_k, __VA_ARGS__); } while (0)

/* ------------------------------------------------------------ dispatch */

static size_t X_size(int w, int i) { return w ? cstl_wstring_size(&ws[i]) : cstl_string_size(&ns[i]); }
static size_t X_cap(int w, int i) { return w ? cstl_wstring_capacity(&ws[i]) : cstl_string_capacity(&ns[i]); }
static struct cstl_vector *X_vec(int w, int i) { return w ? &ws[i].v : &ns[i].v; }
static size_t CS(int w) { return w ? sizeof(wchar_t) : 1; }

/* character i of the library's str() view */
static wchar_t X_strch(int w, const void *str, size_t i) { return w ? ((const wchar_t *)str)[i] : (wchar_t)(unsigned char)((const char *)str)[i]; }

/* small texts derived from a plan argument: length 0..8 over {a,b,c} */
static char tbuf[16]; static wchar_t twbuf[16]; static size_t tlen;
static void mktext(uint64_t seed, int allow_nul)
{
    uint64_t x = seed * 0x9e3779b97f4a7c15ull + 1;
    size_t i;
    tlen = (size_t)(splitmix64(&x) % 9);
    for (i = 0; i < tlen; i++) {
        /* narrow alphabet includes bytes >= 0x80 (signed-char slips), wide alphabet values beyond one byte */
        static const unsigned char alpha[] = { 'a', 'b', 'c', 'a', 'b', 'z', 0xe9, 0xff, 0x80 };
        unsigned v = (unsigned)(splitmix64(&x) % (allow_nul ? 10 : 9));
        unsigned char c = v < 9 ? alpha[v] : 0;
        tbuf[i] = (char)c; twbuf[i] = (g_wide && c >= 0x80) ? (wchar_t)(0x100 + c) : (wchar_t)c;   /* twbuf doubles as the model's view */
    }
    tbuf[tlen] = 0; twbuf[tlen] = 0;
}

/* C-string length of a model (up to the first embedded NUL) */
static size_t m_clen(const struct mstr *m, size_t from)
{
    size_t i = from;
    while (i < m->n && m->c[i] != 0) i++;
    return i - from;
}

/* --------------------------------------------------------------- audit */

static void audit_str(int w, int i, const char *when)
{
    struct mstr *m = w ? &mw[i] : &mn[i];
    size_t size = X_size(w, i), k;
    struct cstl_vector *v = X_vec(w, i);
    static const void *str;
    unsigned char *base = cstl_vector_data(v);
    uint64_t sh = 0x57 + (uint64_t)w;

    g_wide = w;
    if (size != m->n) VIOL("size", "%s: string %d reports size %zu, reference has %zu", when, i, size, m->n);
    if (w) TRY(str = cstl_wstring_str(&ws[i])); else TRY(str = cstl_string_str(&ns[i]));
    if (g_aborted) VIOL("abort", "%s: str() aborted", when);
    if (str == NULL) VIOL("str_null", "%s: str() returned NULL", when);
    for (k = 0; k < m->n; k++)
        if (X_strch(w, str, k) != m->c[k]) VIOL("content", "%s: character %zu of string %d is %d, reference has %d", when, k, i, (int)X_strch(w, str, k), (int)m->c[k]);
    if (X_strch(w, str, m->n) != 0) VIOL("terminator", "%s: str()[size] of string %d is %d, not NUL", when, i, (int)X_strch(w, str, m->n));
    if (X_cap(w, i) < size) VIOL("cap_lt_size", "%s: capacity %zu < size %zu", when, X_cap(w, i), size);
    if (base != NULL) {
        u128 need = ((u128)cstl_vector_capacity(v) + 1) * (u128)CS(w);
        if (!simheap_is_live(base)) VIOL("data_not_a_block", "%s: storage pointer is not the start of a live allocation", when);
        if ((u128)simheap_size(base) < need) VIOL("cap_exceeds_block", "%s: storage of %zu bytes cannot hold the reported capacity", when, simheap_size(base));
        if ((u128)simheap_size(base) < ((u128)size + 1) * CS(w)) VIOL("size_exceeds_block", "%s: storage of %zu bytes cannot hold %zu characters and a terminator", when, simheap_size(base), size);
    } else if (size != 0) VIOL("size_without_storage", "%s: size %zu with no storage", when, size);
    /* at(): every index for short strings, a sample for long ones */
    for (k = 0; k < m->n; k += (m->n > 48 ? 1 + m->n / 16 : 1)) {
        static const void *p;
        if (w) TRY(p = cstl_wstring_at_const(&ws[i], k)); else TRY(p = cstl_string_at_const(&ns[i], k));
        if (g_aborted) VIOL("at_in_range_aborts", "%s: at(%zu) aborted with size %zu", when, k, size);
        if (p != (const void *)(base + k * CS(w))) VIOL("at_address", "%s: at(%zu) does not address character %zu", when, k, k);
    }
    for (k = 0; k < m->n && k < 12; k++) sh = fnv1a(sh, (uint64_t)m->c[k]);
    sh = fnv1a(sh, m->n < 12 ? m->n : 12);
    state_note(sh);
    if (m->n > maxreach) maxreach = (unsigned)m->n;
}

static void audit_all(const char *when)
{
    int i; unsigned withbase = 0;
    for (i = 0; i < nstr; i++) {
        audit_str(0, i, when); audit_str(1, i, when);
        if (cstl_vector_data(&ns[i].v)) withbase++;
        if (cstl_vector_data(&ws[i].v)) withbase++;
    }
    g_wide = 0;
    if (simheap_live_count(TAG_LIB) != withbase)
        VIOL("block_accounting", "%s: %u library blocks live for %u strings with storage", when, simheap_live_count(TAG_LIB), withbase);
}

/* ----------------------------------------------------- symbolic arguments */

/* position: safe => guaranteed <= limit (limit = size for inserts, size-1 for erase/substr/find/at) */
static size_t sym_pos(uint64_t sym, uint64_t raw, size_t size, size_t limit, int provoke, const char **ctx)
{
    if (!provoke) {
        switch (sym % 5) {
        case 0: return 0;
        case 1: return limit;
        case 2: return limit ? limit - 1 : 0;
        default: return (size_t)(raw % (limit + 1));
        }
    }
    switch (sym % 5) {
    case 0: *ctx = "pos-size+1"; return size + 1;
    case 1: *ctx = "pos-max"; return SIZE_MAX;
    case 2: *ctx = "pos-max-1"; return SIZE_MAX - 1;
    case 3: *ctx = "pos-max-size"; return SIZE_MAX - size;
    default: *ctx = "pos-size"; return size;       /* == size: beyond the last character, but legal for inserts */
    }
}

static size_t sym_cnt(uint64_t sym, uint64_t raw, size_t size, size_t pos, int huge_ok, const char **ctx)
{
    size_t rem = pos <= size ? size - pos : 0;
    switch (sym % (huge_ok ? 15 : 6)) {
    case 12: *ctx = "count-2^32"; return (size_t)(((uint64_t)1 << 32) / (g_wide ? sizeof(wchar_t) : 1)) + (size_t)(raw % 3);
    case 13: *ctx = "count-2^31"; return (size_t)(((uint64_t)1 << 31) / (g_wide ? sizeof(wchar_t) : 1)) + (size_t)(raw % 3);
    case 14: *ctx = "count-2^33"; return (size_t)((uint64_t)1 << 33) + (size_t)(raw % 3);
    case 0: return 0;
    case 1: return 1;
    case 2: return rem;
    case 3: return rem + 1;
    case 4: case 5: return (size_t)(raw % 9);
    case 6: *ctx = "count-max"; return SIZE_MAX;
    case 7: *ctx = "count-max-1"; return SIZE_MAX - 1;
    case 8: *ctx = "pos+count-wraps"; return SIZE_MAX - pos + 1;     /* pos + n == 0 (mod 2^64) */
    case 9: *ctx = "pos+count-max"; return SIZE_MAX - pos;
    case 10: *ctx = "count-half-max"; return SIZE_MAX / 2 + (size_t)(raw & 1);
    default: *ctx = "count-wraps-small"; return SIZE_MAX - pos + 1 + (size_t)(raw % 3);
    }
}

/* model edits */
static void m_insert(struct mstr *m, size_t pos, const wchar_t *src, size_t n)
{
    memmove(&m->c[pos + n], &m->c[pos], (m->n - pos) * sizeof(wchar_t));
    memcpy(&m->c[pos], src, n * sizeof(wchar_t));
    m->n += n;
}

static int sgn(long long v) { return (v > 0) - (v < 0); }

/* expected end of run at a documented abort */
#define END_BY_ABORT(why) do { PROBE(why); simheap_audit(PROP(), "at-abort"); g_run.ended_by_abort = 1; EVT("abort", 0, 0, 0); return; } while (0)

/* --------------------------------------------------------------------- exec */

static void s_once(const plan_t *p)
{
    struct simheap_cfg hc;
    int k, i;

    budget = p->cfg[CF_BUDGET]; if (budget < 4096) budget = 4096;
    hc.realloc_policy = (int)(p->cfg[CF_RPOLICY] % 3); hc.budget = budget; hc.junk = (unsigned char)p->cfg[CF_JUNK];
    simheap_reset(&hc, p->cfg[CF_JUNK]);
    faultenum_apply();
    mode_g = p->mode;
    nstr = (int)p->cfg[CF_NS]; if (nstr < 2) nstr = 2; if (nstr > NS) nstr = NS;
    maxlen = (size_t)p->cfg[CF_MAXLEN]; if (maxlen < 4) maxlen = 4; if (maxlen > MAXS - 32) maxlen = MAXS - 32;
    maxreach = 0;
    memset(ns, (int)(unsigned char)p->cfg[CF_JUNK], sizeof ns); memset(ws, (int)(unsigned char)p->cfg[CF_JUNK], sizeof ws);
    for (i = 0; i < NS; i++) {
        if (p->cfg[CF_DECL]) {
            if (i & 1) { DECLARE_CSTL_STRING(string, d); DECLARE_CSTL_STRING(wstring, w); ns[i] = d; ws[i] = w; }
            else { ns[i] = (struct cstl_string)CSTL_STRING_INITIALIZER(cstl_string_char_t); ws[i] = (struct cstl_wstring)CSTL_STRING_INITIALIZER(cstl_wstring_char_t); }
            PROBE("from_initializer_macro");
        } else {
        cstl_string_init(&ns[i]); cstl_wstring_init(&ws[i]);
        }
        mn[i].n = 0; mw[i].n = 0;
    }

    for (k = 0; k < p->nops; k++) {
        const op_t *o = &p->ops[k];
        int w = (int)(o->a[0] & 1);
        int d = (int)((o->a[0] >> 1) % (uint64_t)nstr);
        int s2 = (int)((o->a[0] >> 8) % (uint64_t)nstr);
        int provoke = (int)o->a[7];
        struct mstr *m, *ms;
        static size_t pos, cnt, size, oldvcap; static void *oldbase;
        static ssize_t sres; static int ires;
        const char *ctx = "plain";
        int must_abort = 0, may_abort = 0, grow_fail;
        u128 need;

        if (s2 == d) s2 = (d + 1) % nstr;
        m = w ? &mw[d] : &mn[d]; ms = w ? &mw[s2] : &mn[s2];
        g_wide = w;
        g_run.step = k; g_run.opkind = o->kind; g_run.steps++;
        g_cur_prop = PROP(); g_cur_ctx = "plain";
        size = m->n;
        oldvcap = cstl_vector_capacity(X_vec(w, d)); oldbase = cstl_vector_data(X_vec(w, d));
        if (p->mode != 16) simheap_fail_in_op((unsigned)o->a[6]);

        switch (o->kind) {
        case S_SET_STR:
            mktext(o->a[1], 0);
            if (w) TRY(cstl_wstring_set_str(&ws[d], twbuf)); else TRY(cstl_string_set_str(&ns[d], tbuf));
            grow_fail = g_hs.fired_in_op || g_hs.enomem_in_op;
            if (grow_fail) { if (!g_aborted) VIOL("growth_not_aborted", "set_str: the allocator refused and the call did not abort"); END_BY_ABORT("growth_abort"); }
            if (g_aborted) VIOL(g_aborted == 2 ? "assert" : "abort", "set_str aborted");
            m->n = 0; m_insert(m, 0, twbuf, tlen);
            EVT("set_str", d, tlen, w);
            break;

        case S_INSERT_CH: case S_APPEND_CH:
        case S_INSERT_STR_N: case S_APPEND_STR_N:
        case S_INSERT_STR: case S_APPEND_STR:
        case S_INSERT: case S_APPEND: {
            static wchar_t src[MAXS + 16]; size_t srcn = 0, j;
            int is_append = o->kind == S_APPEND_CH || o->kind == S_APPEND_STR_N || o->kind == S_APPEND_STR || o->kind == S_APPEND;
            static const unsigned char chs[] = { 'a', 'b', 'c', 0, 'z', 0xe9, 0xff, 0 };
            wchar_t ch = w && chs[o->a[3] % 8] >= 0x80 ? (wchar_t)(0x100 + chs[o->a[3] % 8]) : (wchar_t)chs[o->a[3] % 8];
            int huge = 0;
            pos = is_append ? size : sym_pos(o->a[1], o->a[2], size, size, provoke == 1, &ctx);
            if (pos > size) must_abort = 1;
            switch (o->kind) {
            case S_INSERT_CH: case S_APPEND_CH:
                cnt = sym_cnt(o->a[4], o->a[5], size, pos, provoke == 2, &ctx);
                if (provoke != 2 && maxlen > 60000 && (o->a[5] & 1)) cnt = (size_t)((o->a[5] >> 1) % maxlen);
                else if (provoke != 2 && cnt > 12) cnt = cnt % 13;
                if (cnt > 65536 && cnt <= MAXS) PROBE("insert_above_2^16");
                if (cnt > MAXS) huge = 1; else { for (j = 0; j < cnt; j++) src[j] = ch; srcn = cnt; }
                break;
            case S_INSERT_STR_N: case S_APPEND_STR_N:
                mktext(o->a[3], 1);
                cnt = provoke == 2 ? sym_cnt(6 + o->a[4] % 9, o->a[5], size, pos, 1, &ctx) : (size_t)(o->a[4] % (tlen + 1));
                if (cnt > tlen && cnt <= MAXS) cnt = tlen;    /* a wrapped symbol can come out small: stay inside the text */
                if (cnt > tlen) huge = 1; else { for (j = 0; j < cnt; j++) src[j] = twbuf[j]; srcn = cnt; }
                break;
            case S_INSERT_STR: case S_APPEND_STR:
                mktext(o->a[3], 0);
                cnt = tlen; for (j = 0; j < cnt; j++) src[j] = twbuf[j]; srcn = cnt;
                break;
            default:    /* another string object: its size() characters, embedded NULs included */
                cnt = ms->n; for (j = 0; j < cnt; j++) src[j] = ms->c[j]; srcn = cnt;
                break;
            }
            if (!must_abort && !huge && size + cnt > maxlen) { EVT("skip", 0, 0, 0); break; }   /* keep models bounded */
            g_cur_ctx = ctx;
            switch (o->kind) {
            case S_INSERT_CH: if (w) TRY(cstl_wstring_insert_ch(&ws[d], pos, cnt, ch)); else TRY(cstl_string_insert_ch(&ns[d], pos, cnt, (char)ch)); break;
            case S_APPEND_CH: if (w) TRY(cstl_wstring_append_ch(&ws[d], cnt, ch)); else TRY(cstl_string_append_ch(&ns[d], cnt, (char)ch)); break;
            case S_INSERT_STR_N: if (w) TRY(cstl_wstring_insert_str_n(&ws[d], pos, twbuf, cnt)); else TRY(cstl_string_insert_str_n(&ns[d], pos, tbuf, cnt)); break;
            case S_APPEND_STR_N: if (w) TRY(cstl_wstring_append_str_n(&ws[d], twbuf, cnt)); else TRY(cstl_string_append_str_n(&ns[d], tbuf, cnt)); break;
            case S_INSERT_STR: if (w) TRY(cstl_wstring_insert_str(&ws[d], pos, twbuf)); else TRY(cstl_string_insert_str(&ns[d], pos, tbuf)); break;
            case S_APPEND_STR: if (w) TRY(cstl_wstring_append_str(&ws[d], twbuf)); else TRY(cstl_string_append_str(&ns[d], tbuf)); break;
            case S_INSERT: if (w) TRY(cstl_wstring_insert(&ws[d], pos, &ws[s2])); else TRY(cstl_string_insert(&ns[d], pos, &ns[s2])); break;
            default: if (w) TRY(cstl_wstring_append(&ws[d], &ws[s2])); else TRY(cstl_string_append(&ns[d], &ns[s2])); break;
            }
            if (must_abort) {
                if (!g_aborted) VIOL("bad_pos_not_aborted", "insert at position %zu of a %zu-character string did not abort", pos, size);
                END_BY_ABORT("insert_bad_pos_abort");
            }
            /* storage for size+cnt characters, the terminator and the vector's scratch element */
            need = ((u128)size + (u128)cnt + 2) * (u128)CS(w);
            grow_fail = cnt > 0 && (need > (u128)SIZE_MAX || g_hs.fired_in_op || g_hs.enomem_in_op);
            if (cnt > 0 && need > (u128)SIZE_MAX) PROBE("length_unrepresentable");
            if (grow_fail) {
                if (!g_aborted) VIOL("growth_not_aborted", "insert of %zu characters into a %zu-character string cannot be satisfied (%s) and did not abort",
                                     cnt, size, need > (u128)SIZE_MAX ? "storage size unrepresentable" : "allocator said no");
                END_BY_ABORT("growth_abort");
            }
            if (g_aborted) VIOL(g_aborted == 2 ? "assert" : "abort", "insert of %zu characters at %zu into a %zu-character string aborted", cnt, pos, size);
            if (huge) VIOL("growth_not_aborted", "insert of %zu characters returned", cnt);
            m_insert(m, pos, src, srcn);
            EVT(s_opname(o->kind), d, pos, cnt);
            break;
        }

        case S_ERASE:
        case S_SUBSTR: {
            struct mstr *src = o->kind == S_SUBSTR ? ms : m;       /* substr reads s2, writes d */
            size_t ssize = src->n, take;
            if (ssize == 0 && !provoke) { EVT("skip", 0, 0, 0); break; }
            pos = sym_pos(o->a[1], o->a[2], ssize, ssize ? ssize - 1 : 0, provoke == 1, &ctx);
            cnt = sym_cnt(o->a[4], o->a[5], ssize, pos, 1, &ctx);
            if (pos > ssize) must_abort = 1; else if (pos == ssize) may_abort = 1;
            g_cur_ctx = ctx;
            if (o->kind == S_ERASE) { if (w) TRY(cstl_wstring_erase(&ws[d], pos, cnt)); else TRY(cstl_string_erase(&ns[d], pos, cnt)); }
            else { if (w) TRY(cstl_wstring_substr(&ws[s2], pos, cnt, &ws[d])); else TRY(cstl_string_substr(&ns[s2], pos, cnt, &ns[d])); }
            if (must_abort) {
                if (!g_aborted) VIOL("bad_pos_not_aborted", "%s at position %zu of a %zu-character string did not abort", s_opname(o->kind), pos, ssize);
                END_BY_ABORT("erase_substr_bad_pos_abort");
            }
            if (may_abort && g_aborted) END_BY_ABORT("pos_eq_size_abort");
            if (o->kind == S_SUBSTR && (g_hs.fired_in_op || g_hs.enomem_in_op)) {
                if (!g_aborted) VIOL("growth_not_aborted", "substr: the allocator refused and the call did not abort");
                END_BY_ABORT("growth_abort");
            }
            if (g_aborted) VIOL(g_aborted == 2 ? "assert" : "abort", "%s(%zu, %zu) on a %zu-character string aborted", s_opname(o->kind), pos, cnt, ssize);
            take = cnt < ssize - pos ? cnt : ssize - pos;          /* truncated to the characters available, however large */
            if (cnt > ssize - pos) PROBE("count_clamped"); if (pos + cnt < pos) PROBE("pos_plus_count_wraps");
            if (o->kind == S_ERASE) {
                memmove(&m->c[pos], &m->c[pos + take], (m->n - pos - take) * sizeof(wchar_t));
                m->n -= take;
            } else {
                memcpy(m->c, &src->c[pos], take * sizeof(wchar_t));
                m->n = take;
            }
            EVT(s_opname(o->kind), d, pos, take);
            break;
        }

        case S_RESIZE: {
            size_t n;
            if (provoke == 2) { n = sym_cnt(6 + o->a[4] % 9, o->a[5], 0, 0, 1, &ctx); }
            else n = (size_t)(o->a[2] % (maxlen + 1));
            if (o->a[1] % 4 == 0 && provoke != 2) n = size ? size - 1 : 0;
            g_cur_ctx = ctx;
            if (w) TRY(cstl_wstring_resize(&ws[d], n)); else TRY(cstl_string_resize(&ns[d], n));
            need = ((u128)n + 2) * (u128)CS(w);
            grow_fail = (n + 1 > oldvcap || n == SIZE_MAX) && (need > (u128)SIZE_MAX || g_hs.fired_in_op || g_hs.enomem_in_op);
            if (need > (u128)SIZE_MAX) PROBE("length_unrepresentable");
            if (grow_fail) {
                if (!g_aborted) VIOL("growth_not_aborted", "resize(%zu) cannot be satisfied and did not abort", n);
                END_BY_ABORT("growth_abort");
            }
            if (g_aborted) VIOL(g_aborted == 2 ? "assert" : "abort", "resize(%zu) aborted", n);
            { size_t j; for (j = size; j < n; j++) m->c[j] = 0; }
            m->n = n;
            EVT("resize", d, n, 0);
            break;
        }
        case S_RESERVE: {
            size_t n = provoke || (o->a[1] % 4 == 0) ? sym_cnt(6 + o->a[4] % 9, o->a[5], 0, 0, 1, &ctx) : (size_t)(o->a[2] % (2 * maxlen));
            if (o->a[1] % 8 == 1) { n = (size_t)(budget / CS(w)) + (size_t)(o->a[2] % 3) - 1; ctx = "count-near-budget"; }
            g_cur_ctx = ctx;
            if (w) TRY(cstl_wstring_reserve(&ws[d], n)); else TRY(cstl_string_reserve(&ns[d], n));
            if (g_aborted) VIOL(g_aborted == 2 ? "assert" : "abort", "reserve(%zu) aborted", n);
            need = ((u128)n + 2) * (u128)CS(w);
            grow_fail = need > (u128)SIZE_MAX || g_hs.fired_in_op || g_hs.enomem_in_op;
            if (g_hs.fired_in_op) PROBE("alloc_fail_fired"); if (g_hs.enomem_in_op) PROBE("enomem_over_budget");
            if (grow_fail) {
                PROBE("reserve_unsatisfied");
                if (cstl_vector_capacity(X_vec(w, d)) != oldvcap || cstl_vector_data(X_vec(w, d)) != oldbase)
                    VIOL("failed_reserve_changed", "reserve(%zu) could not be satisfied but capacity/storage changed", n);
                if (oldbase && !simheap_is_live(oldbase)) VIOL("failed_reserve_freed", "reserve(%zu) could not be satisfied and released the storage in use", n);
            } else if (X_cap(w, d) < n && !(n == 0)) {
                VIOL("reserve_short", "reserve(%zu) was satisfied by the allocator but capacity is %zu", n, X_cap(w, d));
            }
            EVT("reserve", d, n, grow_fail);
            break;
        }
        case S_SWAP: {
            static struct mstr t;
            if (o->a[1] % 8 == 3) {
                if (w) TRY(cstl_wstring_swap(&ws[d], &ws[d])); else TRY(cstl_string_swap(&ns[d], &ns[d]));
                if (g_aborted) VIOL("abort", "swap aborted");
                PROBE("self_swap"); EVT("swap_self", d, 0, w);
                break;
            }
            if (w) TRY(cstl_wstring_swap(&ws[d], &ws[s2])); else TRY(cstl_string_swap(&ns[d], &ns[s2]));
            if (g_aborted) VIOL("abort", "swap aborted");
            t = *m; *m = *ms; *ms = t;
            PROBE("swap"); EVT("swap", d, s2, w);
            break;
        }
        case S_CLEAR:
            if (w) TRY(cstl_wstring_clear(&ws[d])); else TRY(cstl_string_clear(&ns[d]));
            if (g_aborted) VIOL("abort", "clear aborted");
            m->n = 0;
            PROBE("clear"); EVT("clear", d, 0, w);
            break;

        case S_FIND_CH: case S_FIND_STR: case S_FIND: {
            long long expect = -1; size_t hl;
            static const unsigned char chs[] = { 'a', 'b', 'c', 0, 'z', 0xe9, 0xff, 0 };
            wchar_t ch = w && chs[o->a[3] % 8] >= 0x80 ? (wchar_t)(0x100 + chs[o->a[3] % 8]) : (wchar_t)chs[o->a[3] % 8];
            int alt_ok = 0;
            if (size == 0 && !provoke) { EVT("skip", 0, 0, 0); break; }
            pos = sym_pos(o->a[1], o->a[2], size, size ? size - 1 : 0, provoke == 1, &ctx);
            if (pos > size) must_abort = 1; else if (pos == size) may_abort = 1;
            g_cur_ctx = ctx;
            if (o->kind == S_FIND_CH) {
                if (w) TRY(sres = cstl_wstring_find_ch(&ws[d], ch, pos)); else TRY(sres = cstl_string_find_ch(&ns[d], (char)ch, pos));
            } else if (o->kind == S_FIND_STR) {
                mktext(o->a[3], 0);
                if (w) TRY(sres = cstl_wstring_find_str(&ws[d], twbuf, pos)); else TRY(sres = cstl_string_find_str(&ns[d], tbuf, pos));
            } else {
                if (w) TRY(sres = cstl_wstring_find(&ws[d], &ws[s2], pos)); else TRY(sres = cstl_string_find(&ns[d], &ns[s2], pos));
            }
            if (must_abort) {
                if (!g_aborted) VIOL("bad_pos_not_aborted", "%s from position %zu of a %zu-character string did not abort", s_opname(o->kind), pos, size);
                END_BY_ABORT("find_bad_pos_abort");
            }
            if (may_abort && g_aborted) END_BY_ABORT("pos_eq_size_abort");
            if (g_aborted) VIOL(g_aborted == 2 ? "assert" : "abort", "%s from position %zu of a %zu-character string aborted", s_opname(o->kind), pos, size);
            /* the C library applied to the same characters: the haystack is a C string from pos */
            hl = pos <= size ? m_clen(m, pos) : 0;
            if (o->kind == S_FIND_CH) {
                size_t j;
                if (ch != 0) { for (j = 0; j < hl; j++) if (m->c[pos + j] == ch) { expect = (long long)(pos + j); break; } }
                else if (pos + hl < size) expect = (long long)(pos + hl);     /* an embedded NUL */
                else { expect = -1; alt_ok = 1; }                             /* only the terminator: -1 (as here) or its index */
                if (!(sres == expect || (alt_ok && sres == (ssize_t)size)))
                    VIOL("find_ch", "find_ch(%d, %zu) returned %zd, the C library on the same characters gives %lld", (int)ch, pos, sres, expect);
                PROBE("find_ch");
            } else {
                const wchar_t *nd; size_t nl, j, q;
                if (o->kind == S_FIND_STR) { nd = twbuf; nl = tlen; } else { nd = ms->c; nl = m_clen(ms, 0); }
                for (j = 0; j + nl <= hl; j++) {
                    for (q = 0; q < nl; q++) if (m->c[pos + j + q] != nd[q]) break;
                    if (q == nl) { expect = (long long)(pos + j); break; }
                }
                if (sres != expect) VIOL("find_str", "%s from %zu returned %zd, the C library on the same characters gives %lld", s_opname(o->kind), pos, sres, expect);
                PROBE("find_str");
            }
            EVT(s_opname(o->kind), d, pos, (uint64_t)sres);
            break;
        }
        case S_COMPARE: case S_COMPARE_STR: {
            const wchar_t *b; size_t bl, al = m_clen(m, 0), j; long long e = 0;
            if (o->kind == S_COMPARE_STR) {
                mktext(o->a[3], 0); b = twbuf; bl = tlen;
                if (w) TRY(ires = cstl_wstring_compare_str(&ws[d], twbuf)); else TRY(ires = cstl_string_compare_str(&ns[d], tbuf));
            } else {
                b = ms->c; bl = m_clen(ms, 0);
                if (w) TRY(ires = cstl_wstring_compare(&ws[d], &ws[s2])); else TRY(ires = cstl_string_compare(&ns[d], &ns[s2]));
            }
            if (g_aborted) VIOL("abort", "compare aborted");
            for (j = 0; ; j++) {
                wchar_t x = j < al ? m->c[j] : 0, y = j < bl ? b[j] : 0;
                if (x != y) { e = (long long)x - (long long)y; break; }
                if (x == 0) break;
            }
            if (sgn(ires) != sgn(e)) VIOL("compare", "compare returned %d, the C library on the same characters gives sign %d", ires, sgn(e));
            PROBE("compare"); EVT("compare", d, (uint64_t)sgn(ires), 0);
            break;
        }
        case S_CHURN: {
            /* the n-th repetition: one character is appended and erased again 254 ... 65 536 times in a row; the string
             * must be what it was (the audit below compares it with the unchanged model) */
            static const unsigned reps[] = { 254, 255, 256, 65534, 65535, 65536 };
            unsigned n = reps[o->a[1] % 6], q; int bad = 0;
            if (p->mode == 16 || size + 1 > maxlen) { EVT("skip", 0, 0, 0); break; }
            g_cur_ctx = n > 60000 ? "churn-2^16" : "churn-2^8";
            if (w) TRY(cstl_wstring_reserve(&ws[d], size + 1)); else TRY(cstl_string_reserve(&ns[d], size + 1));
            if (X_cap(w, d) < size + 1) { EVT("skip", 0, 0, 0); break; }
            g_inlib = 1;
            for (q = 0; q < n && !bad; q++) {
                if (w) { cstl_wstring_append_ch(&ws[d], 1, L'q'); if (cstl_wstring_size(&ws[d]) != size + 1) bad = 1; cstl_wstring_erase(&ws[d], size, 1); if (cstl_wstring_size(&ws[d]) != size) bad = 2; }
                else { cstl_string_append_ch(&ns[d], 1, 'q'); if (cstl_string_size(&ns[d]) != size + 1) bad = 1; cstl_string_erase(&ns[d], size, 1); if (cstl_string_size(&ns[d]) != size) bad = 2; }
            }
            g_inlib = 0;
            if (bad) VIOL("churn", "repetition %u of append-one / erase-one left size %zu (was %zu)", q, X_size(w, d), size);
            PROBE(n > 60000 ? "churn_2^16" : "churn_2^8");
            EVT("churn", d, n, size);
            break;
        }
        case S_AT: {
            static const void *pp; size_t idx;
            switch (o->a[1] % 5) { case 0: idx = size; break; case 1: idx = size + 1; break; case 2: idx = SIZE_MAX; break; case 3: idx = SIZE_MAX - 1; break; default: idx = size + 2; }
            if (!provoke) { EVT("skip", 0, 0, 0); break; }     /* in-range at() is exercised by every audit */
            g_cur_ctx = "index-out-of-range";
            if (w) TRY(pp = cstl_wstring_at(&ws[d], idx)); else TRY(pp = cstl_string_at(&ns[d], idx));
            (void)pp;
            if (!g_aborted) VIOL("at_oob_not_aborted", "at(%zu) on a %zu-character string did not abort", idx, size);
            END_BY_ABORT("at_out_of_range_abort");
        }
        default: EVT("skip", 0, 0, 0);
        }
        audit_all("after");       /* still under the operation's context: a wrong result of a boundary argument keeps its label */
        g_cur_ctx = "plain";
        if ((k & 7) == 7 || k == p->nops - 1) simheap_audit(PROP(), "string");
    }

    for (i = 0; i < nstr; i++) {
        g_run.step = p->nops + i; g_run.opkind = S_CLEAR; g_cur_ctx = "epilogue";
        TRY(cstl_string_clear(&ns[i])); if (g_aborted) VIOL("abort", "clear aborted");
        TRY(cstl_wstring_clear(&ws[i])); if (g_aborted) VIOL("abort", "clear aborted");
        mn[i].n = 0; mw[i].n = 0;
    }
    g_wide = 0;
    if (simheap_live_count(TAG_LIB) != 0) VIOL("leak", "%u library blocks still allocated after every string was cleared", simheap_live_count(TAG_LIB));
    simheap_audit(PROP(), "string-end");
    g_run.nontrivial = maxreach >= 2;
}

/* one string of more than 2^31 characters (real memory: ~2-4 GiB; thorough tier only): positions and counts beyond
 * INT_MAX must come back untruncated from size, find_ch, find_str, substr, erase */
static void giant_string(const plan_t *p)
{
    struct simheap_cfg hc = { RP_INPLACE_FIT, (uint64_t)1 << 34, 0 };
    static cstl_string_t gs, sub; static ssize_t pos; static size_t sz; static const char *d;
    size_t n = ((size_t)1 << 31) + 8 + (size_t)(p->cfg[CF_MAXLEN] % 64), mark = n - 3;
    char *w;
    hc.junk = (unsigned char)p->cfg[CF_JUNK];
    simheap_reset(&hc, p->cfg[CF_JUNK]);
    sim_watchdog(200);
    g_cur_prop = "C10"; g_cur_ctx = "giant-string"; g_run.step = 0; g_run.opkind = S_FIND_CH; g_run.steps++;
    memset(&gs, (int)p->cfg[CF_JUNK], sizeof gs); memset(&sub, (int)p->cfg[CF_JUNK], sizeof sub);
    cstl_string_init(&gs); cstl_string_init(&sub);
    TRY(cstl_string_resize(&gs, n));
    if (g_aborted) { if (g_hs.enomem_in_op) { EVT("skip", 0, 0, 0); return; } sim_violation("C10/abort/resize/giant-string", "resize to 2^31+%zu characters aborted although the allocator agreed", n - ((size_t)1 << 31)); }
    TRY(sz = cstl_string_size(&gs));
    if (sz != n) sim_violation("C10/size/resize/giant-string", "size() is %zu after resize(%zu)", sz, n);
    TRY(w = cstl_string_data(&gs));
    if (w[n] != 0) sim_violation("C10/terminator/resize/giant-string", "no terminator after %zu characters", n);
    memset(w, 'a', n); w[mark] = 'b'; w[mark + 1] = 'c';
    TRY(pos = cstl_string_find_ch(&gs, 'b', 0));
    if (pos != (ssize_t)mark) sim_violation("C10/find_ch/find_ch/giant-string", "find_ch reports %zd for a character at position %zu (2^31+%zu)", pos, mark, mark - ((size_t)1 << 31));
    TRY(pos = cstl_string_find_str(&gs, "bc", 0));
    if (pos != (ssize_t)mark) sim_violation("C10/find_str/find_str/giant-string", "find_str reports %zd for a match at position %zu (2^31+%zu)", pos, mark, mark - ((size_t)1 << 31));
    TRY(pos = cstl_string_find_ch(&gs, 'b', mark));
    if (pos != (ssize_t)mark) sim_violation("C10/find_ch/find_ch/giant-string", "find_ch from position %zu reports %zd", mark, pos);
    TRY(pos = cstl_string_find_ch(&gs, 'b', mark + 1));
    if (pos != -1) sim_violation("C10/find_ch/find_ch/giant-string", "find_ch beyond the only match reports %zd", pos);
    g_run.opkind = S_SUBSTR;
    TRY(cstl_string_substr(&gs, mark, 5, &sub));
    TRY(d = cstl_string_str(&sub));
    if (g_aborted || strcmp(d, "bca") != 0) sim_violation("C10/content/substr/giant-string", "substr(2^31+%zu, 5) of the giant string is not its last three characters", mark - ((size_t)1 << 31));
    g_run.opkind = S_ERASE;
    TRY(cstl_string_erase(&gs, 1, mark - 1));
    TRY(sz = cstl_string_size(&gs));
    TRY(d = cstl_string_str(&gs));
    if (g_aborted || sz != 4 || strcmp(d, "abca") != 0) sim_violation("C10/content/erase/giant-string", "erase(1, 2^31+..) of the giant string leaves %zu characters, expected \"abca\"", sz);
    TRY(cstl_string_clear(&gs)); TRY(cstl_string_clear(&sub));
    if (simheap_live_count(TAG_LIB) != 0) sim_violation("C10/leak/clear/giant-string", "storage still held after clear");
    simheap_audit("C10", "giant-string");
    PROBE("giant_string_above_2^31");
    EVT("giant", n, mark, 0);
    g_run.nontrivial = 1;
}

static void s_exec(const plan_t *p)
{
    if (p->mode == 110) { giant_string(p); return; }
    if (p->mode == 16) faultenum(p, s_once); else s_once(p);
}

static void s_gen_main(prng_t *r, int mode, plan_t *p);
static void s_gen(prng_t *r, int mode, plan_t *p)
{
    p->cfg[CF_DECL] = DECL_OF_INDEX();    /* one run in five starts from the initializer macros */
    p->cfg[CF_REUSE] = REUSE_OF_INDEX();  /* one run in six: the allocator hands a freed block out again at once */
    if (mode == 110) { p->cfg[CF_JUNK] = 1 + prng_below(r, 254); p->cfg[CF_MAXLEN] = prng_below(r, 64); p->cfg[CF_NS] = 1; return; }
    s_gen_main(r, mode, p);
}

static void s_gen_main(prng_t *r, int mode, plan_t *p)
{
    int huge = mode == 10 && prng_chance(r, 1, 300);
    int longrun = !huge && mode != 16 && prng_chance(r, 1, 12), small = !longrun && !huge && prng_chance(r, 1, 5);
    int nops = huge ? 6 + (int)prng_below(r, 10) : longrun ? 150 + (int)prng_below(r, 500) : small ? 2 + (int)prng_below(r, 7) : 8 + (int)prng_below(r, 42);
    int faults = mode == 10 && prng_chance(r, 3, 10);
    unsigned wide_pm = prng_chance(r, 1, 4) ? 0 : prng_chance(r, 1, 3) ? 1000 : 500;
    int i;
    if (mode == 16) nops = 6 + (int)prng_below(r, 18);
    p->cfg[CF_NS] = 2 + prng_below(r, 2);
    p->cfg[CF_JUNK] = 1 + prng_below(r, 254);
    p->cfg[CF_RPOLICY] = prng_below(r, 3);
    p->cfg[CF_BUDGET] = (uint64_t)1 << (13 + prng_below(r, 7));
    p->cfg[CF_MAXLEN] = huge ? 69000 : longrun ? 100 + prng_below(r, 500) : small ? 4 + prng_below(r, 5) : 8 + prng_below(r, 40);
    if (huge) p->cfg[CF_BUDGET] = (uint64_t)1 << 23;
    p->cfg[CF_WIDE_PM] = wide_pm;

    for (i = 0; i < nops; i++) {
        unsigned x = (unsigned)prng_below(r, 100);
        int kind = x < 6 ? S_SET_STR : x < 16 ? S_INSERT_CH : x < 24 ? S_INSERT_STR_N : x < 30 ? S_INSERT_STR : x < 36 ? S_INSERT
                 : x < 40 ? S_APPEND : x < 44 ? S_APPEND_CH : x < 47 ? S_APPEND_STR_N : x < 50 ? S_APPEND_STR
                 : x < 60 ? S_ERASE : x < 67 ? S_SUBSTR : x < 72 ? S_RESIZE : x < 76 ? S_RESERVE : x < 79 ? S_SWAP : x < 81 ? S_CLEAR
                 : x < 86 ? S_FIND_CH : x < 91 ? S_FIND_STR : x < 94 ? S_FIND : x < 97 ? S_COMPARE : S_COMPARE_STR;
        op_t *o;
        if (kind == S_COMPARE_STR && mode == 10 && prng_chance(r, 1, 40)) kind = S_CHURN;
        o = plan_add(p, kind);
        o->a[0] = (prng_below(r, 1000) < wide_pm ? 1 : 0) | prng_below(r, 3) << 1 | prng_below(r, 3) << 8;
        o->a[1] = prng_below(r, 40); o->a[2] = prng_next(r) >> 8; o->a[3] = prng_next(r) >> 8;
        o->a[4] = prng_below(r, 24); o->a[5] = prng_next(r) >> 8;
        if (faults && kind == S_RESERVE && prng_chance(r, 1, 2)) o->a[6] = 1;
    }
    /* at most one abort-provoking operation per run, last */
    if (mode == 10 && prng_chance(r, 2, 5)) {
        static const int kinds[] = { S_INSERT_CH, S_INSERT_CH, S_INSERT_STR_N, S_INSERT_STR, S_INSERT, S_APPEND_CH, S_ERASE, S_SUBSTR, S_RESIZE,
                                     S_FIND_CH, S_FIND_STR, S_FIND, S_AT, S_SET_STR, S_APPEND_STR_N };
        int kind = kinds[prng_below(r, sizeof kinds / sizeof kinds[0])];
        op_t *o = plan_add(p, kind);
        o->a[0] = (prng_below(r, 1000) < wide_pm ? 1 : 0) | prng_below(r, 3) << 1 | prng_below(r, 3) << 8;
        o->a[1] = prng_below(r, 40); o->a[2] = prng_next(r) >> 8; o->a[3] = prng_next(r) >> 8;
        o->a[4] = prng_below(r, 24); o->a[5] = prng_next(r) >> 8;
        /* 1: bad position; 2: unsatisfiable growth; 3: injected allocation failure on a growing call */
        if (kind == S_INSERT_CH || kind == S_APPEND_CH || kind == S_RESIZE || kind == S_INSERT_STR_N || kind == S_APPEND_STR_N)
            o->a[7] = (kind == S_APPEND_CH || kind == S_RESIZE || kind == S_APPEND_STR_N) ? 2 : 1 + prng_below(r, 2);
        else if (kind == S_SET_STR) { o->a[7] = 3; o->a[6] = 1; }
        else o->a[7] = 1;
        if (o->a[7] != 2 && prng_chance(r, 1, 4) && (kind == S_INSERT_CH || kind == S_INSERT_STR || kind == S_INSERT)) { o->a[7] = 3; o->a[6] = 1; }
    }
}

static const char *s_crash_prop(const plan_t *p, int opkind) { (void)p; (void)opkind; return g_cur_prop; }

const world_t world_string = { "string", s_gen, s_exec, s_opname, s_crash_prop };
