/*
 * Accesses to the managed memory that a real client thread would make
 * (reading through an owner, the clear callback looking at its argument).
 * Kept in their own translation unit: in the tsan variant this file and
 * /repo/src/memory.c are the only instrumented code, so every race report
 * has library or payload frames and harness bookkeeping can never produce one.
 */
#include <stdint.h>

uint64_t memc_payload_read(const void *p)
{
    return *(const volatile uint64_t *)p;
}

void memc_payload_write(void *p, uint64_t v)
{
    *(volatile uint64_t *)p = v;
}
