/*
 * World "trees": cstl_bintree and cstl_rbtree (C01), red-black rules (C02),
 * clear with a freeing callback (C15).
 *
 * mode 1: both kinds; mode 2: red-black trees only, audit-heavy key streams;
 * mode 15: clear-heavy with freeing callbacks and refills.
 */
#include "../core/sim.h"

#include "cstl/bintree.h"
#include "cstl/rbtree.h"

#include <string.h>
#include <stdlib.h>
#include <time.h>
#include <limits.h>
/* a visit function stops a traversal with "a non-zero value": any of them, which the traversal must hand back unchanged */
static const int stopvals[12] = { -3, -2, -1, 11, 1, 2, 3, 256, 65536, -65536, INT_MIN, INT_MAX };

enum { T_INSERT = 1, T_FIND, T_ERASE, T_FOREACH, T_CLEAR, T_SWAP, T_HEIGHT, T_HUGE, T_CHURN, T_GIANT, T_DEEP };

static const char *t_opname(int k)
{
    switch (k) {
    case T_INSERT: return "insert"; case T_FIND: return "find"; case T_ERASE: return "erase";
    case T_FOREACH: return "foreach"; case T_CLEAR: return "clear"; case T_SWAP: return "swap";
    case T_HEIGHT: return "height"; case T_HUGE: return "huge"; case T_CHURN: return "churn"; case T_GIANT: return "giant_churn"; case T_DEEP: return "deep";
    }
    return "?";
}

enum { CF_NB, CF_NR, CF_KEYS, CF_JUNK, CF_MAXN, CF_CLEARFREES, CF_STREAM };

#define NT 4                    /* 0,1: bintree; 2,3: rbtree */
#define MAXN 2100

struct telem {
    uint64_t magic;
    int id, key;
    int tree;                   /* which tree holds it (-1 none) */
    int mark;
    struct cstl_bintree_node bn;
    uint64_t pad;
    struct cstl_rbtree_node rn;
    uint64_t tail;
    /* a second set of node members at other offsets: a tree may be declared over either, swap exchanges offsets too */
    struct cstl_bintree_node bn2;
    uint64_t pad2;
    struct cstl_rbtree_node rn2;
};
#define MAGIC 0x7ee7ee7ee7ee7ee7ull

/* every tree has a private pointer of its own that tells the comparison function which way round it orders; the
 * pointer belongs to the tree OBJECT and moves with it on swap */
struct tord { int dir; };
struct mtree {
    int n;
    struct telem *e[MAXN];
    int since_clear;
    struct tord *ord;
};
static struct tord tords[4];
/* what the library is given: one of two comparison functions that order the opposite way, and a private pointer whose direction
 * times the function's sign is the tree's direction (tords, the model's). Function and pointer belong to the tree object and
 * both move with swap; exchanging only one of them turns the order round. */
static struct tord tpriv[4]; static int tfs[4];

static struct cstl_bintree bt[2];
static struct cstl_rbtree rb[2];
static struct mtree mt[NT];
static int enabled[NT], nenabled, idx_of[NT];
static int keys, maxn, clear_frees, next_id;
static unsigned maxreach;
static int walk_epoch;

static int is_rb(int t) { return t >= 2; }
static struct cstl_bintree *BT(int t) { return is_rb(t) ? &rb[t - 2].t : &bt[t]; }
static int tkind[NT];          /* which node member tree t is currently declared over (moves with swap) */
static size_t rbmember_off(int t) { return tkind[t] ? offsetof(struct telem, rn2) : offsetof(struct telem, rn); }
static size_t node_off(int t)
{
    if (is_rb(t)) return rbmember_off(t) + offsetof(struct cstl_rbtree_node, n);
    return tkind[t] ? offsetof(struct telem, bn2) : offsetof(struct telem, bn);
}
static cstl_rbtree_color_t colour_of(int t, const struct telem *e) { return ((const struct cstl_rbtree_node *)((const char *)e + rbmember_off(t)))->c; }
static struct telem *elem_of(int t, const struct cstl_bintree_node *n)
{
    return (struct telem *)((char *)n - node_off(t));
}
static struct cstl_bintree_node *node_of(int t, struct telem *e)
{
    return (struct cstl_bintree_node *)((char *)e + node_off(t));
}

static const char *prop_of(int t)
{
    if (mt[t].since_clear >= 0 && mt[t].since_clear <= 3) return "C15";
    return "C01";
}

static const char *ctx_of(int t)
{
    if (mt[t].since_clear >= 0 && mt[t].since_clear <= 3) return is_rb(t) ? "rb-after-clear" : "bt-after-clear";
    return is_rb(t) ? "rbtree" : "bintree";
}

#define VIOLP(prop, oracle, ...) do { char _k[128]; \
        snprintf(_k, sizeof _k, "%s/%s/%s/%s", prop, oracle, t_opname(g_run.opkind), g_cur_ctx); \
        sim_violation(_k, __VA_ARGS__); } while (0)
#define VIOL(t, oracle, ...) VIOLP(prop_of(t), oracle, __VA_ARGS__)

/* element HANDLES: what the caller hands to the library need not be the start of the structure. In some runs the
 * handle of an element is an address past both sets of node members, so every node offset given to cstl_*_init()
 * is "negative" (a size_t close to SIZE_MAX); in others it lies 2^31 or 2^32 bytes BEFORE the structure (an element
 * type with a huge payload in front of its node member: offsets just above 2^31 / 2^32). The library never looks
 * through a handle, it only adds and subtracts the offset - which goes wrong if that is done in less than 64 bits */
static size_t g_hnd;
#define HND(e) ((void *)((uintptr_t)(e) + g_hnd))
#define ELM(h) ((struct telem *)((uintptr_t)(h) - g_hnd))
#define ELMN(h) ((h) ? ELM(h) : NULL)

static int cmp_plain(const void *a, const void *b, void *p)
{
    const struct telem *x = a, *y = b;
    (void)p;
    return (x->key > y->key) - (x->key < y->key);
}

/* in a fraction of the runs the comparison function itself looks its arguments up in ANOTHER tree: a library
 * with hidden shared state (a static probe, a cached path) does not survive a caller that re-enters it */
static struct cstl_rbtree auxtree;
static struct telem auxel[64];
static int reentrant;

static int pl_calls;     /* bumped by the comparison and visit callbacks; read by small setjmp-free functions right after a library call */
static int cmp_key(const void *a, const void *b, void *p)
{
    const struct telem *x = ELM(a), *y = ELM(b);
    const struct tord *to = p;
    pl_calls++;
    if (reentrant) {
        CB_ENTER();
        struct telem pr; const struct telem *fx, *fy;
        pr.magic = MAGIC; pr.tail = ~MAGIC;
        g_inlib = 1;
        pr.key = x->key % 64; fx = cstl_rbtree_find(&auxtree, &pr, NULL);
        pr.key = y->key % 64; fy = cstl_rbtree_find(&auxtree, &pr, NULL);
        g_inlib = 0;
        if (fx == NULL || fy == NULL || fx->key != x->key % 64 || fy->key != y->key % 64)
            sim_violation("C01/reentrant_lookup/compare/aux-tree", "a lookup in an independent tree, made from inside a comparison callback, returned the wrong element");
        CB_LEAVE();
    }
    return sim_cmp((to ? to->dir : 1) * ((x->key > y->key) - (x->key < y->key)));
}

static int cmp_key_rev(const void *a, const void *b, void *p) { return cmp_key(b, a, p); }
#define TFN(i) (tfs[i] > 0 ? cmp_key : cmp_key_rev)

/* erased elements are the caller's again: some are kept (their node members scribbled on) and inserted again later -
 * the same object, the same address */
static struct telem *recycle[4]; static int nrecycle; static unsigned recycle_tick;
static struct telem *new_elem(int key, int t)
{
    struct telem *e;
    recycle_tick = recycle_tick * 1103515245u + 12345u;
    if (nrecycle > 0 && (recycle_tick >> 16 & 1)) { e = recycle[--nrecycle]; PROBE("recycled_element_inserted"); }
    else e = simheap_alloc(sizeof *e, TAG_ELEM);
    e->magic = MAGIC; e->tail = ~MAGIC;
    e->id = next_id++; e->key = key; e->tree = t; e->mark = 0;
    return e;
}

/* ------------------------------------------------------- traversal logging */

#define MAXLOG (3 * MAXN + 16)
struct vlog { const struct telem *e; int ord; };
static struct vlog vlogv[MAXLOG];
static int nvlog, v_stop_at, v_stop_val;

static int nested_count;
static int nested_visit(const void *e, cstl_bintree_visit_order_t ord, void *p) { (void)e; (void)ord; (void)p; nested_count++; return 0; }
static int cur_walk_rev;

static int visit_cb(const void *e, cstl_bintree_visit_order_t ord, void *p)
{
    CB_ENTER();
    int r = 0;
    (void)p;
    if (reentrant && (nvlog % 3) == 1) {
        /* the visit function walks ANOTHER tree in the opposite direction (and asks for its height): a traversal
         * that keeps its direction in shared state loses its way */
        size_t hmin, hmax;
        nested_count = 0;
        g_inlib = 1;
        (void)cstl_rbtree_foreach(&auxtree, nested_visit, NULL, cur_walk_rev ? CSTL_BINTREE_FOREACH_DIR_FWD : CSTL_BINTREE_FOREACH_DIR_REV);
        cstl_rbtree_height(&auxtree, &hmin, &hmax);
        g_inlib = 0;
        if (nested_count < 64) sim_violation("C01/reentrant_walk/foreach/aux-tree", "a nested traversal of an independent 64-element tree made %d visits", nested_count);
    }
    if (nvlog < MAXLOG) { vlogv[nvlog].e = ELM(e); vlogv[nvlog].ord = (int)ord; }
    nvlog++;
    if (v_stop_at > 0 && nvlog == v_stop_at) r = v_stop_val;
    CB_LEAVE();
    return r;
}

/* reference traversal over the public links */
static struct vlog reflog[MAXLOG];
static int nref;

static void ref_walk(int t, const struct cstl_bintree_node *n, int rev, int depth)
{
    const struct cstl_bintree_node *first, *second;
    int leaf;
    if (n == NULL || nref >= MAXLOG - 4 || depth > MAXN) return;
    first = rev ? n->r : n->l; second = rev ? n->l : n->r;
    leaf = n->l == NULL && n->r == NULL;
    if (!leaf) { reflog[nref].e = elem_of(t, n); reflog[nref++].ord = CSTL_BINTREE_VISIT_ORDER_PRE; }
    ref_walk(t, first, rev, depth + 1);
    reflog[nref].e = elem_of(t, n);
    reflog[nref++].ord = leaf ? CSTL_BINTREE_VISIT_ORDER_LEAF : CSTL_BINTREE_VISIT_ORDER_MID;
    ref_walk(t, second, rev, depth + 1);
    if (!leaf) { reflog[nref].e = elem_of(t, n); reflog[nref++].ord = CSTL_BINTREE_VISIT_ORDER_POST; }
}

/* --------------------------------------------------------- structure audit */

static int a_count, a_maxdepth, a_mindepth_leaf;
static int a_prev_key, a_have_prev;

/* returns black height (rb) or 0; reports violations */
static int audit_node(int t, const struct cstl_bintree_node *n, const struct cstl_bintree_node *parent, int depth)
{
    struct telem *e;
    int lh, rh, black;
    if (n == NULL) return 0;
    if (depth > MAXN || a_count > mt[t].n + 2)
        VIOL(t, "links_cycle", "tree %d: walk from the root does not terminate (cycle or stray link)", t);
    e = elem_of(t, n);
    if (!simheap_is_live(e) || e->magic != MAGIC || e->tail != ~MAGIC)
        VIOL(t, "foreign_node", "tree %d: a node reachable from the root is not a live element", t);
    if (e->tree != t) VIOL(t, "foreign_node", "tree %d: reachable element %d belongs to tree %d", t, e->id, e->tree);
    if (e->mark == walk_epoch) VIOL(t, "node_twice", "tree %d: element %d reachable twice", t, e->id);
    e->mark = walk_epoch;
    a_count++;
    if (n->p != parent) VIOL(t, "parent_link", "tree %d: parent link of element %d does not point at its parent", t, e->id);
    lh = audit_node(t, n->l, n, depth + 1);
    if (a_have_prev && mt[t].ord->dir * a_prev_key > mt[t].ord->dir * e->key)
        VIOL(t, "order", "tree %d: in-order walk decreases at element %d (%d after %d)", t, e->id, e->key, a_prev_key);
    a_prev_key = e->key; a_have_prev = 1;
    rh = audit_node(t, n->r, n, depth + 1);
    if (n->l == NULL && n->r == NULL) {
        if (depth + 1 > a_maxdepth) a_maxdepth = depth + 1;
        if (depth + 1 < a_mindepth_leaf) a_mindepth_leaf = depth + 1;
    }
    if (!is_rb(t)) return 0;
    black = colour_of(t, e) == CSTL_RBTREE_COLOR_B;
    if (colour_of(t, e) != CSTL_RBTREE_COLOR_B && colour_of(t, e) != CSTL_RBTREE_COLOR_R)
        VIOLP("C02", "colour_value", "tree %d: element %d has an invalid colour", t, e->id);
    if (!black) {
        if ((n->l && colour_of(t, elem_of(t, n->l)) == CSTL_RBTREE_COLOR_R)
            || (n->r && colour_of(t, elem_of(t, n->r)) == CSTL_RBTREE_COLOR_R))
            VIOLP("C02", "red_red", "tree %d: red element %d has a red child", t, e->id);
    }
    if (lh != rh) VIOLP("C02", "black_height", "tree %d: black heights differ below element %d (%d vs %d)", t, e->id, lh, rh);
    return lh + black;
}

static void audit_tree(int t)
{
    struct cstl_bintree *b = BT(t);
    struct mtree *m = &mt[t];
    int i;
    uint64_t sh = 0x70 + (uint64_t)is_rb(t);
    size_t hmin, hmax;

    if (cstl_bintree_size(b) != (size_t)m->n)
        VIOL(t, "size", "tree %d reports size %zu, reference has %d", t, cstl_bintree_size(b), m->n);
    walk_epoch++;
    a_count = 0; a_maxdepth = 0; a_mindepth_leaf = MAXN + 5; a_have_prev = 0;
    audit_node(t, b->root, NULL, 0);
    if (a_count != m->n) VIOL(t, "reachable_count", "tree %d: %d nodes reachable, reference has %d", t, a_count, m->n);
    for (i = 0; i < m->n; i++)
        if (m->e[i]->mark != walk_epoch) VIOL(t, "lost_element", "tree %d: element %d is held but not reachable", t, m->e[i]->id);
    if (is_rb(t)) {
        if (b->root && colour_of(t, elem_of(t, b->root)) != CSTL_RBTREE_COLOR_B)
            VIOLP("C02", "root_black", "tree %d: the root is red", t);
        TRY(cstl_rbtree_height(&rb[t - 2], &hmin, &hmax));
        if (g_aborted) VIOLP("C02", "abort", "height aborted");
        if (hmax != (size_t)a_maxdepth)
            VIOLP("C02", "height_api", "tree %d: cstl_rbtree_height max %zu, longest root-to-leaf path is %d", t, hmax, a_maxdepth);
        if (m->n > 0 && hmin != (size_t)a_mindepth_leaf)
            VIOLP("C02", "height_api", "tree %d: cstl_rbtree_height min %zu, shortest root-to-leaf path is %d", t, hmin, a_mindepth_leaf);
        /* max <= 2*log2(n+1)  <=>  2^max <= (n+1)^2 */
        if (a_maxdepth >= 62 || ((uint64_t)1 << a_maxdepth) > (uint64_t)(m->n + 1) * (uint64_t)(m->n + 1))
            VIOLP("C02", "height_bound", "tree %d: height %d exceeds 2*log2(%d+1)", t, a_maxdepth, m->n);
    }
    /* abstract state: shape + keys (+ colours) in pre-order would be ideal; use in-order keys + height */
    sh = fnv1a(sh, (uint64_t)m->n); sh = fnv1a(sh, (uint64_t)a_maxdepth);
    if (m->n <= 12 && b->root) {
        /* small trees: exact shape hash through the reference traversal */
        nref = 0; ref_walk(t, b->root, 0, 0);
        for (i = 0; i < nref; i++) {
            sh = fnv1a(sh, (uint64_t)reflog[i].e->key * 4 + (uint64_t)reflog[i].ord);
            if (is_rb(t)) sh = fnv1a(sh, (uint64_t)colour_of(t, reflog[i].e));
        }
    }
    state_note(sh);
    if ((unsigned)m->n > maxreach) maxreach = (unsigned)m->n;
}

/* API-level traversal check, both directions, with optional cancellation */
static void check_foreach(int t, int rev, int stop_at, int stop_val)
{
    struct cstl_bintree *b = BT(t);
    static int r; int expect_n, expect_r = 0, i, mids = 0, prev = 0, have = 0;
    nvlog = 0; v_stop_at = stop_at; v_stop_val = stop_val; cur_walk_rev = rev;
    if (is_rb(t)) TRY(r = cstl_rbtree_foreach(&rb[t - 2], visit_cb, NULL, rev ? CSTL_BINTREE_FOREACH_DIR_REV : CSTL_BINTREE_FOREACH_DIR_FWD));
    else TRY(r = cstl_bintree_foreach(b, visit_cb, NULL, rev ? CSTL_BINTREE_FOREACH_DIR_REV : CSTL_BINTREE_FOREACH_DIR_FWD));
    if (g_aborted) VIOL(t, "abort", "foreach aborted");
    nref = 0; ref_walk(t, b->root, rev, 0);
    expect_n = nref;
    if (stop_at > 0 && stop_at <= nref) { expect_n = stop_at; expect_r = stop_val; PROBE("foreach_cancel"); }
    if (nvlog != expect_n) VIOL(t, "foreach_count", "tree %d: traversal made %d visits, expected %d", t, nvlog, expect_n);
    if (r != expect_r) VIOL(t, "foreach_result", "tree %d: traversal returned %d, expected %d", t, r, expect_r);
    for (i = 0; i < expect_n; i++) {
        if (vlogv[i].e != reflog[i].e || vlogv[i].ord != reflog[i].ord)
            VIOL(t, "foreach_sequence", "tree %d: visit %d is (%s of element) but the tree's shape demands another", t, i,
                 vlogv[i].ord == 0 ? "PRE" : vlogv[i].ord == 1 ? "MID" : vlogv[i].ord == 2 ? "POST" : "LEAF");
        if (vlogv[i].ord == CSTL_BINTREE_VISIT_ORDER_MID || vlogv[i].ord == CSTL_BINTREE_VISIT_ORDER_LEAF) {
            int k = vlogv[i].e->key;
            mids++;
            if (have && ((rev != (mt[t].ord->dir < 0)) ? k > prev : k < prev))
                VIOL(t, "foreach_order", "tree %d: %s traversal is not monotone at visit %d", t, rev ? "reverse" : "forward", i);
            prev = k; have = 1;
        }
    }
    if (expect_n == nref && mids != mt[t].n)
        VIOL(t, "foreach_exactly_once", "tree %d: %d MID/LEAF visits for %d held elements", t, mids, mt[t].n);
}

/* -------------------------------------------------------------------- clear */

static int clr_id[MAXN + 8], nclr, pre_ids[MAXN];

/* a container of containers: the clear callback of the outer tree clears two small independent trees (other node
 * members, another callback, another private pointer) before it deals with its own element */
static struct telem nc_el[6]; static int nc_calls, nc_bad; static char nc_token;
static void nc_cb(void *obj, void *priv)
{
    struct telem *e = obj;
    if (priv != (void *)&nc_token || e < nc_el || e >= nc_el + 6 || e->mark != 77) nc_bad++;
    else e->mark = 78;
    nc_calls++;
}
static void nested_clear(void)
{
    static struct cstl_bintree nbt; static struct cstl_rbtree nrb;
    int q, saved = g_inlib;
    nc_calls = nc_bad = 0;
    g_inlib = 1;
    cstl_bintree_init(&nbt, cmp_plain, NULL, offsetof(struct telem, bn2));
    cstl_rbtree_init(&nrb, cmp_plain, NULL, offsetof(struct telem, rn2));
    for (q = 0; q < 6; q++) {
        nc_el[q].magic = MAGIC; nc_el[q].tail = ~MAGIC; nc_el[q].key = (q * 5) % 7; nc_el[q].id = -4; nc_el[q].tree = -3; nc_el[q].mark = 77;
        if (q < 3) cstl_bintree_insert(&nbt, &nc_el[q], NULL); else cstl_rbtree_insert(&nrb, &nc_el[q], NULL);
    }
    cstl_bintree_clear(&nbt, nc_cb, &nc_token);
    cstl_rbtree_clear(&nrb, nc_cb, &nc_token);
    g_inlib = saved;
    if (nc_calls != 6 || nc_bad || cstl_bintree_size(&nbt) != 0 || cstl_rbtree_size(&nrb) != 0)
        sim_violation("C15/nested_clear/clear/tree-of-trees", "two independent 3-element trees cleared from inside a clear callback: %d callbacks (%d with a wrong element or private pointer)", nc_calls, nc_bad);
    PROBE("clear_callback_clears_other_trees");
}

static int plain_count;          /* see the lists world: read by an optimised, setjmp-free caller right after clear returns */
static void clear_cb(void *obj, void *priv);
static int bt_clear_plain(struct cstl_bintree *b, void *priv) { plain_count = 0; g_inlib = 1; cstl_bintree_clear(b, clear_cb, priv); g_inlib = 0; return plain_count; }
static int rb_clear_plain(struct cstl_rbtree *r, void *priv) { plain_count = 0; g_inlib = 1; cstl_rbtree_clear(r, clear_cb, priv); g_inlib = 0; return plain_count; }

static void clear_cb(void *obj, void *priv)
{
    CB_ENTER();
    struct telem *e = ELM(obj);
    plain_count++;
    int id = -1;
    if (reentrant) nested_clear();
    if (priv != (void *)&clr_id[0]) { nclr = -1000000; }       /* the outer callback's own private pointer must still arrive */
    if (simheap_is_live(e) && e->magic == MAGIC && e->tail == ~MAGIC) id = e->id;
    if (nclr < MAXN + 8) clr_id[nclr] = id;
    nclr++;
    if (id >= 0 && clear_frees) {
        memset(e, 0xDD, sizeof *e);
        simheap_free(e);
    }
    CB_LEAVE();
}

static void tick(int t) { if (mt[t].since_clear >= 0 && mt[t].since_clear < 100) mt[t].since_clear++; }

/* ------------------------------------------------------------ very large trees */

static size_t huge_cleared; static struct telem *huge_pool; static size_t huge_np;
static void huge_clear_cb(void *obj, void *priv)
{
    struct telem *e = obj;
    (void)priv;
    if (e < huge_pool || e >= huge_pool + huge_np || e->mark == -7) { huge_cleared = (size_t)-1 / 2; return; }
    e->mark = -7;                       /* handed over: poison the links, it must never be touched again */
    memset(&e->bn, 0xDD, sizeof e->bn); memset(&e->rn, 0xDD, sizeof e->rn);
    huge_cleared++;
}

static int huge_bh(const struct cstl_bintree_node *n, const struct cstl_bintree_node *parent, int depth, int *maxd, size_t *cnt, int *prevkey)
{
    const struct telem *e; int l, r, black;
    if (n == NULL) return 0;
    if (depth > 80) VIOLP("C02", "height_bound", "huge tree: a path longer than 80 nodes");
    e = (const struct telem *)((const char *)n - offsetof(struct telem, rn.n));
    if (e < huge_pool || e >= huge_pool + huge_np) VIOLP("C01", "foreign_node", "huge tree: a reachable node is not an element");
    if (n->p != parent) VIOLP("C02", "parent_link", "huge tree: a parent link is wrong");
    l = huge_bh(n->l, n, depth + 1, maxd, cnt, prevkey);
    if (e->key < *prevkey) VIOLP("C01", "order", "huge tree: in-order walk decreases");
    *prevkey = e->key; (*cnt)++;
    r = huge_bh(n->r, n, depth + 1, maxd, cnt, prevkey);
    if (depth + 1 > *maxd) *maxd = depth + 1;
    black = e->rn.c == CSTL_RBTREE_COLOR_B;
    if (!black && ((n->l && ((const struct telem *)((const char *)n->l - offsetof(struct telem, rn.n)))->rn.c == CSTL_RBTREE_COLOR_R)
                   || (n->r && ((const struct telem *)((const char *)n->r - offsetof(struct telem, rn.n)))->rn.c == CSTL_RBTREE_COLOR_R)))
        VIOLP("C02", "red_red", "huge tree: red node with a red child");
    if (l != r) VIOLP("C02", "black_height", "huge tree: black heights differ (%d vs %d)", l, r);
    return l + black;
}

/* a red-black tree of 65 537 ... 262 144 elements built from an ascending / descending / random stream (ascending
 * streams give the tallest legal trees: height close to 2*log2(n)), audited, partly erased, audited, then cleared */
static void huge_tree(uint64_t nsel, uint64_t seed)
{
    static const size_t sizes[] = { 131072, 262144, 350000, 420000 };
    size_t n = sizes[nsel % 4], i, cnt, live; int pattern = (int)(nsel >> 8) % 4, maxd, prevkey;   /* 0,1 ascending; 2 descending; 3 random */
    int hinted = (int)(nsel >> 16 & 1);         /* every insert passes the parent reported by find as a hint (what cstl_map_insert does) */
    static struct cstl_rbtree ht; static size_t hmin, hmax;
    uint64_t x = seed;
    struct telem *pool = malloc(n * sizeof *pool);
    if (!pool) sim_harness_bug("trees: no memory for a huge tree");
    huge_pool = pool; huge_np = n;
    g_cur_ctx = "huge-tree"; g_cur_prop = "C02";
    memset(&ht, 0x6b, sizeof ht);
    cstl_rbtree_init(&ht, cmp_plain, NULL, offsetof(struct telem, rn));
    for (i = 0; i < n; i++) {
        pool[i].magic = MAGIC; pool[i].tail = ~MAGIC; pool[i].id = (int)i; pool[i].mark = 0; pool[i].tree = 9;
        pool[i].key = pattern <= 1 ? (int)i : pattern == 2 ? (int)(n - i) : (int)(splitmix64(&x) % 1000000);
        if (hinted) {
            const void *par = NULL;
            g_inlib = 1; (void)cstl_rbtree_find(&ht, &pool[i], &par); cstl_rbtree_insert(&ht, &pool[i], (void *)par); g_inlib = 0;
        } else {
            g_inlib = 1; cstl_rbtree_insert(&ht, &pool[i], NULL); g_inlib = 0;
        }
    }
    if (hinted) PROBE("huge_tree_hinted_inserts");
    if (n > 327678) PROBE("huge_tree_above_327678");
    live = n;
    for (int round = 0; round < 2; round++) {
        size_t expect = round == 0 ? n : n / 2 - n / 8;
        if (round == 1) {
            /* the full (tallest) tree is cleared first; then half of it is rebuilt and a quarter of that erased */
            g_cur_prop = "C15"; g_cur_ctx = "huge-tree-clear";
            huge_cleared = 0;
            TRY(cstl_rbtree_clear(&ht, huge_clear_cb, NULL));
            if (g_aborted) VIOLP("C15", "abort", "clear of a huge tree aborted");
            if (huge_cleared != n) VIOLP("C15", "clear_count", "clear of a tree of %zu elements called back %zu times", n, huge_cleared);
            if (cstl_rbtree_size(&ht) != 0) VIOLP("C15", "size", "size is %zu after clear", cstl_rbtree_size(&ht));
            if (maxd > 32) PROBE("huge_clear_taller_than_32");
            g_cur_ctx = "huge-tree"; g_cur_prop = "C02";
            for (i = 0; i < n / 2; i++) { pool[i].mark = 0; pool[i].tree = 9; g_inlib = 1; cstl_rbtree_insert(&ht, &pool[i], NULL); g_inlib = 0; }
            live = n / 2 - n / 8;
            for (i = 0; i < n / 8; i++) {
                static void *ret; struct telem pr;
                pr.key = pool[i * 4 + 1].key;
                TRY(ret = cstl_rbtree_erase(&ht, &pr));
                if (g_aborted) VIOLP("C01", g_aborted == 2 ? "assert" : "abort", "erase on a huge tree aborted");
                if (ret == NULL) VIOLP("C01", "erase_present", "huge tree: erase of a held key returned NULL");
                ((struct telem *)ret)->tree = -1;
            }
        }
        if (cstl_rbtree_size(&ht) != expect) VIOLP("C01", "size", "huge tree reports size %zu, reference has %zu", cstl_rbtree_size(&ht), expect);
        maxd = 0; cnt = 0; prevkey = -1;
        if (ht.t.root && ((struct telem *)((char *)ht.t.root - offsetof(struct telem, rn.n)))->rn.c != CSTL_RBTREE_COLOR_B) VIOLP("C02", "root_black", "huge tree: the root is red");
        huge_bh(ht.t.root, NULL, 0, &maxd, &cnt, &prevkey);
        if (cnt != expect) VIOLP("C01", "reachable_count", "huge tree: %zu nodes reachable, reference has %zu", cnt, expect);
        TRY(cstl_rbtree_height(&ht, &hmin, &hmax));
        if (hmax != (size_t)maxd) VIOLP("C02", "height_api", "huge tree: cstl_rbtree_height max %zu, longest path is %d", hmax, maxd);
        if (maxd >= 62 || ((uint64_t)1 << maxd) > (uint64_t)(expect + 1) * (uint64_t)(expect + 1)) VIOLP("C02", "height_bound", "huge tree: height %d exceeds 2*log2(%zu+1)", maxd, expect);
        if (maxd > 32) PROBE("huge_tree_taller_than_32");
    }
    /* clear: exactly once each, never touched again, reusable */
    g_cur_prop = "C15"; g_cur_ctx = "huge-tree-clear";
    huge_cleared = 0;
    TRY(cstl_rbtree_clear(&ht, huge_clear_cb, NULL));
    if (g_aborted) VIOLP("C15", "abort", "clear of a huge tree aborted");
    if (huge_cleared != live) VIOLP("C15", "clear_count", "clear of a tree of %zu elements called back %zu times", live, huge_cleared);
    if (cstl_rbtree_size(&ht) != 0) VIOLP("C15", "size", "size is %zu after clear", cstl_rbtree_size(&ht));
    pool[0].key = 5; pool[0].mark = 0;
    TRY(cstl_rbtree_insert(&ht, &pool[0], NULL));
    if (cstl_rbtree_size(&ht) != 1 || cstl_rbtree_find(&ht, &pool[0], NULL) != &pool[0]) VIOLP("C15", "reuse", "the cleared huge tree is not usable like a fresh one");
    free(pool); huge_pool = NULL;
    PROBE("huge_tree");
    EVT("huge_tree", n, pattern, 0);
    if (n > maxreach) maxreach = (unsigned)n;
}

/* ------------------------------------------------------------ very deep (plain binary) trees
 * A plain binary tree fed a sorted run degenerates into a chain: thousands of levels deep. On the chain hang small random
 * subtrees ("teeth") on the other side, sparsely all the way down and densely in the last levels. Everything that walks
 * such a tree with a depth cap, an explicit stack or a parent-pointer walk (foreach, height, clear) meets its worst case here.
 * The chain goes in with the parent as hint (what find reports for the next key of a sorted run), the teeth unhinted. */
static size_t deep_mids;
static int deep_visit(const void *e, cstl_bintree_visit_order_t ord, void *p) { (void)e; (void)p; if (ord == CSTL_BINTREE_VISIT_ORDER_MID || ord == CSTL_BINTREE_VISIT_ORDER_LEAF) deep_mids++; return 0; }
static void deep_tree(uint64_t sel, uint64_t seed)
{
    static const int depths[] = { 4100, 8200, 9000, 16400, 20000, 30000, 40000, 66000 };       /* (the pinned library recurses: about 100 000 levels fit an 8 MiB stack) */
    int D = depths[sel % 8], right = (int)(sel >> 8 & 1), dense = (int)(sel >> 10 & 3), d, maxteeth = dense ? D + 8 : D / 16 + 400, nt = 0, prevkey, d0, d1; size_t n = 0, cnt, np = (size_t)D + (size_t)maxteeth * 6 + 8;
    uint64_t x = seed;
    static struct cstl_bintree dt; static size_t hmin, hmax;
    struct telem *pool = malloc(np * sizeof *pool), *prev = NULL;
    const struct cstl_bintree_node *nd;
    if (!pool) sim_harness_bug("trees: no memory for a deep tree");
    huge_pool = pool; huge_np = np;
    g_cur_ctx = right ? "deep-tree-right-chain" : "deep-tree-left-chain"; g_cur_prop = "C01";
    memset(&dt, 0x6b, sizeof dt);
    cstl_bintree_init(&dt, cmp_plain, NULL, offsetof(struct telem, bn));
#define DEEP_ADD(k, hint) do { struct telem *e_ = &pool[n]; e_->magic = MAGIC; e_->tail = ~MAGIC; e_->id = (int)n; e_->mark = 0; e_->tree = 9; e_->key = (k); \
        g_inlib = 1; cstl_bintree_insert(&dt, e_, (hint)); g_inlib = 0; n++; } while (0)
    d0 = (int)(splitmix64(&x) % (uint64_t)(D - 3100)); d1 = d0 + 600 + (int)(splitmix64(&x) % 2400);
    { clock_t t0 = clock();
    for (d = 0; d < D; d++) {
        /* an implementation that ignores the hint is correct and makes this loop quadratic: if the build is that slow the chain
         * stays as long as it has become */
        if ((d & 1023) == 1023 && d >= 4095 && (double)(clock() - t0) / CLOCKS_PER_SEC > 8.0) { D = d; PROBE("deep_tree_cut_short_slow_insert"); break; }
        /* chain keys 32 apart; the teeth of level d get keys strictly between the chain keys of levels d-1 and d */
        int k = right ? 64 + 32 * d : 64 + 32 * (D - d);
        DEEP_ADD(k, prev);
        prev = &pool[n - 1];
        /* teeth: sparse all the way and dense at the bottom (0); on every level of one stretch of 600 ... 3000 levels (1, 3); on every level (2) */
        if (d > 0 && nt < maxteeth && (splitmix64(&x) % (uint64_t)(D / 150 + 1) == 0 || (d >= D - 24 && splitmix64(&x) % 2 == 0) || dense == 2 || (dense && d >= d0 && d < d1))) {
            int indense = dense == 2 || (dense && d >= d0 && d < d1);
            int q, m = indense ? 1 : 1 + (int)(splitmix64(&x) % 6); unsigned used = 0;
            for (q = 0; q < m; q++) {
                int off = 1 + (int)(splitmix64(&x) % 31);
                if (used >> off & 1) continue;      /* distinct keys: the shape of the tooth is what the insertion order makes it */
                used |= 1u << off;
                DEEP_ADD(right ? k - off : k + off, indense ? prev : NULL);       /* (a single tooth hangs directly off the chain node: that node is its hint) */
            }
            nt++;
        }
    }
    }
#undef DEEP_ADD
    if (cstl_bintree_size(&dt) != n) VIOLP("C01", "size", "deep tree reports size %zu, reference has %zu", cstl_bintree_size(&dt), n);
    /* in-order walk over the public links without recursion: sorted, every node an element, each once */
    cnt = 0; prevkey = -1; nd = dt.root;
    if (nd) while (nd->l) nd = nd->l;
    while (nd && cnt <= n) {
        const struct telem *e = (const struct telem *)((const char *)nd - offsetof(struct telem, bn));
        if (e < pool || e >= pool + n) VIOLP("C01", "foreign_node", "deep tree: a reachable node is not an element");
        if (e->key <= prevkey) VIOLP("C01", "order", "deep tree: the in-order walk is not increasing at node %zu", cnt);
        prevkey = e->key; cnt++;
        if (nd->r) { nd = nd->r; while (nd->l) nd = nd->l; }
        else { while (nd->p && nd == nd->p->r) nd = nd->p; nd = nd->p; }
    }
    if (cnt != n) VIOLP("C01", "reachable_count", "deep tree: %zu nodes reachable, reference has %zu", cnt, n);
    deep_mids = 0;
    { static int r2; TRY(r2 = cstl_bintree_foreach(&dt, deep_visit, NULL, (sel >> 9 & 1) ? CSTL_BINTREE_FOREACH_DIR_REV : CSTL_BINTREE_FOREACH_DIR_FWD)); (void)r2; }
    if (g_aborted) VIOLP("C01", "abort", "foreach over a deep tree aborted");
    if (deep_mids != n) VIOLP("C01", "foreach_exactly_once", "foreach over a tree %d levels deep met %zu elements, %zu are held", D, deep_mids, n);
    if ((uint64_t)nt * (uint64_t)D < 40000000) {     /* (the library measures height by walking up from every leaf: leaves x depth steps) */
        TRY(cstl_bintree_height(&dt, &hmin, &hmax));
        if (hmax < (size_t)D || hmax > (size_t)D + 8) VIOLP("C01", "height_api", "deep tree: cstl_bintree_height says %zu, the chain alone is %d levels", hmax, D);
    }
    g_cur_prop = "C15"; g_cur_ctx = right ? "deep-tree-clear-right-chain" : "deep-tree-clear-left-chain";
    huge_cleared = 0; huge_np = n;
    TRY(cstl_bintree_clear(&dt, huge_clear_cb, NULL));
    if (g_aborted) VIOLP("C15", "abort", "clear of a deep tree aborted");
    if (huge_cleared != n) {
        size_t missed = 0, i; for (i = 0; i < n; i++) if (pool[i].mark != -7) missed++;
        VIOLP("C15", "clear_count", "clear of a tree %d levels deep (%zu elements) called back %s (%zu elements never handed over)", D, n, huge_cleared > n ? "for an element twice or for something that is not an element" : "too few times", missed);
    }
    if (cstl_bintree_size(&dt) != 0) VIOLP("C15", "size", "size is %zu after clear", cstl_bintree_size(&dt));
    pool[0].key = 5; pool[0].mark = 0;
    TRY(cstl_bintree_insert(&dt, &pool[0], NULL));
    if (cstl_bintree_size(&dt) != 1 || cstl_bintree_find(&dt, &pool[0], NULL) != &pool[0]) VIOLP("C15", "reuse", "the cleared deep tree is not usable like a fresh one");
    free(pool); huge_pool = NULL;
    PROBE("deep_tree"); if (D > 8192) PROBE("deep_tree_8192_levels"); if (D > 16384) PROBE("deep_tree_16384_levels"); if (nt) PROBE("deep_tree_with_teeth");
    EVT("deep_tree", D, right, n);
    if (n > maxreach) maxreach = (unsigned)n;
    g_run.nontrivial = 1;
}

static size_t giant_mids;
static void giant_clr(void *e, void *p) { (void)e; (void)p; }
static int count_visit(const void *e, cstl_bintree_visit_order_t ord, void *p) { (void)e; (void)p; if (ord == CSTL_BINTREE_VISIT_ORDER_MID || ord == CSTL_BINTREE_VISIT_ORDER_LEAF) giant_mids++; return 0; }

/* a counter that wraps at 2^32: the greatest element is inserted, found and erased; then a transient element is looked up
 * (a miss), inserted with the reported parent as hint and erased again 2^31 times - 2^32 modifications without a
 * successful lookup or an unhinted insert in between; then the erased key is looked up again and a new greatest element
 * inserted. About a minute per run: thorough tier only. */
static void giant_churn(int rbkind, unsigned sel, uint64_t variant)
{
    static struct cstl_bintree gb; static struct cstl_rbtree gr; static struct telem el[12], tr; static const void *ret, *par;
    /* modifications since the greatest element went in and was found: its removal (1), 2^31 - 3 rounds of two
     * modifications each, then single steps. The rounds are "look the transient element up (a miss), insert it with the
     * reported parent as hint, erase it by key" or "insert it, clear the tree" (no lookup at all, not even the one inside
     * erase-by-key). The removed key is looked up after every single step around 2^32, and a new greatest element goes in
     * unhinted when the count is 2^32 - 1, 2^32 or 2^32 + 1. sel % 3: the count, sel / 3 % 2: the kind of round; variant: the keys. */
    unsigned bits = getenv("SIM_GIANT_BITS") ? (unsigned)atoi(getenv("SIM_GIANT_BITS")) : 32;      /* (a smaller width only to try the harness itself out) */
    uint64_t q, rounds = ((uint64_t)1 << (bits - 1)) - 3, total, target = ((uint64_t)1 << bits) + (uint64_t)(sel % 3) - 1;
    int i, tr_in = 0, step, by_clear = (int)(sel / 3 % 2), nheld;
    struct telem probe;
    sim_watchdog(1500);
    g_cur_prop = "C01"; g_cur_ctx = by_clear ? "giant-churn-insert-clear" : "giant-churn-insert-erase"; g_hnd = 0;
    memset(&gb, 0x5c, sizeof gb); memset(&gr, 0x5c, sizeof gr);
    if (rbkind) cstl_rbtree_init(&gr, cmp_plain, NULL, offsetof(struct telem, rn)); else cstl_bintree_init(&gb, cmp_plain, NULL, offsetof(struct telem, bn));
#define G_INSERT(e, hint) do { if (rbkind) cstl_rbtree_insert(&gr, (e), (void *)(hint)); else cstl_bintree_insert(&gb, (e), (void *)(hint)); } while (0)
#define G_FIND(e, parp) (rbkind ? cstl_rbtree_find(&gr, (e), (parp)) : cstl_bintree_find(&gb, (e), (parp)))
#define G_ERASE(e) (rbkind ? cstl_rbtree_erase(&gr, (e)) : cstl_bintree_erase(&gb, (e)))
#define G_CLEAR() do { if (rbkind) cstl_rbtree_clear(&gr, giant_clr, NULL); else cstl_bintree_clear(&gb, giant_clr, NULL); } while (0)
    g_inlib = 1;
    for (i = 0; i < 12; i++) {
        el[i].magic = MAGIC; el[i].tail = ~MAGIC; el[i].id = i; el[i].key = (int)((variant >> (8 + i * 3)) % 50) + (i == 11 ? 1000 : 0);      /* el[11] is the greatest, inserted last */
        G_INSERT(&el[i], NULL);
    }
    ret = G_FIND(&el[11], NULL);
    g_inlib = 0;
    if (ret != &el[11]) VIOLP("C01", "find_present", "the greatest element is not found");
    g_inlib = 1;
    if (by_clear) { G_CLEAR(); nheld = 0; } else { (void)G_ERASE(&el[11]); nheld = 11; }
    total = 1;
    tr.magic = MAGIC; tr.tail = ~MAGIC; tr.id = -9; tr.key = 5000;
    for (q = 0; q < rounds; q++) {
        if (by_clear) { G_INSERT(&tr, NULL); G_CLEAR(); }
        else { par = NULL; (void)G_FIND(&tr, &par); G_INSERT(&tr, par); if (G_ERASE(&tr) != &tr) break; }
    }
    g_inlib = 0;
    if (q != rounds) VIOLP("C01", "churn", "round %llu of lookup / hinted insert / erase of a transient element returned another element", (unsigned long long)q);
    total += 2 * rounds;
    probe = el[11];
    sim_watchdog(60);      /* the long part is over: from here a run that does not end is a finding, not a slow run */
    for (step = 0; step < 12; step++) {
        /* one more modification */
        g_inlib = 1;
        if (!tr_in) { par = NULL; if (!by_clear) (void)G_FIND(&tr, &par); G_INSERT(&tr, par); tr_in = 1; }
        else { if (by_clear) { G_CLEAR(); nheld = 0; } else (void)G_ERASE(&tr); tr_in = 0; }
        g_inlib = 0;
        total++;
        TRY(ret = G_FIND(&probe, NULL));
        if (ret != NULL) VIOLP("C01", "find_absent", "a key removed %llu modifications ago is found again", (unsigned long long)total);
        if (total == target) break;
    }
    el[11].key = 2000;
    TRY(G_INSERT(&el[11], NULL));
    TRY(ret = G_FIND(&el[11], NULL));
    if (ret != &el[11]) VIOLP("C01", "find_present", "an element inserted after %llu modifications is not found", (unsigned long long)total);
    {
        size_t n = rbkind ? cstl_rbtree_size(&gr) : cstl_bintree_size(&gb), want = (size_t)nheld + 1 + (size_t)tr_in;
        if (n != want) VIOLP("C01", "size", "size is %zu after the churn, reference has %zu", n, want);
        for (i = 0; i < nheld; i++) { TRY(ret = G_FIND(&el[i], NULL)); if (ret == NULL || ((const struct telem *)ret)->key != el[i].key) VIOLP("C01", "find_present", "after the churn a held element is not found by its key"); }
        /* and the walk must meet exactly what is held */
        giant_mids = 0;
        { static int r2; TRY(r2 = rbkind ? cstl_rbtree_foreach(&gr, count_visit, NULL, CSTL_BINTREE_FOREACH_DIR_FWD) : cstl_bintree_foreach(&gb, count_visit, NULL, CSTL_BINTREE_FOREACH_DIR_FWD)); (void)r2; }
        if (giant_mids != want) VIOLP("C01", "foreach_exactly_once", "after the churn a walk meets %zu elements, %zu are held", giant_mids, want);
    }
#undef G_INSERT
#undef G_FIND
#undef G_ERASE
#undef G_CLEAR
    PROBE("giant_churn_2^32_modifications");
    EVT("giant_churn", rbkind, total, sel);
    g_run.nontrivial = 1;
}

/* ---------------------------------------------------------------------- exec */

static struct telem probe;

static int pl_mid_visit(const void *e, cstl_bintree_visit_order_t ord, void *p) { (void)e; (void)p; if (ord == CSTL_BINTREE_VISIT_ORDER_MID || ord == CSTL_BINTREE_VISIT_ORDER_LEAF) pl_calls++; return 0; }
static int bt_find_plain(struct cstl_bintree *b, const void *probe) { pl_calls = 0; g_inlib = 1; (void)cstl_bintree_find(b, probe, NULL); g_inlib = 0; return pl_calls; }
static int rb_find_plain(struct cstl_rbtree *r, const void *probe) { pl_calls = 0; g_inlib = 1; (void)cstl_rbtree_find(r, probe, NULL); g_inlib = 0; return pl_calls; }
static int bt_foreach_plain(struct cstl_bintree *b, int rev) { pl_calls = 0; g_inlib = 1; (void)cstl_bintree_foreach(b, pl_mid_visit, NULL, rev ? CSTL_BINTREE_FOREACH_DIR_REV : CSTL_BINTREE_FOREACH_DIR_FWD); g_inlib = 0; return pl_calls; }
static int rb_foreach_plain(struct cstl_rbtree *r, int rev) { pl_calls = 0; g_inlib = 1; (void)cstl_rbtree_foreach(r, pl_mid_visit, NULL, rev ? CSTL_BINTREE_FOREACH_DIR_REV : CSTL_BINTREE_FOREACH_DIR_FWD); g_inlib = 0; return pl_calls; }

/* ... and about what a function returns: the pointer that find / erase hand back IS the caller's element (see the heap world).
 * One function per library call. */
static struct telem pl_tel;
#define T_ALIAS_BODY(INS, GET, UNDO) \
    { struct telem *got; const void *r; int before, after; \
      pl_tel.mark = 1; g_inlib = 1; INS; r = GET; \
      if (r == NULL) { g_inlib = 0; return -1; } \
      got = (struct telem *)((char *)(uintptr_t)r - hnd); before = pl_tel.mark; got->mark = before + 1; after = pl_tel.mark; \
      UNDO; g_inlib = 0; return after; }
static __attribute__((noinline)) int bt_alias_find(struct cstl_bintree *b, size_t hnd) T_ALIAS_BODY(cstl_bintree_insert(b, (char *)&pl_tel + hnd, NULL), cstl_bintree_find(b, (char *)&pl_tel + hnd, NULL), (void)cstl_bintree_erase(b, (char *)&pl_tel + hnd))
static __attribute__((noinline)) int bt_alias_erase(struct cstl_bintree *b, size_t hnd) T_ALIAS_BODY(cstl_bintree_insert(b, (char *)&pl_tel + hnd, NULL), cstl_bintree_erase(b, (char *)&pl_tel + hnd), (void)0)
static __attribute__((noinline)) int rb_alias_find(struct cstl_rbtree *b, size_t hnd) T_ALIAS_BODY(cstl_rbtree_insert(b, (char *)&pl_tel + hnd, NULL), cstl_rbtree_find(b, (char *)&pl_tel + hnd, NULL), (void)cstl_rbtree_erase(b, (char *)&pl_tel + hnd))
static __attribute__((noinline)) int rb_alias_erase(struct cstl_rbtree *b, size_t hnd) T_ALIAS_BODY(cstl_rbtree_insert(b, (char *)&pl_tel + hnd, NULL), cstl_rbtree_erase(b, (char *)&pl_tel + hnd), (void)0)

static void t_exec(const plan_t *p)
{
    struct simheap_cfg hc = { RP_MOVE, 0, (unsigned char)p->cfg[CF_JUNK] };
    int i, k, nb, nr;

    simheap_reset(&hc, p->cfg[CF_JUNK]);
    simheap_far((int)p->cfg[CF_FAR]);
    /* (mode 3: the node member of tree 0 - binary - or of tree 2 - red-black -, by the parity of the junk byte) */
    simheap_far_nodeoff((p->cfg[CF_JUNK] & 1) ? ((p->cfg[CF_STREAM] >> 14 & 1) ? offsetof(struct telem, rn2) : offsetof(struct telem, rn)) + offsetof(struct cstl_rbtree_node, n)
                                              : ((p->cfg[CF_STREAM] >> 12 & 1) ? offsetof(struct telem, bn2) : offsetof(struct telem, bn)));
    nb = (int)p->cfg[CF_NB]; nr = (int)p->cfg[CF_NR];
    if (nb > 2) nb = 2; if (nr > 2) nr = 2; if (nb + nr == 0) nr = 1;
    nenabled = 0;
    for (i = 0; i < NT; i++) {
        enabled[i] = i < 2 ? i < nb : i - 2 < nr;
        if (enabled[i]) idx_of[nenabled++] = i;
        mt[i].n = 0; mt[i].since_clear = -1;
    }
    keys = (int)p->cfg[CF_KEYS]; if (keys < 1) keys = 1;
    maxn = (int)p->cfg[CF_MAXN]; if (maxn < 1) maxn = 8; if (maxn > MAXN - 8) maxn = MAXN - 8;
    clear_frees = (int)p->cfg[CF_CLEARFREES];
    next_id = 0; maxreach = 0; nrecycle = 0; recycle_tick = (unsigned)p->cfg[CF_JUNK] * 2654435761u;
    memset(bt, (int)(unsigned char)p->cfg[CF_JUNK], sizeof bt); memset(rb, (int)(unsigned char)p->cfg[CF_JUNK], sizeof rb);
    for (i = 0; i < NT; i++) tkind[i] = (int)(p->cfg[CF_STREAM] >> (12 + i) & 1);
    switch (p->cfg[CF_STREAM] >> 16 & 7) {
    default: g_hnd = 0; break;
    case 1: case 2: g_hnd = sizeof(struct telem); PROBE("handles_past_the_node_members"); break;
    case 3: g_hnd = (size_t)0 - (((size_t)1 << 31) + 24); PROBE("handles_2^31_before_the_node_members"); break;
    case 4: g_hnd = (size_t)0 - (((size_t)1 << 32) + 24); PROBE("handles_2^32_before_the_node_members"); break;
    }
    for (i = 0; i < NT; i++) {
        tords[i].dir = (p->cfg[CF_STREAM] >> (20 + i) & 1) ? -1 : 1; mt[i].ord = &tords[i];
        tfs[i] = (p->cfg[CF_STREAM] >> (28 + i) & 1) ? -1 : 1; tpriv[i].dir = tords[i].dir * tfs[i];
        if (tfs[i] < 0) PROBE("tree_with_the_other_comparison_function");
    }
    if (p->cfg[CF_DECL] && g_hnd == 0) {
        /* the documented other way to get an empty tree: the initializer macros, with expressions as arguments */
        int one = 1 + (int)(p->cfg[CF_JUNK] & 0), three = one + 2;
        if (tkind[0]) { DECLARE_CSTL_BINTREE(t, struct telem, bn2, one ? TFN(0) : &cmp_plain, tpriv + 0); bt[0] = t; }
        else bt[0] = (struct cstl_bintree)CSTL_BINTREE_INITIALIZER(struct telem, bn, TFN(0), tpriv + (one - 1));
        if (tkind[1]) bt[1] = (struct cstl_bintree)CSTL_BINTREE_INITIALIZER(struct telem, bn2, TFN(1), tpriv + one);
        else { DECLARE_CSTL_BINTREE(t, struct telem, bn, TFN(1), tpriv + one); bt[1] = t; }
        if (tkind[2]) { DECLARE_CSTL_RBTREE(t, struct telem, rn2, TFN(2), tpriv + three - 1); rb[0] = t; }
        else rb[0] = (struct cstl_rbtree)CSTL_RBTREE_INITIALIZER(struct telem, rn, one ? TFN(2) : &cmp_plain, tpriv + 2);
        if (tkind[3]) rb[1] = (struct cstl_rbtree)CSTL_RBTREE_INITIALIZER(struct telem, rn2, TFN(3), tpriv + three);
        else { DECLARE_CSTL_RBTREE(t, struct telem, rn, TFN(3), tpriv + three); rb[1] = t; }
        PROBE("from_initializer_macro");
    } else {
    cstl_bintree_init(&bt[0], TFN(0), &tpriv[0], node_off(0) - g_hnd);
    cstl_bintree_init(&bt[1], TFN(1), &tpriv[1], node_off(1) - g_hnd);
    cstl_rbtree_init(&rb[0], TFN(2), &tpriv[2], rbmember_off(2) - g_hnd);
    cstl_rbtree_init(&rb[1], TFN(3), &tpriv[3], rbmember_off(3) - g_hnd);
    }
    probe.magic = MAGIC; probe.tail = ~MAGIC; probe.id = -1; probe.tree = -1;
    reentrant = 0;
    if (p->cfg[CF_STREAM] >> 8 & 1) {
        int q;
        cstl_rbtree_init(&auxtree, cmp_plain, NULL, offsetof(struct telem, rn));
        for (q = 0; q < 64; q++) {
            int kk = (q * 37) % 64;
            auxel[kk].magic = MAGIC; auxel[kk].tail = ~MAGIC; auxel[kk].key = kk; auxel[kk].id = -3; auxel[kk].tree = -2;
            g_inlib = 1; cstl_rbtree_insert(&auxtree, &auxel[kk], NULL); g_inlib = 0;
        }
        reentrant = 1;
        PROBE("comparator_reenters_library");
    }

    for (k = 0; k < p->nops; k++) {
        const op_t *o = &p->ops[k];
        int t = idx_of[o->a[0] % (uint64_t)nenabled];
        struct mtree *m = &mt[t];
        int key = (int)(o->a[1] % (uint64_t)keys);
        static struct telem *e; static const void *ret; static const void *par;

        g_run.step = k; g_run.opkind = o->kind; g_run.steps++;
        g_cur_prop = prop_of(t); g_cur_ctx = ctx_of(t);
        e = NULL; ret = NULL; par = NULL;
        if (o->kind == T_HUGE) { huge_tree(o->a[1], o->a[2]); continue; }
        if (o->kind == T_DEEP) { deep_tree(o->a[1], o->a[2]); continue; }
        if (o->kind == T_GIANT) { giant_churn((int)(o->a[1] & 1), (unsigned)((o->a[1] >> 1) % 6), o->a[2]); continue; }
        if (o->kind == T_CHURN) {
            /* the n-th repetition: a transient element with a key of its own is inserted and erased 254 ... 65 536 times */
            static const unsigned reps[] = { 254, 255, 256, 65534, 65535, 65536 };
            static struct telem tr; unsigned n = reps[o->a[2] % 6], q; void *got = NULL;
            tr.magic = MAGIC; tr.tail = ~MAGIC; tr.id = -7; tr.key = keys + 3 + (int)(o->a[3] & 1) * 4; tr.tree = t;    /* beyond every key in use */
            g_cur_ctx = n > 60000 ? "churn-2^16" : "churn-2^8";
            g_inlib = 1;
            for (q = 0; q < n; q++) {
                if (is_rb(t)) { cstl_rbtree_insert(&rb[t - 2], HND(&tr), NULL); got = cstl_rbtree_erase(&rb[t - 2], HND(&tr)); }
                else { cstl_bintree_insert(BT(t), HND(&tr), NULL); got = cstl_bintree_erase(BT(t), HND(&tr)); }
                if (got != HND(&tr)) break;
            }
            g_inlib = 0;
            if (q != n) VIOL(t, "churn", "repetition %u of insert/erase of a transient element returned another element", q);
            PROBE(n > 60000 ? "churn_2^16" : "churn_2^8");
            EVT("churn", t, n, 0);
            g_cur_ctx = ctx_of(t);
            audit_tree(t);
            continue;
        }

        switch (o->kind) {
        case T_INSERT: {
            int hinted = (int)(o->a[2] & 1);
            if (m->n >= maxn) goto do_erase;
            e = new_elem(key, t);
            if (hinted) {
                /* the only documented hint: the parent reported by find for this key just before */
                probe.key = key;
                if (is_rb(t)) TRY(ret = cstl_rbtree_find(&rb[t - 2], HND(&probe), &par));
                else TRY(ret = cstl_bintree_find(BT(t), HND(&probe), &par)); ret = ELMN(ret);
                if (g_aborted) VIOL(t, "abort", "find aborted");
                PROBE("insert_hinted");
            }
            if (is_rb(t) && p->mode == 2) g_cur_prop = "C02";   /* crash attribution in the red-black check */
            if (is_rb(t)) TRY(cstl_rbtree_insert(&rb[t - 2], HND(e), (void *)par));
            else TRY(cstl_bintree_insert(BT(t), HND(e), (void *)par));
            g_cur_prop = prop_of(t);
            if (g_aborted) VIOL(t, "abort", "insert aborted");
            m->e[m->n++] = e;
            EVT("insert", t, e->id, key);
            break;
        }
        case T_FIND: {
            int held = 0;
            probe.key = key;
            if (k % 4 == 3 && !reentrant) {
                int which = (int)(k / 4 % 2), seen;
                pl_tel.magic = MAGIC; pl_tel.tail = ~MAGIC; pl_tel.id = -8; pl_tel.tree = t; pl_tel.key = keys + 11;        /* beyond every key in use */
                seen = is_rb(t) ? (which ? rb_alias_erase(&rb[t - 2], g_hnd) : rb_alias_find(&rb[t - 2], g_hnd)) : (which ? bt_alias_erase(BT(t), g_hnd) : bt_alias_find(BT(t), g_hnd));
                if (seen != 2) VIOL(t, "returned_pointer_is_not_the_element", "tree %d: a value written through the pointer that %s returned is not seen through the element's own name in an optimised caller (%d)", t, which ? "erase" : "find", seen);
                PROBE("returned_pointer_written_through");
            }
            if (k % 4 == 1) {
                /* what an optimised caller may assume about find (attributes on its prototype): the comparison function's
                 * effects on the caller's own statics must be visible when the call returns */
                int seen = is_rb(t) ? rb_find_plain(&rb[t - 2], HND(&probe)) : bt_find_plain(BT(t), HND(&probe));
                if (m->n >= 1 && seen < 1) VIOL(t, "callback_effects_invisible", "tree %d: find among %d elements: the caller's own counter, written by the comparison function and read right after the call in an optimised function, says %d", t, m->n, seen);
                PROBE("callback_counted_in_plain_function");
            }
            if (is_rb(t)) TRY(ret = cstl_rbtree_find(&rb[t - 2], HND(&probe), &par));
            else TRY(ret = cstl_bintree_find(BT(t), HND(&probe), &par)); ret = ELMN(ret);
            if (g_aborted) VIOL(t, "abort", "find aborted");
            for (i = 0; i < m->n; i++) if (m->e[i]->key == key) held++;
            if (held == 0) {
                PROBE("find_absent");
                if (ret != NULL) VIOL(t, "find_absent", "tree %d: find returned an element for absent key %d", t, key);
            } else {
                const struct telem *f = ret;
                PROBE("find_present");
                if (f == NULL) VIOL(t, "find_present", "tree %d: find returned NULL although key %d is held %d times", t, key, held);
                for (i = 0; i < m->n; i++) if (m->e[i] == f) break;
                if (i == m->n) VIOL(t, "find_foreign", "tree %d: find returned a pointer that is not a held element", t);
                if (f->key != key) VIOL(t, "find_wrong", "tree %d: find returned an element with key %d for probe %d", t, f->key, key);
            }
            EVT("find", t, key, held);
            break;
        }
        case T_ERASE: do_erase: {
            int held = 0;
            const struct telem *victim;
            probe.key = key;
            if (o->kind == T_INSERT || (o->a[2] % 4 != 0 && m->n > 0)) {
                /* bias toward keys that are present */
                probe.key = key = m->e[o->a[3] % (uint64_t)m->n]->key;
            }
            for (i = 0; i < m->n; i++) if (m->e[i]->key == key) held++;
            /* classify the node the library will pick (same find) */
            if (is_rb(t)) TRY(victim = cstl_rbtree_find(&rb[t - 2], HND(&probe), NULL));
            else TRY(victim = cstl_bintree_find(BT(t), HND(&probe), NULL)); victim = ELMN(victim);
            if (victim != NULL && simheap_is_live(victim) && held) {
                const struct cstl_bintree_node *n = node_of(t, (struct telem *)victim);
                if (n->p == NULL) PROBE("erase_root");
                if (!n->l && !n->r) PROBE("erase_leaf");
                else if (!n->l || !n->r) PROBE("erase_one_child");
                else if (n->r->l == NULL) PROBE("erase_two_children_succ_is_child");
                else PROBE("erase_two_children_succ_deeper");
            }
            if (is_rb(t) && p->mode == 2) g_cur_prop = "C02";
            {
                /* the probe is usually a scratch object; sometimes it is an element that is itself held in the tree (the
                 * caller asks "remove one like this one") - with duplicates not necessarily the one that goes */
                static void *pr;
                pr = HND(&probe);
                if ((o->a[5] & 1) && held > 0) {
                    int pick = -1, seen = 0, want = (int)(o->a[3] >> 20) % held;
                    for (i = 0; i < m->n; i++) if (m->e[i]->key == key && seen++ == want) pick = i;
                    if (pick >= 0) { pr = HND(m->e[pick]); PROBE("erase_with_held_element_as_probe"); if (held > 1) PROBE("erase_probe_among_duplicates"); }
                }
                if (is_rb(t)) TRY(ret = cstl_rbtree_erase(&rb[t - 2], pr));
                else TRY(ret = cstl_bintree_erase(BT(t), pr));
                ret = ELMN(ret);
            }
            g_cur_prop = prop_of(t);
            if (g_aborted) VIOL(t, g_aborted == 2 ? "assert" : "abort", "erase aborted");
            if (held == 0) {
                PROBE("erase_absent");
                if (ret != NULL) VIOL(t, "erase_absent", "tree %d: erase returned an element for absent key %d", t, key);
            } else {
                for (i = 0; i < m->n; i++) if (m->e[i] == ret) break;
                if (ret == NULL) VIOL(t, "erase_present", "tree %d: erase returned NULL although key %d is held", t, key);
                if (i == m->n) VIOL(t, "erase_foreign", "tree %d: erase returned a pointer that is not a held element", t);
                e = m->e[i];
                if (e->key != key) VIOL(t, "erase_wrong", "tree %d: erase returned an element with key %d for probe %d", t, e->key, key);
                m->e[i] = m->e[--m->n];
                EVT("erase", t, e->id, key);
                e->tree = -1;
                recycle_tick = recycle_tick * 1103515245u + 12345u;
                if (nrecycle < 4 && (recycle_tick >> 16 & 3) == 0) {
                    memset(&e->bn, 0xA5, sizeof e->bn); memset(&e->rn, 0xA5, sizeof e->rn);
                    memset(&e->bn2, 0xA5, sizeof e->bn2); memset(&e->rn2, 0xA5, sizeof e->rn2);
                    recycle[nrecycle++] = e;
                } else
                simheap_free(e);
            }
            break;
        }
        case T_FOREACH: {
            int rev = (int)(o->a[2] & 1);
            if (k % 4 == 1) {
                int seen = is_rb(t) ? rb_foreach_plain(&rb[t - 2], rev) : bt_foreach_plain(BT(t), rev);
                if (seen != m->n) VIOL(t, "callback_effects_invisible", "tree %d: foreach over %d elements: the caller's own counter, written by the visit function and read right after the call in an optimised function, says %d", t, m->n, seen);
            }
            int total = 3 * m->n + 2;
            int stop_at = (int)(o->a[3] % (uint64_t)total);
            int stop_val = stopvals[(o->a[4] >> 8 ^ o->a[4]) % 12];
            if (o->a[5] & 1) stop_at = 0;
            check_foreach(t, rev, stop_at, stop_val);
            EVT("foreach", t, rev, nvlog);
            break;
        }
        case T_CLEAR: {
            int npre = m->n, j;
            static unsigned char used[MAXN];
            for (i = 0; i < npre; i++) pre_ids[i] = m->e[i]->id;
            nclr = 0;
            m->since_clear = 0; g_cur_prop = "C15"; g_cur_ctx = ctx_of(t);
            if (o->a[2] & 1) {
                int seen = is_rb(t) ? rb_clear_plain(&rb[t - 2], &clr_id[0]) : bt_clear_plain(BT(t), &clr_id[0]);
                if (seen != npre) VIOL(t, "callback_effects_invisible", "tree %d: clear of %d elements: the caller's own counter, written by the callback and read right after the call in an optimised function, says %d", t, npre, seen);
                PROBE("clear_in_plain_function");
            } else
            if (is_rb(t)) TRY(cstl_rbtree_clear(&rb[t - 2], clear_cb, &clr_id[0]));
            else TRY(cstl_bintree_clear(BT(t), clear_cb, &clr_id[0]));
            m->n = 0;
            if (g_aborted) VIOL(t, "abort", "clear aborted");
            if (nclr != npre) VIOL(t, "clear_count", "tree %d: clear called back %d times for %d elements", t, nclr, npre);
            memset(used, 0, (size_t)npre + 1);
            for (i = 0; i < nclr; i++) {
                if (clr_id[i] < 0) VIOL(t, "clear_foreign", "tree %d: clear handed over something that is not a live element (call %d)", t, i);
                for (j = 0; j < npre; j++) if (!used[j] && pre_ids[j] == clr_id[i]) { used[j] = 1; break; }
                if (j == npre) VIOL(t, "clear_multiset", "tree %d: clear handed over an element not in the tree, or twice (call %d)", t, i);
            }
            if (!clear_frees) for (i = 0; i < npre; i++) { m->e[i]->tree = -1; simheap_free(m->e[i]); }
            PROBE("clear"); if (npre == 0) PROBE("clear_empty"); if (npre >= 3) PROBE("clear_3plus");
            EVT("clear", t, nclr, 0);
            break;
        }
        case T_SWAP: {
            int u = -1, j; struct mtree *mu; int n;
            if (o->a[2] == 7 && (o->a[3] & 3) == 0) {
                /* swapping a tree with itself changes nothing */
                if (is_rb(t)) TRY(cstl_rbtree_swap(&rb[t - 2], &rb[t - 2])); else TRY(cstl_bintree_swap(BT(t), BT(t)));
                if (g_aborted) VIOL(t, "abort", "swap aborted");
                PROBE("self_swap"); EVT("swap_self", t, 0, 0);
                break;
            }
            /* partner of the same kind */
            for (j = 0; j < NT; j++) if (j != t && enabled[j] && is_rb(j) == is_rb(t)) u = j;
            if (u < 0) { EVT("skip", 0, 0, 0); break; }
            mu = &mt[u];
            if (is_rb(t)) TRY(cstl_rbtree_swap(&rb[t - 2], &rb[u - 2]));
            else TRY(cstl_bintree_swap(BT(t), BT(u)));
            if (g_aborted) VIOL(t, "abort", "swap aborted");
            {
                static struct telem *tmp[MAXN]; int sc;
                memcpy(tmp, m->e, sizeof(m->e[0]) * (size_t)m->n); n = m->n; sc = m->since_clear;
                memcpy(m->e, mu->e, sizeof(m->e[0]) * (size_t)mu->n); m->n = mu->n; m->since_clear = mu->since_clear;
                memcpy(mu->e, tmp, sizeof(m->e[0]) * (size_t)n); mu->n = n; mu->since_clear = sc;
                for (j = 0; j < m->n; j++) m->e[j]->tree = t;
                for (j = 0; j < mu->n; j++) mu->e[j]->tree = u;
                j = tkind[t]; tkind[t] = tkind[u]; tkind[u] = j;
                { struct tord *to = m->ord; m->ord = mu->ord; mu->ord = to; if (m->ord->dir != mu->ord->dir) PROBE("swap_trees_that_order_differently"); }
                if (tkind[t] != tkind[u]) PROBE("swap_different_offsets");
            }
            PROBE("swap");
            EVT("swap", t, u, 0);
            g_cur_prop = prop_of(u); g_cur_ctx = ctx_of(u);
            audit_tree(u);
            tick(u);
            break;
        }
        case T_HEIGHT: {
            static size_t hmin, hmax;
            if (is_rb(t)) TRY(cstl_rbtree_height(&rb[t - 2], &hmin, &hmax));
            else TRY(cstl_bintree_height(BT(t), &hmin, &hmax));
            if (g_aborted) VIOL(t, "abort", "height aborted");
            EVT("height", t, hmin, hmax);
            break;
        }
        default:
            EVT("skip", 0, 0, 0);
        }

        g_cur_prop = prop_of(t); g_cur_ctx = ctx_of(t);
        audit_tree(t);
        if (o->kind != T_FOREACH && (o->a[6] & 3) == 0) {
            /* API-level view of the whole content, no cancellation */
            check_foreach(t, (int)(o->a[6] >> 2 & 1), 0, 0);
        }
        if (o->kind != T_CLEAR) tick(t);
        if ((k & 31) == 31 || k == p->nops - 1) simheap_audit(prop_of(t), "trees");
    }

    {
        unsigned live = 0;
        for (i = 0; i < NT; i++) live += (unsigned)mt[i].n;
        live += (unsigned)nrecycle;
        if (simheap_live_count(TAG_ELEM) != live)
            sim_harness_bug("trees: element accounting broken (%u live, model %u)", simheap_live_count(TAG_ELEM), live);
        if (simheap_live_count(TAG_LIB) != 0) sim_violation("C01/heap/unexpected_alloc", "tree code allocated memory");
    }
    g_run.nontrivial = maxreach >= 3;
}

/* ------------------------------------------------------------------ generate */

static void t_gen(prng_t *r, int mode, plan_t *p)
{
    p->cfg[CF_FAR] = FAR_OF_INDEX();      /* element blocks 2^32 or 3 * 2^31 bytes apart in one run in seven each */
    p->cfg[CF_DECL] = DECL_OF_INDEX();    /* one run in five starts from the initializer macros */
    p->cfg[CF_REUSE] = REUSE_OF_INDEX();  /* one run in six: the allocator hands a freed block out again at once */
    int nops, i, longrun, small, stream;
    unsigned w_clear = mode == 15 ? 10 : 1;
    if (mode == 120) {
        op_t *o = plan_add(p, T_GIANT);
        p->cfg[CF_NB] = 0; p->cfg[CF_NR] = 1; p->cfg[CF_KEYS] = 2; p->cfg[CF_JUNK] = 1 + prng_below(r, 254); p->cfg[CF_MAXN] = 8;
        o->a[1] = g_gen_index; o->a[2] = prng_next(r);
        return;
    }
    if (mode == 121) {
        /* very deep plain trees: the run index walks depth x direction x traversal direction */
        op_t *o = plan_add(p, T_DEEP);
        p->cfg[CF_NB] = 1; p->cfg[CF_NR] = 0; p->cfg[CF_KEYS] = 2; p->cfg[CF_JUNK] = 1 + prng_below(r, 254); p->cfg[CF_MAXN] = 8;
        o->a[1] = (g_gen_index % 8) | (g_gen_index / 8 % 4) << 8 | (g_gen_index / 32 % 4) << 10; o->a[2] = prng_next(r);
        return;
    }
    if (mode == 102) {
        op_t *o = plan_add(p, T_HUGE);
        p->cfg[CF_NB] = 0; p->cfg[CF_NR] = 1; p->cfg[CF_KEYS] = 2; p->cfg[CF_JUNK] = 1 + prng_below(r, 254); p->cfg[CF_MAXN] = 8;
        o->a[1] = prng_next(r); o->a[2] = prng_next(r);
        {
            /* the first eight runs of the batch are the combinations that matter most (size index | pattern << 8 | hinted << 16) */
            static const uint64_t first[8] = { 3 | 0 << 8, 3 | 2 << 8 | 1 << 16, 2 | 1 << 8 | 1 << 16, 2 | 2 << 8, 1 | 0 << 8, 0 | 3 << 8, 3 | 3 << 8 | 1 << 16, 1 | 2 << 8 | 1 << 16 };
            if (g_gen_index < 8) o->a[1] = first[g_gen_index];
        }
        return;
    }
    int cur = 0, dir = 1;

    if (mode != 2 && prng_chance(r, 1, 60)) {
        /* a comb: an unbalanced binary tree whose spine is 130-220 nodes long and where every spine node has a child on
         * the other side (the worst case for anything that keeps "the siblings still to do" in a fixed-size array),
         * in either orientation; walked, measured, cleared, refilled */
        int pairs = 130 + (int)prng_below(r, 90), left = (int)prng_below(r, 2), k;
        p->cfg[CF_NB] = 1; p->cfg[CF_NR] = 0; p->cfg[CF_KEYS] = 1000; p->cfg[CF_JUNK] = 1 + prng_below(r, 254); p->cfg[CF_MAXN] = 480;
        p->cfg[CF_CLEARFREES] = prng_below(r, 2); p->cfg[CF_STREAM] = (prng_chance(r, 1, 3) ? prng_below(r, 8) << 16 : 0);
        for (k = 0; k < pairs; k++) {
            int spine = left ? 2 * (pairs - k) : 2 * k + 1, leaf = left ? spine + 1 : spine - 1;
            op_t *o = plan_add(p, T_INSERT); o->a[0] = 0; o->a[1] = (uint64_t)spine; o->a[6] = 1;
            o = plan_add(p, T_INSERT); o->a[0] = 0; o->a[1] = (uint64_t)leaf; o->a[6] = 1;
        }
        { op_t *o = plan_add(p, T_FOREACH); o->a[0] = 0; o->a[2] = prng_below(r, 8); o->a[4] = prng_below(r, 12); o->a[5] = 1; }
        { op_t *o = plan_add(p, T_HEIGHT); o->a[0] = 0; }
        { op_t *o = plan_add(p, T_CLEAR); o->a[0] = 0; }
        for (k = 0; k < 5; k++) { op_t *o = plan_add(p, T_INSERT); o->a[0] = 0; o->a[1] = prng_below(r, 1000); }
        return;
    }
    longrun = prng_chance(r, 1, 10);
    small = !longrun && prng_chance(r, 1, 5);
    if (mode == 2) { p->cfg[CF_NB] = 0; p->cfg[CF_NR] = 1 + prng_below(r, 2); }
    else { p->cfg[CF_NB] = prng_below(r, 3); p->cfg[CF_NR] = prng_below(r, 3); }
    p->cfg[CF_KEYS] = small ? 1 + prng_below(r, 4) : longrun ? 2 + prng_below(r, 1500) : 2 + prng_below(r, 63);
    p->cfg[CF_JUNK] = 1 + prng_below(r, 254);
    p->cfg[CF_MAXN] = longrun ? 100 + prng_below(r, 400) : small ? 2 + prng_below(r, 6) : 6 + prng_below(r, 58);
    p->cfg[CF_CLEARFREES] = mode == 15 ? 1 : prng_below(r, 2);
    stream = (int)prng_below(r, 6);      /* 0,1: random; 2 ascending; 3 descending; 4 zig-zag; 5 few values */
    p->cfg[CF_STREAM] = (uint64_t)stream | (prng_chance(r, 1, 6) ? 256 : 0) | (prng_chance(r, 1, 3) ? prng_below(r, 16) << 12 : 0) | (prng_chance(r, 1, 3) ? prng_below(r, 8) << 16 : 0) | (prng_chance(r, 1, 2) ? prng_below(r, 16) << 20 : 0) | (uint64_t)((g_gen_index / 5) & 15) << 28;      /* bits 28-31: which comparison function each tree gets */
    if (stream == 5) p->cfg[CF_KEYS] = 1 + prng_below(r, 3);
    nops = longrun ? 300 + (int)prng_below(r, 1700) : small ? 2 + (int)prng_below(r, 7) : 10 + (int)prng_below(r, 70);

    for (i = 0; i < nops; i++) {
        unsigned x = (unsigned)prng_below(r, 100 + w_clear);
        int kind;
        op_t *o;
        if (x < 42) kind = T_INSERT; else if (x < 54) kind = T_FIND; else if (x < 82) kind = T_ERASE;
        else if (x < 92) kind = T_FOREACH; else if (x < 96) kind = T_SWAP; else if (x < 100) kind = T_HEIGHT;
        else kind = T_CLEAR;
        if (kind == T_HEIGHT && prng_chance(r, 1, 40)) kind = T_CHURN;
        o = plan_add(p, kind);
        o->a[0] = prng_below(r, 4);
        if (kind == T_INSERT && stream >= 2 && stream <= 4) {
            if (stream == 2) cur++; else if (stream == 3) cur--; else { cur = (i & 1) ? 100000 - i : i; }
            o->a[1] = (uint64_t)((cur % 100000 + 100000) % 100000);
            (void)dir;
        } else {
            o->a[1] = prng_below(r, 4096);
        }
        o->a[2] = prng_below(r, 8);
        o->a[3] = prng_next(r) >> 8;
        o->a[4] = prng_below(r, 12);
        o->a[5] = prng_below(r, 2);
        o->a[6] = prng_below(r, longrun ? 64 : 8);
        if (kind == T_CLEAR && prng_chance(r, 3, 4)) {
            int j, nf = 1 + (int)prng_below(r, 5);
            for (j = 0; j < nf; j++) {
                op_t *q = plan_add(p, T_INSERT);
                q->a[0] = o->a[0]; q->a[1] = prng_below(r, 4096); q->a[2] = prng_below(r, 8);
            }
        }
    }
}

static const char *t_crash_prop(const plan_t *p, int opkind) { (void)p; (void)opkind; return g_cur_prop; }

const world_t world_trees = { "trees", t_gen, t_exec, t_opname, t_crash_prop };
