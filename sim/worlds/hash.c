/*
 * World "hash": cstl_hash with its incremental rehash running as background
 * work between foreground operations.
 *
 * mode 3  (C03): lookups stay exact; mix of keyed ops and resizes, realloc faults
 * mode 4  (C04): enumeration / clear at every stage of a rehash, reuse after clear
 * mode 19 (C19): call-count oracles: load, completion bound, per-op work bound
 * mode 17 (C17): bad-hash faults at chosen call ordinals; range samples of the built-ins
 * mode 16 (C16): systematic allocation-failure enumeration
 *
 * Verdicts are black-box: no private field of struct cstl_hash is read. The
 * non-perturbing audit checkpoints the table structs by value, every library
 * block (from the sim heap) and every element, performs lookups, and restores.
 */
#include "../core/sim.h"

#include "cstl/hash.h"

#include <string.h>
#include <math.h>
#include <float.h>
#include <limits.h>
#include <stdlib.h>
#include <time.h>
#include <limits.h>
/* a visit function stops a traversal with "a non-zero value": any of them, which the traversal must hand back unchanged */
static const int stopvals[12] = { -3, -2, -1, 11, 1, 2, 3, 256, 65536, -65536, INT_MIN, INT_MAX };

static uint64_t wk;             /* basic blocks of library code the last keyed operation executed (work variant only) */

enum { O_RESIZE = 1, O_INSERT, O_FIND, O_ERASE, O_ERASE_NONMEMBER, O_REHASH, O_SHRINK, O_SWAP,
       O_FOREACH, O_FOREACH_CONST, O_CLEAR, O_RANGE, O_SCAN, O_CHURN };

static const char *x_opname(int k)
{
    switch (k) {
    case O_RESIZE: return "resize"; case O_INSERT: return "insert"; case O_FIND: return "find";
    case O_ERASE: return "erase"; case O_ERASE_NONMEMBER: return "erase_nonmember"; case O_REHASH: return "rehash";
    case O_SHRINK: return "shrink_to_fit"; case O_SWAP: return "swap"; case O_FOREACH: return "foreach";
    case O_FOREACH_CONST: return "foreach_const"; case O_CLEAR: return "clear"; case O_RANGE: return "range_sample"; case O_SCAN: return "range_scan"; case O_CHURN: return "churn";
    }
    return "?";
}

enum { CF_NT, CF_KEYS, CF_JUNK, CF_MAXE, CF_SPREAD, CF_AUDIT_PM, CF_RPOLICY, CF_TABSEED };

#define MAXE 2100
#define NTAB 2
#define EMAGIC 0x4a5a4a5a4a5a4a5aull

struct xelem {
    uint64_t magic;
    int id, table;              /* table: -1 = not in any table */
    uint64_t pad;
    struct cstl_hash_node hn;
    uint64_t tail;
    struct cstl_hash_node hn2;  /* second node member: a table may be declared over either one; swap exchanges offsets */
    int nk;                     /* which member this element is (or would be) linked through */
};
#define XN(e) ((e)->nk ? &(e)->hn2 : &(e)->hn)

/* hash function identities */
enum { F_NULL = 0, F_DIV, F_MUL, F_ZERO, F_HALF, F_TAB, NFN };
static const char *fn_name[] = { "NULL", "h_div", "h_mul", "h_zero", "h_half", "h_tab" };

struct geom { uint64_t n; int fn; };

struct mtab {
    int inited;                 /* had a successful resize since init/clear */
    int nlive;
    struct xelem *live[MAXE];
    struct geom req;            /* most recently requested (and satisfiable) geometry */
    struct geom hist[3];        /* geometries that may still be in force (for the work bound) */
    int settled;                /* last probe saw exactly one consultation */
    int builtin;                /* the table runs on the library's built-in function: no call counts */
    int since_clear;
    int kind;                   /* node member the table object is declared over (moves with swap) */
    uint64_t budget;            /* C19: keyed ops allowed until the rehash must have finished */
    uint64_t keyed;             /* keyed ops since the last resize call */
    uint64_t work_sum, work_ops, work_n; unsigned work_l;   /* work variant: since the last resize call */
};
#define WORK_C0 100
#define WORK_C1 80
#define WORK_C2 12

static struct cstl_hash tb[NTAB];
static struct mtab mt[NTAB];
static int ntab, keys, maxe, spread, mode_g, next_id;
static unsigned audit_pm;
static uint64_t tabseed;
static prng_t aprng;            /* audit sampling only (seeded from the plan) */
static unsigned maxreach;

/* erased / never-inserted but still allocated elements */
#define MAXLIMBO 64
static struct xelem *limbo[MAXLIMBO];
static int nlimbo;

/* ------------------------------------------------------ hash call recording */

struct hcall { int fn; uint64_t k, m, res; };
#define MAXCALLS 8192
static struct hcall calls[MAXCALLS];
static unsigned ncalls;         /* calls since the counter was last zeroed */

/* bad-hash fault */
static unsigned bad_at;         /* 1-based call ordinal within the op; 0 = off */
static int bad_kind;            /* 0: m, 1: m+1, 2: SIZE_MAX, 3..6: out of range but congruent to a valid index modulo 2^60 / 2^32, or with a top bit set */
static int bad_returned;
static int m0_seen;

static void snapshot_take(int which);
static int snapshot_differs(int which);

static size_t pure_hash(int fn, size_t k, size_t m)
{
    switch (fn) {
    case F_DIV: return k % m;
    case F_MUL: return cstl_hash_mul(k, m);
    case F_ZERO: return 0;
    case F_HALF: return (k / 2) % m;
    case F_TAB: { uint64_t x = k * 0x9e3779b97f4a7c15ull + m * 31 + tabseed; return splitmix64(&x) % m; }
    }
    return 0;
}

static size_t hcommon(int fn, size_t k, size_t m)
{
    CB_ENTER();
    size_t r;
    if (m == 0) {
        /* never divide by zero in the harness: report what the library did */
        m0_seen = 1;
        if (ncalls < MAXCALLS) { calls[ncalls].fn = fn; calls[ncalls].k = k; calls[ncalls].m = 0; calls[ncalls].res = 0; }
        ncalls++;
        CB_LEAVE();
        return 0;
    }
    r = pure_hash(fn, k, m);
    if (ncalls < MAXCALLS) { calls[ncalls].fn = fn; calls[ncalls].k = k; calls[ncalls].m = m; calls[ncalls].res = r; }
    ncalls++;
    if (bad_at && ncalls == bad_at && !bad_returned) {
        bad_returned = 1;
        switch (bad_kind) {
        case 0: r = m; break;
        case 1: r = m + 1; break;
        case 2: r = SIZE_MAX; break;
        case 3: r = r + ((size_t)1 << 60); break;      /* a check done on a scaled (x16) offset would wrap */
        case 4: r = r | ((size_t)1 << 63); break;
        case 5: r = r | ((size_t)1 << 62); break;
        default: r = r + ((size_t)1 << 32); break;     /* a check done in 32 bits would wrap */
        }
        snapshot_take(1);       /* nothing may be written between this return and the abort */
    }
    CB_LEAVE();
    return r;
}

static size_t h_div(size_t k, size_t m) { return hcommon(F_DIV, k, m); }
static size_t h_mul(size_t k, size_t m) { return hcommon(F_MUL, k, m); }
static size_t h_zero(size_t k, size_t m) { return hcommon(F_ZERO, k, m); }
static size_t h_half(size_t k, size_t m) { return hcommon(F_HALF, k, m); }
static size_t h_tab(size_t k, size_t m) { return hcommon(F_TAB, k, m); }
static cstl_hash_func_t *fn_ptr[] = { NULL, h_div, h_mul, h_zero, h_half, h_tab };

/* ------------------------------------------------------------- attribution */

static const char *prop_of(int t, int kind)
{
    if (mode_g == 16) return "C16";
    if (mt[t].since_clear >= 0 && mt[t].since_clear <= 6) return "C04";
    switch (kind) {
    case O_FOREACH: case O_FOREACH_CONST: case O_CLEAR: return "C04";
    }
    return "C03";
}

static const char *ctx_of(int t)
{
    if (mt[t].since_clear >= 0 && mt[t].since_clear <= 6) return "after-clear";
    if (!mt[t].inited) return "uninit";
    if (!mt[t].settled) {
        if (mt[t].hist[1].n && mt[t].req.n > mt[t].hist[1].n) return "grow-pending";
        if (mt[t].hist[1].n && mt[t].req.n < mt[t].hist[1].n) return "shrink-pending";
        return "rehash-pending";
    }
    return "settled";
}

/* in the allocation-failure enumeration every misbehaviour after the first injected failure is a C16 violation
 * ("still holds exactly what it held before, remains fully usable"), whichever oracle notices it */
#define VIOLP(prop, oracle, ...) do { char _k[128]; \
        snprintf(_k, sizeof _k, "%s/%s/%s/%s", (mode_g == 16 && g_hs.fired) ? "C16" : prop, oracle, x_opname(g_run.opkind), g_cur_ctx); \
        sim_violation(_k, __VA_ARGS__); } while (0)
#define VIOL(oracle, ...) VIOLP(g_cur_prop, oracle, __VA_ARGS__)

static void check_m0(int t)
{
    if (m0_seen) {
        m0_seen = 0;
        VIOLP(prop_of(t, g_run.opkind), "hash_m0", "the library consulted the hash function with table size 0");
    }
}

/* ------------------------------------------------------ checkpoint / restore */

#define MAXBLK 8
struct snap {
    struct cstl_hash tb[NTAB];
    unsigned nblk; void *bptr[MAXBLK]; size_t bsz[MAXBLK]; unsigned char *bcopy[MAXBLK]; size_t bcap[MAXBLK];
    int nel; struct xelem *eptr[MAXE + MAXLIMBO + 4]; struct xelem ecopy[MAXE + MAXLIMBO + 4];
};
static struct snap snaps[2];    /* 0: audit checkpoint; 1: bad-hash snapshot */

void *__real_malloc(size_t);
void *__real_realloc(void *, size_t);

static void snapshot_take(int which)
{
    struct snap *s = &snaps[which];
    unsigned i; int t, j;
    memcpy(s->tb, tb, sizeof tb);
    s->nblk = simheap_list(TAG_LIB, s->bptr, s->bsz, MAXBLK);
    if (s->nblk > MAXBLK) sim_harness_bug("hash: more library blocks than tables (%u)", s->nblk);
    for (i = 0; i < s->nblk; i++) {
        if (s->bcap[i] < s->bsz[i]) { s->bcopy[i] = __real_realloc(s->bcopy[i], s->bsz[i]); s->bcap[i] = s->bsz[i]; }
        memcpy(s->bcopy[i], s->bptr[i], s->bsz[i]);
    }
    s->nel = 0;
    for (t = 0; t < ntab; t++) for (j = 0; j < mt[t].nlive; j++) {
        /* an element erased and freed by a visit callback is still listed until the enumeration returns */
        if (!simheap_is_live(mt[t].live[j])) continue;
        s->eptr[s->nel] = mt[t].live[j]; s->ecopy[s->nel++] = *mt[t].live[j];
    }
    for (j = 0; j < nlimbo; j++) { s->eptr[s->nel] = limbo[j]; s->ecopy[s->nel++] = *limbo[j]; }
}

static void snapshot_restore(int which)
{
    struct snap *s = &snaps[which];
    unsigned i; int j;
    memcpy(tb, s->tb, sizeof tb);
    for (i = 0; i < s->nblk; i++) memcpy(s->bptr[i], s->bcopy[i], s->bsz[i]);
    for (j = 0; j < s->nel; j++) *s->eptr[j] = s->ecopy[j];
}

static int snapshot_differs(int which)
{
    struct snap *s = &snaps[which];
    unsigned i; int j;
    void *bp[MAXBLK]; size_t bs[MAXBLK];
    unsigned n = simheap_list(TAG_LIB, bp, bs, MAXBLK);
    if (memcmp(tb, s->tb, sizeof tb) != 0) return 1;
    if (n != s->nblk) return 2;
    for (i = 0; i < n; i++) {
        if (bp[i] != s->bptr[i] || bs[i] != s->bsz[i]) return 2;
        if (memcmp(s->bptr[i], s->bcopy[i], s->bsz[i]) != 0) return 3;
    }
    for (j = 0; j < s->nel; j++) if (memcmp(s->eptr[j], &s->ecopy[j], sizeof(struct xelem)) != 0) return 4;
    return 0;
}

/* element handles (see the trees world): what the caller hands to the library may be an address past the node members
 * ("negative" offsets) or 2^31 / 2^32 bytes before the structure */
static size_t g_hnd;
#define HND(e) ((void *)((uintptr_t)(e) + g_hnd))
#define ELM(h) ((struct xelem *)((uintptr_t)(h) - g_hnd))
#define ELMN(h) ((h) ? ELM(h) : NULL)

/* --------------------------------------------------------- find visit logic */

#define MAXOFFER 256
static const struct xelem *offered[MAXOFFER];
static int noffered, accept_at;                 /* accept the accept_at-th offered (1-based); 0 = reject all */
static const struct xelem *accept_exact;        /* audit: accept exactly this element */

/* in some lookups the visit function looks ANOTHER key up in the same table (a lookup is a read; that it cleans buckets
 * of a pending rehash on the side is the library's business and must not disturb the lookup it is nested in) */
static struct cstl_hash *nest_tab; static size_t nest_key; static const struct xelem *nest_expect; static int nest_active, nest_done, nest_bad;

static int foreach_const_plain(const struct cstl_hash *h);
static int find_visit(const void *obj, void *priv)
{
    CB_ENTER();
    int r = 0;
    (void)priv;
    if (nest_tab && !nest_active && !nest_done) {
        const void *got;
        nest_active = 1; nest_done = 1;
        g_inlib = 1; got = cstl_hash_find(nest_tab, nest_key, NULL, NULL); g_inlib = 0;
        nest_active = 0;
        if (ELMN(got) != nest_expect && !(got && nest_expect && XN(ELM(got))->key == nest_key)) nest_bad = 1;
        PROBE("find_nested_in_find_visit");
    }
    obj = ELM(obj);
    if (noffered < MAXOFFER) offered[noffered] = obj;
    noffered++;
    if (accept_exact) r = obj == accept_exact;
    else if (accept_at > 0 && noffered == accept_at) r = 1;
    if (r) {
        /* "a non-zero value": any of them, negative ones included */
        static const int yes[] = { 1, -1, 2, 256, 65536, -65536, INT_MIN, INT_MAX };
        r = yes[(tabseed + (uint64_t)noffered) % 8];
    }
    CB_LEAVE();
    return r;
}

static int is_live_in(int t, const struct xelem *e)
{
    int i;
    for (i = 0; i < mt[t].nlive; i++) if (mt[t].live[i] == e) return i;
    return -1;
}

/* checks on what one find offered: live, right key, no repeats */
static void check_offers(int t, size_t key, const char *prop)
{
    int i, j, n = noffered < MAXOFFER ? noffered : MAXOFFER;
    for (i = 0; i < n; i++) {
        if (is_live_in(t, offered[i]) < 0)
            VIOLP(prop, "find_offers_dead", "find offered an element that is not live in table %d", t);
        if (XN(offered[i])->key != key)
            VIOLP(prop, "find_offers_wrong_key", "find offered an element with key %zu for probe %zu", XN(offered[i])->key, key);
        for (j = 0; j < i; j++) if (offered[j] == offered[i])
            VIOLP(prop, "find_offers_twice", "find offered the same element twice in one call");
    }
}

static int count_key(int t, size_t key)
{
    int i, n = 0;
    for (i = 0; i < mt[t].nlive; i++) if (XN(mt[t].live[i])->key == key) n++;
    return n;
}

/* ------------------------------------------------------- enumeration logging */

static const struct xelem *seen[MAXE + 8];
static int nseen, stop_at, stop_val;
static unsigned erase_pm; static uint64_t erase_seed;
static struct cstl_hash *enum_tab; static int enum_t;
static unsigned char seen_erased[MAXE + 8];

static int enum_visit(void *obj, void *priv)
{
    CB_ENTER();
    int r = 0;
    struct xelem *e = ELM(obj);
    (void)priv;
    if (nseen < MAXE + 8) { seen[nseen] = e; seen_erased[nseen] = 0; }
    if (erase_pm && enum_tab && simheap_is_live(e) && e->magic == EMAGIC) {
        uint64_t x = erase_seed + (uint64_t)nseen;
        if (splitmix64(&x) % 1000 < erase_pm) {
            /* documented: the visit function may remove the current object; then it is ours: free it */
            g_inlib = 1;
            cstl_hash_erase(enum_tab, HND(e));
            g_inlib = 0;
            if (nseen < MAXE + 8) seen_erased[nseen] = 1;
            memset(e, 0xDD, sizeof *e);
            simheap_free(e);
        }
    }
    nseen++;
    if (stop_at > 0 && nseen == stop_at) r = stop_val;
    CB_LEAVE();
    return r;
}

static int enum_visit_const(const void *obj, void *priv)
{
    CB_ENTER();
    int r = 0;
    (void)priv;
    if (nseen < MAXE + 8) { seen[nseen] = ELM(obj); seen_erased[nseen] = 0; }
    nseen++;
    if (stop_at > 0 && nseen == stop_at) r = stop_val;
    CB_LEAVE();
    return r;
}

static int clr_live[MAXE + 8];  /* index into pre[] or -1 */
static struct xelem *pre[MAXE];
static int npre, nclr, clear_frees;

static void clear_cb(void *obj, void *priv)
{
    CB_ENTER();
    struct xelem *e = ELM(obj);
    int i, idx = -1;
    (void)priv;
    for (i = 0; i < npre; i++) if (pre[i] == e) { idx = i; break; }
    if (idx >= 0 && !(simheap_is_live(e) && e->magic == EMAGIC)) idx = -2;       /* handed over twice (already freed) */
    if (nclr < MAXE + 8) clr_live[nclr] = idx;
    nclr++;
    if (idx >= 0 && clear_frees) { memset(e, 0xDD, sizeof *e); simheap_free(e); }
    CB_LEAVE();
}

/* exactly-once check of seen[0..n) against the live set of table t (prefix when stopped) */
static void check_enum(int t, int expect_all, const char *what)
{
    static unsigned char mark[MAXE];
    int i, idx;
    struct mtab *m = &mt[t];
    memset(mark, 0, (size_t)m->nlive + 1);
    for (i = 0; i < nseen && i < MAXE + 8; i++) {
        idx = is_live_in(t, seen[i]);
        if (idx < 0) VIOLP("C04", "enum_foreign", "%s visited something that is not a live element of table %d", what, t);
        if (mark[idx]) VIOLP("C04", "enum_twice", "%s visited the same element twice (visit %d)", what, i);
        mark[idx] = 1;
    }
    if (expect_all && nseen != m->nlive)
        VIOLP("C04", "enum_missed", "%s visited %d of %d live elements", what, nseen, m->nlive);
}

/* ------------------------------------------------------------------- audits */

/* black-box "is a rehash pending?": consultations of one lookup, under checkpoint/restore */
static unsigned probe_calls(int t, struct hcall *first)
{
    unsigned saved = ncalls, c;
    static void *r;
    snapshot_take(0);
    ncalls = 0;
    accept_exact = NULL; accept_at = 0; noffered = 0;
    TRY(r = cstl_hash_find(&tb[t], 0, NULL, NULL));
    (void)r;
    c = ncalls;
    if (first && c > 0) *first = calls[0];
    snapshot_restore(0);
    ncalls = saved;
    if (g_aborted) VIOLP("C19", "abort", "a lookup aborted");
    check_m0(t);
    return c;
}

static void audit_table(int t, int full)
{
    struct mtab *m = &mt[t];
    int i;
    unsigned saved = ncalls;
    uint64_t sh = 0x4a5;
    static void *r;
    /* in the C19 batch an element that the incremental rehash loses is that property's business too: a rehash that
     * reports completion with nodes left behind has not finished */
    const char *P = mode_g == 19 ? "C19" : prop_of(t, O_FIND);

    if (!m->inited) {
        if (cstl_hash_size(&tb[t]) != 0) VIOLP(prop_of(t, g_run.opkind), "size", "uninitialised/cleared table %d reports size %zu", t, cstl_hash_size(&tb[t]));
        return;
    }
    if (cstl_hash_size(&tb[t]) != (size_t)m->nlive)
        VIOLP(P, "size", "table %d reports size %zu, reference has %d", t, cstl_hash_size(&tb[t]), m->nlive);

    /* foreach_const is non-perturbing: exactly-once enumeration (C04) */
    nseen = 0; stop_at = 0; erase_pm = 0; enum_tab = NULL;
    TRY((void)cstl_hash_foreach_const(&tb[t], enum_visit_const, NULL));
    if (g_aborted) VIOLP("C04", "abort", "foreach_const aborted");
    check_m0(t);
    check_enum(t, 1, "foreach_const");

    if (full) {
        snapshot_take(0);
        for (i = 0; i < m->nlive; i++) {
            struct xelem *e = m->live[i];
            accept_exact = e; accept_at = 0; noffered = 0;
            TRY(r = cstl_hash_find(&tb[t], XN(e)->key, find_visit, NULL)); r = ELMN(r);
            if (g_aborted) { accept_exact = NULL; VIOLP(P, "abort", "a lookup aborted"); }
            if (r != e) { accept_exact = NULL; snapshot_restore(0); VIOLP(P, "lost_element", "live element %d (key %zu) of table %d is not found by its key", e->id, XN(e)->key, t); }
            accept_exact = NULL;
            check_offers(t, XN(e)->key, P);
        }
        /* a few keys nobody holds */
        for (i = 0; i < 3; i++) {
            size_t k = spread ? (size_t)prng_next(&aprng) : (size_t)(keys + (int)prng_below(&aprng, 5));
            if (count_key(t, k)) continue;
            noffered = 0; accept_at = 0;
            TRY(r = cstl_hash_find(&tb[t], k, NULL, NULL));
            if (g_aborted) VIOLP(P, "abort", "a lookup aborted");
            if (r != NULL) { snapshot_restore(0); VIOLP(P, "found_dead", "find returned an element for key %zu that no live element has", k); }
        }
        snapshot_restore(0);
        check_m0(t);
        PROBE("audit_full");
    }
    ncalls = saved;

    /* abstract state: multiset of keys, requested geometry, pending? */
    for (i = 0; i < m->nlive; i++) sh += fnv1a(0x31, XN(m->live[i])->key);
    sh = fnv1a(sh, m->req.n); sh = fnv1a(sh, (uint64_t)m->req.fn); sh = fnv1a(sh, (uint64_t)m->settled);
    sh = fnv1a(sh, m->keyed < 64 ? m->keyed : 64);
    state_note(sh);
    if ((unsigned)m->nlive > maxreach) maxreach = (unsigned)m->nlive;
    g_run.nontrivial = maxreach >= 2;
}

/* largest number of live keys one bucket receives under geometry g */
static unsigned max_chain(int t, struct geom g)
{
    static unsigned short cnt[4096];
    struct mtab *m = &mt[t];
    unsigned mx = 0; int i;
    if (g.n == 0 || g.fn == F_NULL) return (unsigned)m->nlive;
    if (g.n > 4096) return (unsigned)m->nlive;      /* conservative */
    memset(cnt, 0, sizeof(cnt[0]) * g.n);
    for (i = 0; i < m->nlive; i++) {
        size_t b = pure_hash(g.fn, XN(m->live[i])->key, g.n);
        if (++cnt[b] > mx) mx = cnt[b];
    }
    return mx;
}

/* C19 accounting after a keyed operation that made `c` consultations */
static void c19_after_keyed(int t, unsigned c, int was_settled)
{
    struct mtab *m = &mt[t];
    struct hcall first;
    unsigned pc, bound, l = 0; int i;
    if (m->builtin) return;
#ifdef SIM_WORK
    /* amortised work while a rehash is pending: the operations since the resize may together have executed what their
     * own chains cost plus one pass over the buckets in force (the sweep skips each already-clean bucket once) */
    if (!was_settled) {
        unsigned lw = 0;
        for (i = 0; i < 3; i++) if (m->hist[i].n) { unsigned x = max_chain(t, m->hist[i]); if (x > lw) lw = x; }
        if (lw > m->work_l) m->work_l = lw;
        m->work_sum += wk; m->work_ops++;
        {
            /* ... and no single operation does work proportional to the whole table: its own chains, the contents of at most three
             * buckets, and the already-clean buckets the sweep may step over - at most three for every keyed operation so far */
            uint64_t one = 2 * (WORK_C0 + WORK_C1 * (uint64_t)(lw + 1)) + WORK_C2 * (3 * m->work_ops + 3);
            if (getenv("SIM_WORK_DEBUG")) { char nm[64]; unsigned pct = (unsigned)(wk * 100 / one); snprintf(nm, sizeof nm, "work_one_op_pct_%s", pct < 25 ? "lt25" : pct < 50 ? "lt50" : pct < 70 ? "lt70" : pct < 85 ? "lt85" : pct <= 100 ? "le100" : "gt100"); probe_dyn(nm); }
            if (wk > one)
                VIOLP("C19", "per_op_blocks", "one keyed operation (number %llu since the resize) executed %llu basic blocks of library code; chains of at most %u elements and %llu buckets that can already be clean account for %llu",
                      (unsigned long long)m->work_ops, (unsigned long long)wk, lw, (unsigned long long)(3 * m->work_ops + 3), (unsigned long long)one);
        }
        {
            uint64_t allow = m->work_ops * (WORK_C0 + WORK_C1 * (uint64_t)(m->work_l + 1)) + WORK_C2 * m->work_n;
            if (getenv("SIM_WORK_DEBUG") && m->work_n >= 64) {
                char nm[64]; uint64_t own = m->work_ops * (WORK_C0 + WORK_C1 * (uint64_t)(m->work_l + 1));
                uint64_t per = m->work_sum > own ? (m->work_sum - own) / m->work_n : 0;
                snprintf(nm, sizeof nm, "work_skip_per_bucket_%s", per < 2 ? "lt2" : per < 5 ? "lt5" : per < 10 ? "lt10" : per < 30 ? "lt30" : per < 100 ? "lt100" : "ge100"); probe_dyn(nm);
                per = wk / (m->work_l + 1);
                snprintf(nm, sizeof nm, "work_op_per_chain_%s", per < 20 ? "lt20" : per < 40 ? "lt40" : per < 80 ? "lt80" : per < 160 ? "lt160" : per < 400 ? "lt400" : "ge400"); probe_dyn(nm);
            }
            if (m->work_sum > allow)
                VIOLP("C19", "amortised_work", "%llu keyed operations since the resize executed %llu basic blocks of library code; chains of at most %u elements and one pass over %llu buckets account for %llu",
                      (unsigned long long)m->work_ops, (unsigned long long)m->work_sum, m->work_l, (unsigned long long)m->work_n, (unsigned long long)allow);
        }
        PROBE("c19_work_metered");
    }
#endif
    m->keyed++;
    /* no single operation does whole-table work */
    for (i = 0; i < 3; i++) if (m->hist[i].n) { unsigned x = max_chain(t, m->hist[i]); if (x > l) l = x; }
    bound = 8 + 6 * (l + 1);
    if (c > bound)
        VIOLP("C19", "per_op_work", "one keyed operation consulted the hash function %u times (bound %u for chains <= %u)", c, bound, l);
    if (was_settled) {
        if (c != 1 || calls[0].m != m->req.n || calls[0].fn != m->req.fn)
            VIOLP("C19", "settled_consults_once", "settled table: operation made %u consultations (first: %s, m=%llu), expected exactly one with %s, m=%llu",
                  c, c ? fn_name[calls[0].fn] : "-", c ? (unsigned long long)calls[0].m : 0ull, fn_name[m->req.fn], (unsigned long long)m->req.n);
        return;
    }
    pc = probe_calls(t, &first);
    if (pc == 0) VIOLP("C19", "lookup_without_hash", "a lookup did not consult the hash function");
    if (pc == 1) {
        if (first.m != m->req.n || first.fn != m->req.fn)
            VIOLP("C19", "lands_where_requested", "finished rehash: lookups use %s with m=%llu, requested %s with m=%llu",
                  fn_name[first.fn], (unsigned long long)first.m, fn_name[m->req.fn], (unsigned long long)m->req.n);
        m->settled = 1;
        m->hist[1].n = 0; m->hist[2].n = 0;
        PROBE("c19_rehash_completed_by_keyed_ops");
    } else if (m->keyed >= m->budget) {
        /* every keyed operation advances the sweep by at least one bucket, so after as many operations as there
         * were buckets the rehash has finished */
        VIOLP("C19", "completion_bound", "rehash still pending after %llu keyed operations (budget %llu = buckets in force at the resize)",
              (unsigned long long)m->keyed, (unsigned long long)m->budget);
    }
}

/* refresh `settled` without accounting (after non-keyed ops) */
static void c19_refresh(int t)
{
    struct mtab *m = &mt[t];
    struct hcall first;
    unsigned pc;
    if (m->builtin || !m->inited) return;
    pc = probe_calls(t, &first);
    if (pc == 0) VIOLP("C19", "lookup_without_hash", "a lookup did not consult the hash function");
    if (pc == 1) {
        if (first.m != m->req.n || first.fn != m->req.fn)
            VIOLP("C19", "lands_where_requested", "finished rehash: lookups use %s with m=%llu, requested %s with m=%llu",
                  fn_name[first.fn], (unsigned long long)first.m, fn_name[m->req.fn], (unsigned long long)m->req.n);
        m->settled = 1; m->hist[1].n = 0; m->hist[2].n = 0;
    } else {
        m->settled = 0;
    }
}

static int float_close(float a, float b)
{
    float d = fabsf(a - b), s = fabsf(a) > fabsf(b) ? fabsf(a) : fabsf(b);
    if (a == b) return 1;
    return d <= 4 * FLT_EPSILON * s;
}

/* --------------------------------------------------------------------- exec */

static void tick(int t) { if (mt[t].since_clear >= 0 && mt[t].since_clear < 100) mt[t].since_clear++; }

static struct xelem *new_elem(void)
{
    struct xelem *e = simheap_alloc(sizeof *e, TAG_ELEM);
    e->magic = EMAGIC; e->tail = ~EMAGIC; e->id = next_id++; e->table = -1;
    e->nk = 0; e->hn.key = 0xdeadbeef; e->hn.next = (void *)(uintptr_t)0x5151515151515151ull; e->hn2 = e->hn;
    return e;
}

static void limbo_add(struct xelem *e)
{
    if (nlimbo == MAXLIMBO) { simheap_free(limbo[0]); memmove(limbo, limbo + 1, sizeof(limbo[0]) * (MAXLIMBO - 1)); nlimbo--; }
    limbo[nlimbo++] = e;
}

/* after a TRY in which a bad hash value may have been returned */
static int c17_after(int t, const char *what)
{
    unsigned at = bad_at;
    (void)t;
    bad_at = 0;                 /* audits and probes that follow must see honest hash values */
    if (!bad_returned) { if (at) PROBE("c17_fault_not_reached"); return 0; }
    PROBE("c17_bad_value_consumed");
    if (at == 1) PROBE("c17_bad_at_call_1"); else if (at == 2) PROBE("c17_bad_at_call_2"); else PROBE("c17_bad_at_call_3plus");
    if (g_aborted != 1)
        VIOLP("C17", "no_abort", "%s: the hash function returned an out-of-range value on call %u and the operation did not abort", what, at);
    {
        int d = snapshot_differs(1);
        if (d) VIOLP("C17", "write_after_bad_hash", "%s: memory (%s) was modified between the out-of-range hash result and the abort", what,
                     d == 1 ? "table object" : d == 2 ? "block set" : d == 3 ? "bucket array" : "element");
    }
    simheap_audit("C17", "bad-hash");
    g_run.ended_by_abort = 1;
    return 1;
}

static void x_once(const plan_t *p)
{
    struct simheap_cfg hc = { (int)(p->cfg[CF_RPOLICY] % 3), 0, (unsigned char)p->cfg[CF_JUNK] };
    int k, t, i;

    simheap_reset(&hc, p->cfg[CF_JUNK]);
    simheap_far((int)p->cfg[CF_FAR]);
    simheap_far_nodeoff((p->cfg[CF_SPREAD] >> 4 & 1) ? offsetof(struct xelem, hn2) : offsetof(struct xelem, hn));      /* (mode 3: the node member of table 0) */
    faultenum_apply();
    mode_g = p->mode;
    ntab = (int)p->cfg[CF_NT]; if (ntab < 1) ntab = 1; if (ntab > NTAB) ntab = NTAB;
    keys = (int)p->cfg[CF_KEYS]; if (keys < 1) keys = 1;
    maxe = (int)p->cfg[CF_MAXE]; if (maxe < 1) maxe = 4; if (maxe > MAXE - 4) maxe = MAXE - 4;
    spread = (int)(p->cfg[CF_SPREAD] & 1);
    audit_pm = (unsigned)p->cfg[CF_AUDIT_PM]; if (audit_pm == 0) audit_pm = 1000;
    tabseed = p->cfg[CF_TABSEED];
    prng_seed(&aprng, p->cfg[CF_TABSEED] ^ 0xa0d17);
    next_id = 0; nlimbo = 0; maxreach = 0; ncalls = 0; bad_at = 0; bad_returned = 0; m0_seen = 0;
    memset(tb, (int)(unsigned char)p->cfg[CF_JUNK], sizeof tb);      /* init on junk memory, as on a stack */
    switch (p->cfg[CF_SPREAD] >> 8 & 7) {
    default: g_hnd = 0; break;
    case 1: case 2: g_hnd = sizeof(struct xelem); PROBE("handles_past_the_node_members"); break;
    case 3: g_hnd = (size_t)0 - (((size_t)1 << 31) + 24); PROBE("handles_2^31_before_the_node_members"); break;
    case 4: g_hnd = (size_t)0 - (((size_t)1 << 32) + 24); PROBE("handles_2^32_before_the_node_members"); break;
    }
    for (t = 0; t < NTAB; t++) {
        memset(&mt[t], 0, sizeof mt[t]);
        mt[t].since_clear = -1;
        mt[t].kind = (int)(p->cfg[CF_SPREAD] >> (4 + t) & 1);
        if (p->cfg[CF_DECL] && g_hnd == 0) {
            if (mt[t].kind) { DECLARE_CSTL_HASH(d, struct xelem, hn2); tb[t] = d; }
            else tb[t] = (struct cstl_hash)CSTL_HASH_INITIALIZER(struct xelem, hn);
            PROBE("from_initializer_macro");
        } else
        cstl_hash_init(&tb[t], (mt[t].kind ? offsetof(struct xelem, hn2) : offsetof(struct xelem, hn)) - g_hnd);
    }

    for (k = 0; k < p->nops; k++) {
        const op_t *o = &p->ops[k];
        struct mtab *m;
        static void *ret; static int ri; static float ld;
        static unsigned c;
        int kind = o->kind;
        int was_settled;

        t = (int)(o->a[0] % (uint64_t)ntab);
        m = &mt[t];
        /* a table is not used between init/clear and a successful resize */
        /* a table is not used for keyed operations between init/clear and a successful resize (it has no buckets);
         * enumerating or clearing it is fine - there is nothing in it */
        if (!m->inited && (kind == O_FOREACH || kind == O_FOREACH_CONST || kind == O_CLEAR) && mode_g != 17) { PROBE("enumerate_before_first_resize"); if (m->since_clear < 0) PROBE("enumerate_fresh_from_init"); }
        else
        if (!m->inited && kind != O_RESIZE && kind != O_SWAP && kind != O_RANGE && kind != O_SCAN) kind = O_RESIZE;
        g_run.step = k; g_run.opkind = kind; g_run.steps++;
        g_cur_prop = prop_of(t, kind); g_cur_ctx = ctx_of(t);
        was_settled = m->settled;
        ncalls = 0; bad_returned = 0; m0_seen = 0;
        bad_at = 0; bad_kind = (int)(o->a[6] % 7);
        if (p->mode == 17 && kind != O_SWAP && kind != O_CLEAR && kind != O_RANGE && m->inited && !m->builtin) bad_at = (unsigned)o->a[5];
        if (bad_at) g_cur_prop = "C17";
        if (p->mode != 16) simheap_fail_in_op((unsigned)o->a[4]);

        switch (kind) {
        case O_RESIZE: {
            uint64_t n = o->a[1];
            int fn = (int)(o->a[2] % NFN);
            int satisfied, changes;
            struct geom old = m->req;
            /* resolve symbolic sizes against the model */
            switch (o->a[3] % 8) {
            case 0: break;
            case 1: n = m->req.n ? m->req.n : n; break;                 /* same */
            case 2: n = m->hist[1].n ? m->hist[1].n : n; break;         /* back to the previous */
            case 3: n = m->req.n + 1; break;
            case 4: n = m->req.n * 2 ? m->req.n * 2 : n; break;
            case 5: n = m->req.n > 1 ? m->req.n / 2 : n; break;
            case 6: n = m->req.n > 1 ? m->req.n - 1 : n; break;
            case 7: break;
            }
            if (n > 600 && n < ((uint64_t)1 << 36)) n = 1 + n % 600;
            /* >= 2^36 buckets: honest ENOMEM, far over the budget; the largest values make the byte count of the
             * bucket array unrepresentable -- such a request cannot be satisfied either and must change nothing */
            if (n >= ((uint64_t)1 << 36)) {
                static const uint64_t big[] = { (uint64_t)1 << 36, ((uint64_t)1 << 28) + 1, ((uint64_t)1 << 32) + 1, (uint64_t)1 << 60, ((uint64_t)1 << 60) + 1, UINT64_MAX / 16, UINT64_MAX / 16 + 1,
                                                (uint64_t)1 << 63, UINT64_MAX, UINT64_MAX - 1 };
                n = big[(n >> 36) % (sizeof big / sizeof big[0])];
                if (n > ((uint64_t)1 << 36)) { PROBE("resize_bucket_bytes_unrepresentable"); g_cur_ctx = "count-near-max"; }
                else if (n < ((uint64_t)1 << 36)) g_cur_ctx = "count-2^32";
            }
            if ((p->mode == 19 || p->mode == 17) && !m->inited && fn == F_NULL && !o->a[7]) fn = F_DIV + (int)(o->a[1] % 5);
            if (!m->settled && m->inited) PROBE("resize_while_pending");
            TRY(cstl_hash_resize(&tb[t], (size_t)n, fn_ptr[fn]));
            if (c17_after(t, "resize")) return;
            if (g_aborted) VIOL(g_aborted == 2 ? "assert" : "abort", "resize aborted");
            check_m0(t);
            satisfied = n >= 1 && !(g_hs.fired_in_op || g_hs.enomem_in_op) && n < ((uint64_t)1 << 28);
            if (g_hs.fired_in_op) PROBE("resize_alloc_fail_fired");
            if (g_hs.enomem_in_op) PROBE("resize_enomem");
            if (satisfied) {
                struct geom ng; ng.n = n; ng.fn = fn == F_NULL ? (m->inited ? m->req.fn : F_NULL) : fn;
                changes = !m->inited || ng.n != m->req.n || ng.fn != m->req.fn;
                if (!m->inited) {
                    m->builtin = ng.fn == F_NULL;
                    m->inited = 1; m->settled = 1; m->req = ng;
                    m->hist[0] = ng; m->hist[1].n = 0; m->hist[2].n = 0;
                    m->budget = 0; m->keyed = 0;
                    if (m->since_clear >= 0) PROBE("reuse_after_clear");
                } else {
                    uint64_t inforce = m->hist[1].n > m->req.n ? m->hist[1].n : m->req.n;
                    uint64_t outstanding = (!m->settled && m->budget > m->keyed) ? m->budget - m->keyed : 0;
                    if (m->hist[2].n > inforce) inforce = m->hist[2].n;
                    if (changes) {
                        if (ng.n > m->req.n) PROBE("resize_grow"); else if (ng.n < m->req.n) PROBE("resize_shrink"); else PROBE("resize_same_size_new_fn");
                        if (ng.n == m->hist[1].n && !m->settled) PROBE("resize_back_while_pending");
                        m->hist[2] = m->hist[1]; m->hist[1] = m->req; m->hist[0] = ng;
                        m->req = ng;
                        m->settled = 0;
                    }
                    /* the count of keyed operations restarts at every resize call */
                    m->budget = inforce > outstanding ? inforce : outstanding;
                    m->keyed = 0;
                    m->work_sum = 0; m->work_ops = 0; m->work_l = 0; m->work_n = m->budget;
                }
                if (m->builtin && ng.fn != F_NULL) {
                    /* leaving the library's built-in function: its consultations cannot be counted, so "pending"
                     * is not observable until this rehash is done. Finish it now (part of the plan's semantics). */
                    if (p->mode == 17 && o->a[5] && m->nlive > 0) {
                        /* C17: the caller's function misbehaves while the table still runs on the built-in one and the
                         * rehash into the caller's function is being worked off */
                        ncalls = 0; bad_returned = 0; bad_at = (unsigned)o->a[5]; bad_kind = (int)(o->a[6] % 7);
                        g_cur_prop = "C17"; g_cur_ctx = "leaving-built-in";
                        PROBE("c17_fault_while_leaving_builtin");
                    }
                    TRY(cstl_hash_rehash(&tb[t]));
                    if (p->mode == 17 && c17_after(t, "rehash")) return;
                    if (g_aborted) VIOL("abort", "rehash aborted");
                    m->builtin = 0; m->settled = 1; m->hist[1].n = 0; m->hist[2].n = 0;
                    PROBE("left_builtin_function");
                }
                /* C19: load lands where requested, immediately */
                TRY(ld = cstl_hash_load(&tb[t]));
                if (!float_close(ld, (float)m->nlive / (float)m->req.n) && !float_close(ld, (float)((double)m->nlive / (double)m->req.n)))
                    VIOLP("C19", "load_after_resize", "after resize to %llu buckets with %d elements load() is %.9g, expected %.9g",
                          (unsigned long long)m->req.n, m->nlive, (double)ld, (double)m->nlive / (double)m->req.n);
            } else {
                PROBE("resize_unsatisfied");
                if (m->inited) {
                    TRY(ld = cstl_hash_load(&tb[t]));
                    if (!float_close(ld, (float)m->nlive / (float)old.n) && !float_close(ld, (float)((double)m->nlive / (double)old.n)))
                        VIOLP(p->mode == 16 ? "C16" : "C03", "unsatisfied_resize_changed_geometry", "a resize that could not be satisfied changed the load from %.9g to %.9g",
                              (double)m->nlive / (double)old.n, (double)ld);
                }
            }
            EVT("resize", t, n, fn * 2 + satisfied);
            if (m->inited) c19_refresh(t);
            break;
        }
        case O_INSERT: {
            struct xelem *e;
            size_t key = spread ? (size_t)(o->a[1] * 0x9e3779b97f4a7c15ull >> 16) : (size_t)(o->a[1] % (uint64_t)keys);
            if (m->nlive >= maxe) goto do_erase;
            if (nlimbo > 0 && (o->a[2] & 6) == 2) {
                /* an element that was erased earlier goes back in: the same object, the same address */
                e = limbo[--nlimbo];
                e->hn.key = 0xdeadbeef; e->hn.next = (void *)(uintptr_t)0x5151515151515151ull; e->hn2 = e->hn;
                PROBE("recycled_element_inserted");
            } else
            e = new_elem();
            e->nk = m->kind;
            TRY(cstl_hash_insert(&tb[t], key, HND(e)));
            c = ncalls; wk = g_work - g_work_at_try;
            if (c17_after(t, "insert")) return;
            if (g_aborted) VIOL(g_aborted == 2 ? "assert" : "abort", "insert aborted");
            check_m0(t);
            if (XN(e)->key != key) VIOL("insert_key", "insert did not record the key in the node");
            e->table = t; m->live[m->nlive++] = e;
            if (!was_settled) PROBE("insert_mid_rehash");
            EVT("insert", t, e->id, key);
            c19_after_keyed(t, c, was_settled);
            break;
        }
        case O_FIND: {
            size_t key = spread ? (size_t)(o->a[1] * 0x9e3779b97f4a7c15ull >> 16) : (size_t)(o->a[1] % (uint64_t)keys);
            int vmode = (int)(o->a[2] % 3), nk, idx;
            if ((o->a[3] & 1) && m->nlive > 0) key = XN(m->live[(o->a[3] >> 1) % (uint64_t)m->nlive])->key;
            nk = count_key(t, key);
            noffered = 0; accept_exact = NULL;
            accept_at = vmode == 1 ? 1 + (int)((o->a[3] >> 20) % 4) : 0;
            nest_tab = NULL; nest_done = 0; nest_bad = 0;
            if (vmode != 0 && (o->a[3] >> 9 & 3) == 1 && m->nlive > 0 && p->mode != 17) {
                /* nest a lookup of some held key (or of a key nobody holds) */
                int pick = (int)((o->a[3] >> 12) % (uint64_t)(m->nlive + 1));
                nest_tab = &tb[t];
                if (pick < m->nlive) { nest_key = XN(m->live[pick])->key; nest_expect = m->live[pick]; }
                else { nest_key = (size_t)keys + 77; nest_expect = count_key(t, nest_key) ? m->live[0] : NULL; if (nest_expect) nest_tab = NULL; }
            }
            TRY(ret = cstl_hash_find(&tb[t], key, vmode == 0 ? NULL : find_visit, NULL)); ret = ELMN(ret);
            if (nest_tab && nest_bad) { nest_tab = NULL; VIOL("nested_find", "a lookup of key %zu made from inside the visit function of another lookup on the same table returned the wrong answer", nest_key); }
            nest_tab = NULL;
            c = ncalls; wk = g_work - g_work_at_try;
            if (c17_after(t, "find")) return;
            if (g_aborted) VIOL(g_aborted == 2 ? "assert" : "abort", "find aborted");
            check_m0(t);
            if (!was_settled) PROBE("find_mid_rehash");
            if (vmode == 0) {
                if (nk == 0) { if (ret != NULL) VIOL("found_dead", "find returned an element for key %zu that no live element has", key); }
                else {
                    idx = is_live_in(t, ret);
                    if (ret == NULL) VIOL("lost_element", "find returned NULL for key %zu held by %d live elements", key, nk);
                    if (idx < 0) VIOL("find_foreign", "find returned a pointer that is not a live element");
                    if (XN((struct xelem *)ret)->key != key) VIOL("find_wrong_key", "find returned an element with another key");
                }
            } else {
                check_offers(t, key, g_cur_prop);
                if (vmode == 1 && accept_at <= nk) {
                    if (noffered != accept_at) VIOL("find_offer_count", "find offered %d elements before the accepted one, expected %d", noffered, accept_at);
                    if (ret != offered[accept_at - 1]) VIOL("find_result", "find did not return the element the visit function accepted");
                    PROBE("find_accept_jth");
                } else {
                    if (noffered != nk) VIOL("find_offer_all", "find offered %d of the %d live elements with key %zu although none was accepted", noffered, nk, key);
                    if (ret != NULL) VIOL("find_result", "find returned an element although the visit function accepted none");
                    if (nk >= 2) PROBE("find_reject_all_dupes");
                }
            }
            EVT("find", t, key, noffered);
            if (nest_done) { if (!m->builtin) m->keyed += 2; c19_refresh(t); }      /* two lookups in one: the per-operation consultation counts do not apply */
            else c19_after_keyed(t, c, was_settled);
            break;
        }
        case O_ERASE: do_erase: {
            struct xelem *e; int idx;
            if (m->nlive == 0) { EVT("skip", 0, 0, 0); break; }
            idx = (int)(o->a[3] % (uint64_t)m->nlive);
            e = m->live[idx];
            TRY(cstl_hash_erase(&tb[t], HND(e)));
            c = ncalls; wk = g_work - g_work_at_try;
            if (c17_after(t, "erase")) return;
            if (g_aborted) VIOL(g_aborted == 2 ? "assert" : "abort", "erase aborted");
            check_m0(t);
            m->live[idx] = m->live[--m->nlive];
            e->table = -1;
            if (!was_settled) PROBE("erase_mid_rehash");
            if (o->a[2] & 1) limbo_add(e); else { memset(e, 0xDD, sizeof *e); simheap_free(e); }
            EVT("erase", t, idx, 0);
            c19_after_keyed(t, c, was_settled);
            break;
        }
        case O_ERASE_NONMEMBER: {
            struct xelem *e;
            if (nlimbo > 0 && (o->a[2] & 1)) { e = limbo[o->a[3] % (uint64_t)nlimbo]; PROBE("erase_previously_erased"); }
            else {
                e = new_elem();
                XN(e)->key = spread ? (size_t)(o->a[1] * 0x9e3779b97f4a7c15ull >> 16) : (size_t)(o->a[1] % (uint64_t)keys);
                XN(e)->next = NULL;
                limbo_add(e);
                PROBE("erase_never_inserted");
            }
            TRY(cstl_hash_erase(&tb[t], HND(e)));
            c = ncalls; wk = g_work - g_work_at_try;
            if (c17_after(t, "erase")) return;
            if (g_aborted) VIOL(g_aborted == 2 ? "assert" : "abort", "erase of a non-member aborted");
            check_m0(t);
            EVT("erase_nonmember", t, e->id, 0);
            c19_after_keyed(t, c, was_settled);     /* size and contents are checked by the audit */
            break;
        }
        case O_REHASH:
            TRY(cstl_hash_rehash(&tb[t]));
            if (c17_after(t, "rehash")) return;
            if (g_aborted) VIOL(g_aborted == 2 ? "assert" : "abort", "rehash aborted");
            check_m0(t);
            if (!was_settled) PROBE("forced_rehash_while_pending");
            EVT("rehash", t, 0, 0);
            c19_refresh(t);
            break;
        case O_SHRINK:
            TRY(cstl_hash_shrink_to_fit(&tb[t]));
            if (c17_after(t, "shrink_to_fit")) return;
            if (g_aborted) VIOL(g_aborted == 2 ? "assert" : "abort", "shrink_to_fit aborted");
            check_m0(t);
            if (g_hs.fired_in_op) PROBE("shrink_alloc_fail_fired");
            if (g_hs.allocs_in_op) PROBE("shrink_reallocated");
            EVT("shrink", t, g_hs.allocs_in_op, g_hs.fired_in_op);
            c19_refresh(t);
            break;
        case O_SWAP: {
            int u = 1 - t; static struct mtab tmp;
            if ((o->a[1] & 7) == 5) {
                TRY(cstl_hash_swap(&tb[t], &tb[t]));
                if (g_aborted) VIOL("abort", "swap aborted");
                PROBE("self_swap"); EVT("swap_self", t, 0, 0);
                break;
            }
            if (ntab < 2) { EVT("skip", 0, 0, 0); break; }
            TRY(cstl_hash_swap(&tb[t], &tb[u]));
            if (g_aborted) VIOL("abort", "swap aborted");
            tmp = mt[t]; mt[t] = mt[u]; mt[u] = tmp;
            for (i = 0; i < mt[t].nlive; i++) mt[t].live[i]->table = t;
            for (i = 0; i < mt[u].nlive; i++) mt[u].live[i]->table = u;
            PROBE("swap"); if (mt[t].kind != mt[u].kind) PROBE("swap_different_offsets");
            EVT("swap", t, u, 0);
            g_cur_prop = prop_of(u, kind); g_cur_ctx = ctx_of(u);
            audit_table(u, 1);
            break;
        }
        case O_FOREACH: {
            int expect_n, expect_r = 0, j;
            nseen = 0; enum_tab = &tb[t]; enum_t = t;
            stop_at = (o->a[2] & 1) ? 0 : (int)(o->a[3] % (uint64_t)(m->nlive + 2));
            stop_val = stopvals[(o->a[1] >> 8 ^ o->a[1]) % 12];
            erase_pm = (o->a[2] & 2) ? (unsigned)(o->a[3] >> 12) % 1001 : 0;
            erase_seed = o->a[3];
            if (!was_settled) { PROBE("foreach_mid_rehash"); if (m->req.n > m->hist[1].n) PROBE("foreach_grow_pending"); }
            TRY(ri = cstl_hash_foreach(&tb[t], enum_visit, NULL));
            enum_tab = NULL;
            if (c17_after(t, "foreach")) return;
            if (g_aborted) VIOL(g_aborted == 2 ? "assert" : "abort", "foreach aborted");
            check_m0(t);
            expect_n = m->nlive;
            if (stop_at > 0 && stop_at <= m->nlive) { expect_n = stop_at; expect_r = stop_val; PROBE("foreach_cancel"); }
            if (nseen != expect_n) VIOLP("C04", expect_n == m->nlive ? "enum_missed" : "enum_stop", "foreach made %d visits, expected %d (of %d live)", nseen, expect_n, m->nlive);
            if (ri != expect_r) VIOLP("C04", "enum_result", "foreach returned %d, expected %d", ri, expect_r);
            check_enum(t, 0, "foreach");
            /* the callback erased (and freed) some of the visited elements */
            for (j = 0; j < nseen && j < MAXE + 8; j++) if (seen_erased[j]) {
                int idx = is_live_in(t, seen[j]);
                if (idx >= 0) m->live[idx] = m->live[--m->nlive];
                PROBE("foreach_erase_and_free");
            }
            erase_pm = 0;
            EVT("foreach", t, nseen, ri);
            c19_refresh(t);
            break;
        }
        case O_FOREACH_CONST: {
            int expect_n, expect_r = 0;
            nseen = 0; enum_tab = NULL; erase_pm = 0;
            stop_at = (o->a[2] & 1) ? 0 : (int)(o->a[3] % (uint64_t)(m->nlive + 2));
            stop_val = stopvals[(o->a[1] >> 8 ^ o->a[1]) % 12];
            if (!was_settled) { PROBE("foreach_const_mid_rehash"); if (m->req.n > m->hist[1].n) PROBE("foreach_const_grow_pending"); }
            if (k % 4 == 1 && mode_g != 16 && mode_g != 17) {
                /* what an optimised caller may assume about the call (attributes on its prototype): the visit function's
                 * effects on the caller's own statics must be visible when it returns */
                int seen = foreach_const_plain(&tb[t]);
                if (seen != m->nlive) VIOL("callback_effects_invisible", "foreach_const over %d elements: the caller's own counter, written by the visit function and read right after the call in an optimised function, says %d", m->nlive, seen);
                PROBE("callback_counted_in_plain_function");
            }
            TRY(ri = cstl_hash_foreach_const(&tb[t], enum_visit_const, NULL));
            if (c17_after(t, "foreach_const")) return;
            if (g_aborted) VIOL(g_aborted == 2 ? "assert" : "abort", "foreach_const aborted");
            check_m0(t);
            expect_n = m->nlive;
            if (stop_at > 0 && stop_at <= m->nlive) { expect_n = stop_at; expect_r = stop_val; PROBE("foreach_const_cancel"); }
            check_enum(t, 0, "foreach_const");
            if (nseen != expect_n) VIOLP("C04", expect_n == m->nlive ? "enum_missed" : "enum_stop", "foreach_const made %d visits, expected %d (of %d live)", nseen, expect_n, m->nlive);
            if (ri != expect_r) VIOLP("C04", "enum_result", "foreach_const returned %d, expected %d", ri, expect_r);
            EVT("foreach_const", t, nseen, ri);
            break;
        }
        case O_CLEAR: {
            int had_buckets, nullclr = ((uint64_t)k + o->a[1] % 7) % 5 == 1 && p->mode != 4;       /* "The function may be NULL": the elements stay the caller's */
            unsigned libblocks = simheap_live_count(TAG_LIB);
            int j;
            npre = m->nlive; memcpy(pre, m->live, sizeof(pre[0]) * (size_t)npre);
            nclr = 0; clear_frees = (int)(o->a[2] & 1) || p->mode == 4;
            if (!was_settled) { PROBE("clear_mid_rehash"); if (m->req.n > m->hist[1].n) PROBE("clear_grow_pending"); }
            if (nullclr) { clear_frees = 0; PROBE("clear_without_callback"); TRY(cstl_hash_clear(&tb[t], NULL)); } else
            TRY(cstl_hash_clear(&tb[t], clear_cb));
            if (g_aborted) VIOLP("C04", g_aborted == 2 ? "assert" : "abort", "clear aborted");
            check_m0(t);
            {
                static unsigned char got[MAXE];
                memset(got, 0, (size_t)npre + 1);
                for (j = 0; j < nclr && j < MAXE + 8; j++) {
                    if (clr_live[j] == -1) VIOLP("C04", "clear_foreign", "clear handed over something that is not a live element (call %d)", j);
                    if (clr_live[j] == -2 || got[clr_live[j]]) VIOLP("C04", "clear_twice", "clear handed the same element over twice (call %d)", j);
                    got[clr_live[j]] = 1;
                }
                if (nclr != (nullclr ? 0 : npre)) VIOLP("C04", "clear_missed", "clear handed over %d of %d live elements", nclr, npre);
                if (nullclr) for (j = 0; j < npre; j++) if (pre[j]->magic != EMAGIC || pre[j]->tail != ~EMAGIC) VIOLP("C04", "clear_touched_element", "clear without a callback wrote outside the node of an element it does not own");
            }
            if (!clear_frees) for (j = 0; j < npre; j++) { memset(pre[j], 0xDD, sizeof *pre[j]); simheap_free(pre[j]); }
            had_buckets = m->inited;
            m->nlive = 0; m->inited = 0; m->settled = 0; m->since_clear = 0;
            memset(m->hist, 0, sizeof m->hist); m->req.n = 0; m->req.fn = F_NULL; m->builtin = 0;
            if (simheap_live_count(TAG_LIB) != libblocks - (had_buckets ? 1u : 0u))
                VIOLP(p->mode == 16 ? "C16" : "C04", "clear_bucket_block", "clear left %u library blocks allocated (was %u): the bucket array must be released exactly once",
                      simheap_live_count(TAG_LIB), libblocks);
            if (cstl_hash_size(&tb[t]) != 0) VIOLP("C04", "clear_size", "size is %zu after clear", cstl_hash_size(&tb[t]));
            PROBE("clear");
            EVT("clear", t, nclr, 0);
            break;
        }
        case O_RANGE: {
            /* C17 range clause, sampled: built-in functions stay below m */
            static const uint64_t ks[] = { 0, 1, 2, (1ull << 24) - 1, 1ull << 24, (1ull << 24) + 1, (1ull << 32) - 1, 1ull << 32, (1ull << 32) + 1,
                                           (1ull << 53) - 1, (1ull << 53) + 1, UINT64_MAX, UINT64_MAX - 1 };
            static const uint64_t ms[] = { 1, 2, 3, (1ull << 24) - 1, 1ull << 24, (1ull << 24) + 1, 1ull << 31, (1ull << 32) - 1, (1ull << 32) + 1,
                                           UINT64_MAX, UINT64_MAX - 1, (1ull << 24) + 3, (1ull << 25) + 3 };
            prng_t r; int j;
            static uint64_t fib[94]; static int nfib;
            if (!nfib) { fib[0] = 1; fib[1] = 2; for (nfib = 2; nfib < 92; nfib++) fib[nfib] = fib[nfib - 1] + fib[nfib - 2]; }
            prng_seed(&r, o->a[1] ^ 0x17);
            for (j = 0; j < 64; j++) {
                size_t kk = prng_chance(&r, 1, 2) ? ks[prng_below(&r, sizeof ks / sizeof ks[0])] : prng_next(&r) >> prng_below(&r, 64);
                /* the multiplicative hash uses the golden ratio: Fibonacci numbers (and small multiples, +-1) are the keys whose
                 * product with phi lies closest to an integer, i.e. whose fractional part is closest to 0 or 1 */
                if (j % 3 == 0) kk = (size_t)(fib[prng_below(&r, (uint64_t)nfib)] * (1 + prng_below(&r, 5)) + prng_below(&r, 3) - 1);
                size_t mm = prng_chance(&r, 1, 2) ? ms[prng_below(&r, sizeof ms / sizeof ms[0])] : (prng_next(&r) >> prng_below(&r, 64)) | 1;
                static size_t r1, r2;
                g_cur_prop = "C17"; g_cur_ctx = "range";
                TRY(r1 = cstl_hash_div(kk, mm));
                TRY(r2 = cstl_hash_mul(kk, mm));
                if (r1 >= mm) VIOLP("C17", "div_range", "cstl_hash_div(%zu, %zu) = %zu", kk, mm, r1);
                if (r2 >= mm) VIOLP("C17", "mul_range", "cstl_hash_mul(%zu, %zu) = %zu", kk, mm, r2);
                PROBE("c17_range_samples");
            }
            EVT("range", 0, 0, 0);
            break;
        }
        case O_CHURN: {
            /* the n-th repetition: a transient element is inserted and erased 254 ... 65 536 times in a row (on a table that
             * may be in the middle of a rehash: the first repetitions then also finish it) */
            static const unsigned reps[] = { 254, 255, 256, 65534, 65535, 65536 };
            static struct xelem tr; unsigned n = reps[o->a[2] % 6], q; size_t key = (size_t)(o->a[1] % (uint64_t)(keys + 9));
            if (!m->inited || p->mode == 17 || p->mode == 16) { EVT("skip", 0, 0, 0); break; }
            tr.magic = EMAGIC; tr.tail = ~EMAGIC; tr.id = -7; tr.table = t; tr.nk = m->kind;
            g_cur_ctx = n > 60000 ? "churn-2^16" : "churn-2^8";
            g_inlib = 1;
            for (q = 0; q < n; q++) { cstl_hash_insert(&tb[t], key, HND(&tr)); cstl_hash_erase(&tb[t], HND(&tr)); }
            g_inlib = 0;
            if (cstl_hash_size(&tb[t]) != (size_t)m->nlive) VIOL("churn", "after %u insert/erase cycles of a transient element the table reports size %zu, reference has %d", n, cstl_hash_size(&tb[t]), m->nlive);
            PROBE(n > 60000 ? "churn_2^16" : "churn_2^8");
            EVT("churn", t, n, key);
            /* 2n more keyed operations: once there have been as many as there were buckets, a pending rehash must be finished */
            m->keyed = m->keyed + 2 * (uint64_t)n > m->budget ? m->budget : m->keyed + 2 * (uint64_t)n;
            c19_refresh(t);
            if (m->keyed >= m->budget && !m->builtin && !m->settled) VIOLP("C19", "completion_bound", "rehash still pending after %u more keyed operations (budget %llu = buckets in force at the resize)", 2 * n, (unsigned long long)m->budget);
            break;
        }
        case O_SCAN: {
            /* C17 range clause over a complete slice of the 32-bit keys: 2^24 consecutive keys (slice a[1] of 256; the
             * batch's run index walks the slices, so 256 consecutive runs cover every key below 2^32) against a small
             * and a large table size, plus the same slice shifted to 2^32.. and to the top of the key space */
            static const uint64_t ms[] = { 1000, 1, 2, 3, 7, 64, 65536, (1ull << 20) + 7, (1ull << 24) - 1, (1ull << 24) + 1, (1ull << 25) + 3, 1ull << 31,
                                           (1ull << 32) + 1, 1ull << 40, UINT64_MAX, 12 };
            uint64_t lo = (o->a[1] % 256) << 24, hi = lo + (1ull << 24), kk;
            size_t m1 = (size_t)ms[o->a[2] % 16], m2 = (size_t)ms[(o->a[2] + 7) % 16];
            g_cur_prop = "C17"; g_cur_ctx = "range-scan";
            g_inlib = 1;
            for (kk = lo; kk < hi; kk++) {
                size_t r1 = cstl_hash_mul((size_t)kk, m1), r2 = cstl_hash_mul((size_t)kk, m2);
                if (r1 >= m1 || r2 >= m2) { g_inlib = 0; VIOLP("C17", "mul_range", "cstl_hash_mul(%llu, %zu) = %zu", (unsigned long long)kk, r1 >= m1 ? m1 : m2, r1 >= m1 ? r1 : r2); }
            }
            for (kk = lo; kk < hi; kk += 16) {
                uint64_t k2 = kk + (1ull << 32) * (1 + o->a[3] % 1000), k3 = UINT64_MAX - kk;
                size_t r1 = cstl_hash_mul((size_t)k2, m1), r2 = cstl_hash_mul((size_t)k3, m2), r3 = cstl_hash_div((size_t)kk, m1), r4 = cstl_hash_div((size_t)k3, m2);
                if (r1 >= m1 || r2 >= m2) { g_inlib = 0; VIOLP("C17", "mul_range", "cstl_hash_mul(%llu, %zu) = %zu", (unsigned long long)(r1 >= m1 ? k2 : k3), r1 >= m1 ? m1 : m2, r1 >= m1 ? r1 : r2); }
                if (r3 >= m1 || r4 >= m2) { g_inlib = 0; VIOLP("C17", "div_range", "cstl_hash_div(%llu, %zu) = %zu", (unsigned long long)(r3 >= m1 ? kk : k3), r3 >= m1 ? m1 : m2, r3 >= m1 ? r3 : r4); }
            }
            g_inlib = 0;
            {
                /* adversarial keys for a multiplicative hash, found through the function itself: keep one key whose
                 * fraction (result / m for an enormous m) lies just above 0 and one just below 1; adding them gives a
                 * key that lies closer still to one of the two ends (the slow continued-fraction algorithm, on measured
                 * values). After a few dozen steps the fractions are as extreme as the function's arithmetic can make
                 * them - the keys at which a rounding step can push the result up to m. Every key on the way is tried
                 * against a range of table sizes. */
                static const uint64_t tm[] = { 1, 2, 3, 7, 1000, (1ull << 20) + 7, 1ull << 31, (1ull << 32) + 1, 1ull << 40, 1ull << 53, 1ull << 62, UINT64_MAX };
                const size_t M = (size_t)1 << 62;
                uint64_t ku = 1 + (o->a[3] % 5), kd = ku; int step; unsigned q2;
                long double fu, gd;
                g_inlib = 1;
                fu = (long double)cstl_hash_mul((size_t)ku, M) / (long double)M; gd = 1.0L - fu;
                for (step = 0; step < 160 && fu > 0 && gd > 0; step++) {
                    for (q2 = 0; q2 < sizeof tm / sizeof tm[0]; q2++) {
                        size_t r1 = cstl_hash_mul((size_t)ku, (size_t)tm[q2]), r2 = cstl_hash_mul((size_t)kd, (size_t)tm[q2]);
                        if (r1 >= tm[q2] || r2 >= tm[q2]) { g_inlib = 0; VIOLP("C17", "mul_range", "cstl_hash_mul(%llu, %llu) = %zu (a key whose fraction is extreme, found by descent through the function itself)", (unsigned long long)(r1 >= tm[q2] ? ku : kd), (unsigned long long)tm[q2], r1 >= tm[q2] ? r1 : r2); }
                    }
                    if (fu < gd) { kd += ku; gd = 1.0L - (long double)cstl_hash_mul((size_t)kd, M) / (long double)M; }
                    else { ku += kd; fu = (long double)cstl_hash_mul((size_t)ku, M) / (long double)M; }
                }
                g_inlib = 0;
                PROBE_N("c17_adversarial_descent_steps", (uint64_t)step);
            }
            PROBE_N("c17_range_scan_keys", (uint64_t)1 << 24);
            { char nm[40]; snprintf(nm, sizeof nm, "c17_scan_slices_%u-%u", (unsigned)(o->a[1] % 256) / 32 * 32, (unsigned)(o->a[1] % 256) / 32 * 32 + 31); probe_dyn(nm); }
            EVT("scan", o->a[1] % 256, m1, m2);
            g_run.nontrivial = 1;
            break;
        }
        default: EVT("skip", 0, 0, 0);
        }

        bad_at = 0;
        if (kind != O_CLEAR) tick(t);
        g_cur_prop = prop_of(t, kind); g_cur_ctx = ctx_of(t);
        audit_table(t, prng_below(&aprng, 1000) < audit_pm);
        if ((k & 15) == 15) simheap_audit(g_cur_prop, "hash");
    }

    /* epilogue: clear every table; everything the library allocated must be gone */
    for (t = 0; t < ntab; t++) {
        int j;
        g_run.step = p->nops + t; g_run.opkind = O_CLEAR;
        g_cur_prop = mode_g == 16 ? "C16" : "C04"; g_cur_ctx = "epilogue";
        npre = mt[t].nlive; memcpy(pre, mt[t].live, sizeof(pre[0]) * (size_t)npre);
        nclr = 0; clear_frees = 1;
        TRY(cstl_hash_clear(&tb[t], clear_cb));
        if (g_aborted) VIOL("abort", "clear aborted");
        if (mt[t].inited || npre) {
            for (j = 0; j < nclr && j < MAXE + 8; j++) if (clr_live[j] < 0) VIOLP("C04", "clear_foreign", "clear handed over a non-element or an element twice");
            if (nclr != npre) VIOLP("C04", "clear_missed", "clear handed over %d of %d live elements", nclr, npre);
        }
        mt[t].nlive = 0;
    }
    for (i = 0; i < nlimbo; i++) simheap_free(limbo[i]);
    nlimbo = 0;
    if (simheap_live_count(TAG_LIB) != 0)
        VIOLP(mode_g == 16 ? "C16" : "C04", "leak", "%u library blocks still allocated after every table was cleared", simheap_live_count(TAG_LIB));
    if (simheap_live_count(TAG_ELEM) != 0) sim_harness_bug("hash: element accounting broken (%u live)", simheap_live_count(TAG_ELEM));
    simheap_audit(mode_g == 16 ? "C16" : "C03", "hash-end");
    g_run.nontrivial = maxreach >= 2;
}

/* a table whose buckets hold enormous chains: 100 000 ... 600 000 elements in 1-3 buckets, then a resize to a sensible
 * size and the whole rehash (every node of the long chains is relinked), enumeration, lookups, clear */
static int pl_calls;
static int pl_visit_const(const void *e, void *p) { (void)e; (void)p; pl_calls++; return 0; }
static int foreach_const_plain(const struct cstl_hash *h) { pl_calls = 0; g_inlib = 1; (void)cstl_hash_foreach_const(h, pl_visit_const, NULL); g_inlib = 0; return pl_calls; }
static uint64_t hc_seen; static uint64_t hc_cleared;
static int hc_visit(const void *e, void *p) { (void)e; (void)p; hc_seen++; return 0; }
static void hc_clear(void *e, void *p) { (void)e; (void)p; hc_cleared++; }
static void huge_chains(const plan_t *p)
{
    static const size_t sizes[] = { 100000, 300000, 600000 };
    struct simheap_cfg hc = { RP_MOVE, (uint64_t)1 << 28, (unsigned char)p->cfg[CF_JUNK] };
    static struct cstl_hash ht; static void *ret;
    size_t n = sizes[p->cfg[CF_KEYS] % 3], i, nb = 1 + (size_t)(p->cfg[CF_MAXE] % 3);
    struct xelem *pool = malloc(n * sizeof *pool);
    if (!pool) sim_harness_bug("hash: no memory for huge chains");
    simheap_reset(&hc, p->cfg[CF_JUNK]);
    simheap_far((int)p->cfg[CF_FAR]);
    sim_watchdog(100);
    mode_g = p->mode; g_hnd = 0;
    g_cur_prop = "C03"; g_cur_ctx = "huge-chains"; g_run.step = 0; g_run.opkind = O_RESIZE; g_run.steps++;
    memset(&ht, (int)(unsigned char)p->cfg[CF_JUNK], sizeof ht);
    cstl_hash_init(&ht, offsetof(struct xelem, hn));
    TRY(cstl_hash_resize(&ht, nb, cstl_hash_div));
    g_run.opkind = O_INSERT;
    {
        clock_t t0 = clock();
        for (i = 0; i < n; i++) {
            pool[i].magic = EMAGIC; pool[i].tail = ~EMAGIC; pool[i].id = (int)i; pool[i].nk = 0;
            g_inlib = 1; cstl_hash_insert(&ht, i, &pool[i]); g_inlib = 0;
            /* an implementation that inserts at the END of a chain is correct and makes this loop quadratic: nothing promises
             * constant-time insertion into one bucket. If the build is that slow the chains stay as long as they have become. */
            if ((i & 4095) == 4095 && i >= 16383 && (double)(clock() - t0) / CLOCKS_PER_SEC > 8.0) { n = i + 1; PROBE("huge_chains_cut_short_slow_insert"); break; }
        }
    }
    if (cstl_hash_size(&ht) != n) VIOL("size", "table with huge chains reports size %zu after %zu inserts", cstl_hash_size(&ht), n);
    g_run.opkind = O_RESIZE;
    TRY(cstl_hash_resize(&ht, 64 + (size_t)(p->cfg[CF_TABSEED] % 1000), (p->cfg[CF_TABSEED] >> 12 & 1) ? cstl_hash_mul : cstl_hash_div));
    if (g_aborted) VIOL("abort", "resize of a table with huge chains aborted");
    g_run.opkind = O_FIND;
    TRY(ret = cstl_hash_find(&ht, n / 2, NULL, NULL));         /* the first keyed operation cleans up to three of the enormous buckets */
    if (ret != &pool[n / 2]) VIOL("lost_element", "an element in a chain of %zu is not found by its key after the resize", n / nb);
    g_run.opkind = O_REHASH;
    TRY(cstl_hash_rehash(&ht));
    if (g_aborted) VIOL("abort", "rehash of a table with huge chains aborted");
    g_run.opkind = O_FIND;
    for (i = 0; i < n; i += 1 + n / 20000) {
        TRY(ret = cstl_hash_find(&ht, i, NULL, NULL));
        if (ret != &pool[i]) VIOL("lost_element", "element %zu of %zu is not found by its key after the rehash of enormous chains", i, n);
    }
    g_cur_prop = "C04"; g_run.opkind = O_FOREACH_CONST; hc_seen = 0;
    TRY((void)cstl_hash_foreach_const(&ht, hc_visit, NULL));
    if (hc_seen != n) VIOLP("C04", "enum_missed", "foreach_const visited %llu of %zu elements", (unsigned long long)hc_seen, n);
    g_run.opkind = O_CLEAR; hc_cleared = 0;
    TRY(cstl_hash_clear(&ht, hc_clear));
    if (hc_cleared != n) VIOLP("C04", "clear_missed", "clear handed over %llu of %zu elements", (unsigned long long)hc_cleared, n);
    if (simheap_live_count(TAG_LIB) != 0) VIOLP("C04", "clear_bucket_block", "clear left %u library blocks allocated", simheap_live_count(TAG_LIB));
    free(pool);
    simheap_audit("C03", "huge-chains");
    PROBE("huge_chains"); if (n / nb >= 300000) PROBE("huge_chain_300000");
    EVT("huge_chains", n, nb, 0);
    g_run.nontrivial = 1;
}

/* tables that run on the library's own functions, handed over BY NAME (cstl_hash_div, cstl_hash_mul: an implementation may treat
 * its own functions specially), with keys from the whole of size_t: small ones, keys that differ only above bit 31, keys near
 * SIZE_MAX. Lookups, erases and inserts fall into the middle of every rehash; the oracle is a plain set of keys. */
/* ... and a caller's function beside them, which can be told to return an out-of-range value on its n-th consultation from now:
 * whichever function is being left or entered at that moment, the operation must abort (C17) */
static unsigned bt_bad_at, bt_bad_returned;
static size_t bt_custom(size_t k, size_t m)
{
    if (bt_bad_at && --bt_bad_at == 0) { bt_bad_returned = 1; return m + (k % 3) * ((size_t)1 << 32); }
    return (k ^ (k >> 17)) % m;
}
static void builtin_tables(const plan_t *p)
{
    struct simheap_cfg hc = { RP_MOVE, (uint64_t)1 << 24, (unsigned char)p->cfg[CF_JUNK] };
    static struct cstl_hash ht; static void *ret;
    enum { NB = 160 };
    static struct xelem pool[NB]; static size_t key[NB]; static unsigned char in[NB];
    prng_t r; int i, round, n = 0; size_t live = 0;
    simheap_reset(&hc, p->cfg[CF_JUNK]);
    mode_g = p->mode; g_hnd = 0;
    g_cur_prop = "C03"; g_cur_ctx = "built-in-by-name"; g_run.step = 0; g_run.opkind = O_RESIZE; g_run.steps++;
    prng_seed(&r, p->cfg[CF_TABSEED]);
    memset(&ht, (int)(unsigned char)p->cfg[CF_JUNK], sizeof ht);
    cstl_hash_init(&ht, offsetof(struct xelem, hn));
    memset(in, 0, sizeof in);
    bt_bad_at = 0; bt_bad_returned = 0;
    /* after every library call: an out-of-range value must have stopped it; nothing else may */
#define BT_AFTER(what) do { \
        if (bt_bad_returned) { \
            if (!g_aborted) { g_cur_prop = "C17"; VIOLP("C17", "no_abort", "%s: the caller's hash function returned an out-of-range value while the table was between it and a built-in function, and the operation did not abort", what); } \
            PROBE("builtin_tables_bad_value_aborted"); g_run.ended_by_abort = 1; g_run.nontrivial = 1; EVT("abort", 0, 0, 0); bt_bad_at = 0; bt_bad_returned = 0; return; \
        } \
        if (g_aborted) VIOL("abort", "%s aborted", what); } while (0)
    for (i = 0; i < NB; i++) {
        uint64_t k = prng_below(&r, 40);
        switch (prng_below(&r, 5)) {
        case 0: break;
        case 1: k |= (uint64_t)(1 + prng_below(&r, 7)) << 32; break;                    /* differs from a small key only above bit 31 */
        case 2: k = UINT64_MAX - k; break;
        case 3: k = (k << 32) | prng_below(&r, 3); break;
        default: k = prng_next(&r); break;
        }
        key[i] = (size_t)k;
        pool[i].magic = EMAGIC; pool[i].tail = ~EMAGIC; pool[i].id = i; pool[i].nk = 0; pool[i].table = -1;
    }
    for (round = 0; round < 6; round++) {
        size_t m = 1 + (size_t)prng_below(&r, round == 0 ? 12 : 90);
        cstl_hash_func_t *f = prng_chance(&r, 1, 2) ? cstl_hash_div : cstl_hash_mul;
        int steps = 4 + (int)prng_below(&r, 60), q, arm_step = -1;
        if (round > 0 && prng_chance(&r, 1, 4)) f = NULL;      /* keep the function in use */
        if ((p->cfg[CF_TABSEED] >> 40 & 1) && prng_chance(&r, 1, 3)) f = bt_custom;      /* in half of the runs a caller's function takes turns with the built-in ones */
        if ((p->cfg[CF_TABSEED] >> 41 & 1) && round >= 1) arm_step = (int)prng_below(&r, (uint64_t)steps);
        g_run.opkind = O_RESIZE;
        TRY(cstl_hash_resize(&ht, m, f)); BT_AFTER("resize");
        for (q = 0; q < steps; q++) {
            int e = (int)prng_below(&r, NB), j, dup = 0;
            if (q == arm_step && !bt_bad_at) { bt_bad_at = 1 + (unsigned)prng_below(&r, 3); PROBE("builtin_tables_bad_value_armed"); }
            switch (prng_below(&r, 4)) {
            case 0: case 1:
                if (in[e]) break;
                for (j = 0; j < NB; j++) if (in[j] && key[j] == key[e]) dup = 1;
                if (dup) break;        /* one element per key keeps the oracle a set */
                g_run.opkind = O_INSERT;
                TRY(cstl_hash_insert(&ht, key[e], &pool[e])); BT_AFTER("insert"); in[e] = 1; live++; n++;
                break;
            case 2:
                if (!in[e]) break;
                g_run.opkind = O_ERASE;
                TRY(cstl_hash_erase(&ht, &pool[e])); BT_AFTER("erase"); in[e] = 0; live--;
                break;
            default: break;
            }
            /* a lookup of some key, present or not, after every step */
            e = (int)prng_below(&r, NB);
            g_run.opkind = O_FIND;
            TRY(ret = cstl_hash_find(&ht, key[e], NULL, NULL)); BT_AFTER("find");
            { void *want = NULL; for (j = 0; j < NB; j++) if (in[j] && key[j] == key[e]) want = &pool[j];
              if (ret != want) VIOL(want ? "lost_element" : "find_absent", "table on a built-in function passed by name: find of key %#zx returned %s (the key is %s)", key[e], ret ? "an element" : "NULL", want ? "held" : "not held"); }
            if (cstl_hash_size(&ht) != live) VIOL("size", "size is %zu, %zu elements are held", cstl_hash_size(&ht), live);
        }
        if (prng_chance(&r, 1, 3)) { g_run.opkind = O_REHASH; TRY(cstl_hash_rehash(&ht)); BT_AFTER("rehash"); }
    }
    bt_bad_at = 0;
    for (i = 0; i < NB; i++) if (in[i]) {
        g_run.opkind = O_FIND;
        TRY(ret = cstl_hash_find(&ht, key[i], NULL, NULL)); BT_AFTER("find");
        if (ret != &pool[i]) VIOL("lost_element", "table on a built-in function passed by name: the element with key %#zx is not found at the end", key[i]);
    }
    g_cur_prop = "C04"; g_run.opkind = O_FOREACH_CONST; hc_seen = 0;
    TRY((void)cstl_hash_foreach_const(&ht, hc_visit, NULL));
    if (hc_seen != live) VIOLP("C04", "enum_missed", "foreach_const visited %llu of %zu elements", (unsigned long long)hc_seen, live);
    g_run.opkind = O_CLEAR; hc_cleared = 0;
    TRY(cstl_hash_clear(&ht, hc_clear));
    if (hc_cleared != live) VIOLP("C04", "clear_missed", "clear handed over %llu of %zu elements", (unsigned long long)hc_cleared, live);
    simheap_audit("C03", "built-in-by-name");
    PROBE("builtin_function_by_name"); if (n > 20) PROBE("builtin_function_by_name_20_inserts");
    EVT("builtin_tables", n, live, 0);
    g_run.nontrivial = n > 4;
}

static void x_exec(const plan_t *p)
{
    if (p->mode == 103) { huge_chains(p); return; }
    if (p->mode == 104) { builtin_tables(p); return; }
    if (p->mode == 16) faultenum(p, x_once); else x_once(p);
}

/* ----------------------------------------------------------------- generate */

static void gen_keyed(prng_t *r, plan_t *p, uint64_t t, int mode)
{
    unsigned x = (unsigned)prng_below(r, 100);
    int kind = x < 45 ? O_INSERT : x < 70 ? O_FIND : x < 92 ? O_ERASE : O_ERASE_NONMEMBER;
    op_t *o = plan_add(p, kind);
    o->a[0] = t; o->a[1] = prng_next(r) >> 16; o->a[2] = prng_below(r, 6); o->a[3] = prng_next(r) >> 8;
    (void)mode;
}

static void x_gen(prng_t *r, int mode, plan_t *p)
{
    p->cfg[CF_FAR] = FAR_OF_INDEX();      /* element blocks 2^32 or 3 * 2^31 bytes apart in one run in seven each */
    p->cfg[CF_DECL] = DECL_OF_INDEX();    /* one run in five starts from the initializer macros */
    p->cfg[CF_REUSE] = REUSE_OF_INDEX();  /* one run in six: the allocator hands a freed block out again at once */
    int longrun = mode != 16 && prng_chance(r, 1, 10), small = !longrun && prng_chance(r, 1, 5);
    int budget = longrun ? 300 + (int)prng_below(r, 1200) : small ? 3 + (int)prng_below(r, 7) : 12 + (int)prng_below(r, 50);
    uint64_t maxb = longrun ? 512 : small ? 4 : 32;
    int faults = (mode == 3 || mode == 4) && prng_chance(r, 1, 4);
    int nt = 1 + (int)prng_below(r, 2), i;
    uint64_t cur[2] = { 0, 0 };

    if (mode == 16) budget = 10 + (int)prng_below(r, 30);
    if (mode == 17 && prng_chance(r, 1, 6)) {
        /* a table that starts on the library's built-in function, is filled, and is then resized to a caller's
         * function that returns an out-of-range value while that rehash is worked off */
        op_t *o; int n;
        p->cfg[CF_NT] = 1; p->cfg[CF_KEYS] = 2 + prng_below(r, 39); p->cfg[CF_JUNK] = 1 + prng_below(r, 254); p->cfg[CF_MAXE] = 64;
        p->cfg[CF_SPREAD] = prng_below(r, 2); p->cfg[CF_AUDIT_PM] = 100; p->cfg[CF_RPOLICY] = prng_below(r, 3); p->cfg[CF_TABSEED] = prng_next(r);
        o = plan_add(p, O_RESIZE); o->a[0] = 0; o->a[1] = 1 + prng_below(r, 32); o->a[2] = F_NULL; o->a[3] = 0; o->a[7] = 1;    /* a[7]: keep the built-in function */
        for (n = 2 + (int)prng_below(r, 20); n > 0; n--) { o = plan_add(p, O_INSERT); o->a[0] = 0; o->a[1] = prng_next(r) >> 16; o->a[2] = prng_below(r, 6); o->a[3] = prng_next(r) >> 8; }
        o = plan_add(p, O_RESIZE); o->a[0] = 0; o->a[1] = 1 + prng_below(r, 32); o->a[2] = 1 + prng_below(r, NFN - 1); o->a[3] = 0;
        o->a[5] = 1 + prng_below(r, 3); o->a[6] = prng_below(r, 7);
        return;
    }
    if (mode == 104) {
        p->cfg[CF_JUNK] = 1 + prng_below(r, 254); p->cfg[CF_TABSEED] = prng_next(r); p->cfg[CF_NT] = 1;
        return;
    }
    if (mode == 103) {
        /* sizes in turn: the first runs are 600000 in one bucket, 300000 in one, 600000 in three, 100000 in two */
        static const uint64_t sz[4] = { 2, 1, 2, 0 }, nb[4] = { 0, 0, 2, 1 };
        p->cfg[CF_KEYS] = g_gen_index < 4 ? sz[g_gen_index] : prng_below(r, 3);
        p->cfg[CF_MAXE] = g_gen_index < 4 ? nb[g_gen_index] : prng_below(r, 3);
        p->cfg[CF_JUNK] = 1 + prng_below(r, 254); p->cfg[CF_TABSEED] = prng_next(r); p->cfg[CF_NT] = 1;
        return;
    }
    if (mode == 117) {
        /* the range-scan batch: run i scans slice i mod 256 of the 32-bit keys; the table sizes change every 256 runs */
        op_t *o;
        p->cfg[CF_NT] = 1; p->cfg[CF_KEYS] = 2; p->cfg[CF_JUNK] = 1 + prng_below(r, 254); p->cfg[CF_MAXE] = 4;
        o = plan_add(p, O_SCAN);
        o->a[1] = g_gen_index % 256; o->a[2] = (g_gen_index / 256) % 16; o->a[3] = prng_next(r) >> 8;
        return;
    }
    p->cfg[CF_NT] = (uint64_t)nt;
    p->cfg[CF_KEYS] = small ? 1 + prng_below(r, 4) : 2 + prng_below(r, 39);
    p->cfg[CF_JUNK] = 1 + prng_below(r, 254);
    p->cfg[CF_MAXE] = longrun ? 200 + prng_below(r, 1800) : small ? 2 + prng_below(r, 4) : 4 + prng_below(r, 44);
    p->cfg[CF_SPREAD] = ((mode == 19) ? 1 : prng_chance(r, 1, 3)) | (prng_chance(r, 1, 3) ? prng_below(r, 4) << 4 : 0) | (prng_chance(r, 1, 3) ? prng_below(r, 8) << 8 : 0);
    p->cfg[CF_AUDIT_PM] = longrun ? 30 : 1000;
    p->cfg[CF_RPOLICY] = prng_below(r, 3);
    p->cfg[CF_TABSEED] = prng_next(r);

    /* every table starts with a resize - in one run of eight after having been enumerated or cleared as it came from
     * cstl_hash_init() (on junk-filled memory): a freshly initialised table is empty, and says so */
    for (i = 0; i < nt; i++) {
        op_t *o;
        if (mode != 17 && prng_chance(r, 1, 8)) {
            unsigned y = (unsigned)prng_below(r, 3);
            o = plan_add(p, y == 0 ? O_FOREACH_CONST : y == 1 ? O_FOREACH : O_CLEAR);
            o->a[0] = (uint64_t)i; o->a[1] = prng_below(r, 12); o->a[2] = prng_below(r, 4); o->a[3] = prng_next(r) >> 8;
        }
        o = plan_add(p, O_RESIZE);
        cur[i] = 1 + prng_below(r, maxb);
        o->a[0] = (uint64_t)i; o->a[1] = cur[i]; o->a[2] = prng_below(r, NFN); o->a[3] = 0;
    }
    while (p->nops < budget) {
        uint64_t t = prng_below(r, (uint64_t)nt);
        unsigned x = (unsigned)prng_below(r, 100);
        op_t *o;
        if (x < 30) {
            /* a resize followed by a burst of 0..B+2 keyed operations: hits every stage of the sweep */
            uint64_t b, burst;
            o = plan_add(p, O_RESIZE);
            o->a[0] = t;
            o->a[3] = prng_below(r, 8);
            o->a[1] = 1 + prng_below(r, maxb);
            if (prng_chance(r, 1, 40)) o->a[1] = ((uint64_t)1 << 36) * (1 + prng_below(r, 64));      /* over the heap budget / unrepresentable */
            if (prng_chance(r, 1, 30)) o->a[1] = 0;
            o->a[2] = prng_chance(r, 1, 2) ? 0 : prng_below(r, NFN);
            if (faults && prng_chance(r, 1, 4)) o->a[4] = 1;
            b = cur[t] > o->a[1] ? cur[t] : o->a[1]; if (b > maxb) b = maxb;
            cur[t] = o->a[1] && o->a[1] <= 600 ? o->a[1] : cur[t];
            burst = prng_chance(r, 1, 3) ? prng_below(r, 3) : prng_below(r, b + 3);
            if (mode == 16 && burst > 6) burst = 6;
            while (burst-- > 0 && p->nops < MAXOPS - 8) gen_keyed(r, p, t, mode);
            if (mode == 4 || prng_chance(r, 1, 4)) {
                /* enumerate / clear right here, possibly mid-rehash */
                unsigned y = (unsigned)prng_below(r, 10);
                o = plan_add(p, y < 4 ? O_FOREACH_CONST : y < 8 ? O_FOREACH : O_CLEAR);
                o->a[0] = t; o->a[1] = prng_below(r, 12); o->a[2] = prng_below(r, 4); o->a[3] = prng_next(r) >> 8;
                if (o->kind == O_CLEAR) {
                    /* empty and reusable after a fresh resize */
                    int nf = (int)prng_below(r, 5);
                    op_t *q = plan_add(p, O_RESIZE);
                    q->a[0] = t; q->a[1] = 1 + prng_below(r, maxb); q->a[2] = prng_below(r, NFN);
                    cur[t] = q->a[1];
                    while (nf-- > 0) gen_keyed(r, p, t, mode);
                }
            }
        } else if (x < 80) {
            gen_keyed(r, p, t, mode);
        } else if (x < 84) {
            o = plan_add(p, (mode == 3 || mode == 4 || mode == 19) && prng_chance(r, 1, 25) ? O_CHURN : O_REHASH); o->a[0] = t; o->a[1] = prng_next(r) >> 16; o->a[2] = prng_below(r, 6);
        } else if (x < 88) {
            o = plan_add(p, O_SHRINK); o->a[0] = t;
            if (faults && prng_chance(r, 1, 3)) o->a[4] = 1;
        } else if (x < 91) {
            o = plan_add(p, O_SWAP); o->a[0] = t; o->a[1] = prng_below(r, 8);
        } else if (x < 95) {
            o = plan_add(p, O_FOREACH_CONST); o->a[0] = t; o->a[1] = prng_below(r, 12); o->a[2] = prng_below(r, 4); o->a[3] = prng_next(r) >> 8;
        } else if (x < 99) {
            o = plan_add(p, O_FOREACH); o->a[0] = t; o->a[1] = prng_below(r, 12); o->a[2] = prng_below(r, 4); o->a[3] = prng_next(r) >> 8;
        } else {
            o = plan_add(p, mode == 17 ? O_RANGE : O_CLEAR); o->a[0] = t; o->a[1] = prng_next(r); o->a[2] = prng_below(r, 4);
        }
    }
    if (mode == 17) {
        /* one misbehaving hash call per run (the abort ends the run), placed after the first third so that
         * the table has a history; a tenth of the runs carry none */
        op_t *o = plan_add(p, O_RANGE);
        int tries;
        o->a[1] = prng_next(r);
        if (!prng_chance(r, 1, 10)) {
            /* several candidates: deep call ordinals (pending geometry, chain relocation) only fire when a
             * rehash is in flight, so they ride on several operations; a call-1 fault on a late operation is the fallback */
            int ncand = 1 + (int)prng_below(r, 5), last = -1;
            for (tries = 0; tries < ncand; tries++) {
                int at = p->nops / 3 + (int)prng_below(r, (uint64_t)(p->nops - p->nops / 3));
                op_t *q = &p->ops[at];
                if (q->kind == O_SWAP || q->kind == O_CLEAR || q->kind == O_RANGE) continue;
                q->a[5] = 2 + prng_below(r, prng_chance(r, 1, 2) ? 2 : 11);
                q->a[6] = prng_below(r, 7);
                if (at > last) last = at;
            }
            if (prng_chance(r, 2, 3)) {
                int at = (last >= 0 ? last : p->nops / 3) + (int)prng_below(r, (uint64_t)(p->nops - (last >= 0 ? last : p->nops / 3)));
                op_t *q = &p->ops[at];
                if (q->kind != O_SWAP && q->kind != O_CLEAR && q->kind != O_RANGE) { q->a[5] = 1; q->a[6] = prng_below(r, 7); }
            }
        }
    }
}

static const char *x_crash_prop(const plan_t *p, int opkind) { (void)p; (void)opkind; return g_cur_prop; }

const world_t world_hash = { "hash", x_gen, x_exec, x_opname, x_crash_prop };
