/*
 * World "array": cstl_array views over shared buffers (C14), allocation
 * failure (C16), stray bitwise copies of array objects (C20).
 * mode 14: histories; mode 16: allocation-failure enumeration;
 * mode 20: a history followed by one use of a stray (memcpy'd) object.
 */
#include "../core/sim.h"

#include "cstl/array.h"

#include <string.h>

enum { A_ALLOC = 1, A_SET, A_SLICE, A_UNSLICE, A_RESET, A_RELEASE, A_AT, A_STRAY };

static const char *a_opname(int k)
{
    switch (k) {
    case A_ALLOC: return "alloc"; case A_SET: return "set"; case A_SLICE: return "slice"; case A_UNSLICE: return "unslice";
    case A_RESET: return "reset"; case A_RELEASE: return "release"; case A_AT: return "at"; case A_STRAY: return "stray";
    }
    return "?";
}

enum { CF_NOBJ, CF_JUNK, CF_BUDGET };

#define NOBJ 4
#define MAXBUF 64
#define MAXBLK 4

typedef unsigned __int128 u128;

struct mbuf {
    int live;
    size_t nm, sz;
    int external;
    unsigned char *base;        /* what data() must return */
    void *ext;                  /* external buffer (harness-owned block) */
    int extoff;                 /* the caller's buffer starts this many bytes into the block */
    int extowner;               /* this entry frees `ext` when it dies (other entries may describe the same caller memory) */
    int virt;                   /* caller claims far more elements than are backed by memory: addresses are computed, never dereferenced */
    int refs;
    int nblk, blk[MAXBLK];      /* library blocks allocated for this buffer */
};
struct mobj { int buf; size_t off, len; };

static cstl_array_t arr[NOBJ + 1];      /* arr[NOBJ] is the slot stray copies are made in */
static struct mobj mo[NOBJ];
static struct mbuf mb[MAXBUF];
static int nobj, nbuf, mode_g;
static uint64_t budget;
static unsigned maxviews;
static int stray_call;                  /* set while a library call on a stray object is in flight */

#define PROP() (mode_g == 16 ? "C16" : mode_g == 20 && stray_call ? "C20" : "C14")
#define VIOL(oracle, ...) do { char _k[160]; \
        snprintf(_k, sizeof _k, "%s/%s/%s/%s", PROP(), oracle, a_opname(g_run.opkind), g_cur_ctx); \
        sim_violation(_k, __VA_ARGS__); } while (0)

/* drop one reference of object o's buffer in the model; returns the buffer index if it dies */
static int m_drop(int o)
{
    int b = mo[o].buf;
    mo[o].buf = -1; mo[o].off = 0; mo[o].len = 0;
    if (b < 0) return -1;
    if (--mb[b].refs == 0) return b;
    return -1;
}

/* a buffer the model says died in this operation: its blocks must be gone now, and only now */
static void check_death(int b, const char *what)
{
    int j;
    if (b < 0) return;
    for (j = 0; j < mb[b].nblk; j++)
        if (simheap_id_live(mb[b].blk[j]))
            VIOL("buffer_not_released", "%s: the last array object let go of buffer %d but block #%d is still allocated", what, b, mb[b].blk[j]);
    mb[b].live = 0;
    if (mb[b].external && mb[b].ext) {
        /* the library never frees a caller's buffer (sim heap reports that itself); the harness owns it again */
        int o2, users = 0;
        if (!simheap_is_live(mb[b].ext)) VIOL("external_freed", "%s: the library released an externally supplied buffer", what);
        for (o2 = 0; o2 < nbuf; o2++) if (o2 != b && mb[o2].live && mb[o2].external && mb[o2].ext == mb[b].ext) users++;
        if (users == 0) simheap_free(mb[b].ext);      /* last description of this caller memory */
        mb[b].ext = NULL;
    }
    PROBE("buffer_released_with_last_view");
}

/* blocks allocated by the library during the last TRY (captured before any other TRY) become the new buffer's blocks */
static int cap_ids[MAXBLK], ncap;
static void capture_allocs(void)
{
    int i;
    ncap = 0;
    for (i = 0; i < g_nhev; i++)
        if (g_hev[i].kind == 'A' && simheap_id_live(g_hev[i].id) && ncap < MAXBLK) cap_ids[ncap++] = g_hev[i].id;
}
static int adopt_blocks(struct mbuf *b)
{
    int i;
    b->nblk = ncap;
    for (i = 0; i < ncap; i++) b->blk[i] = cap_ids[i];
    return b->nblk;
}

static int new_buf(void)
{
    int i;
    for (i = 0; i < nbuf; i++) if (!mb[i].live) break;
    if (i == nbuf) { if (nbuf == MAXBUF) sim_harness_bug("array: buffer table full"); nbuf++; }
    memset(&mb[i], 0, sizeof mb[i]);
    mb[i].live = 1;
    return i;
}

/* ------------------------------------------------------------------ audit */

static void audit_all(const char *when)
{
    int o, b, j; unsigned nblocks = 0, views = 0;
    uint64_t sh = 0xa44a;
    for (o = 0; o < nobj; o++) {
        cstl_array_t *a = &arr[o];
        struct mobj *m = &mo[o];
        static const void *d, *p;
        if (cstl_array_size(a) != m->len) VIOL("size", "%s: object %d reports size %zu, reference has %zu", when, o, cstl_array_size(a), m->len);
        TRY(d = cstl_array_data_const(a));
        if (g_aborted) VIOL("abort", "%s: data() aborted on an object moved only by library functions", when);
        if (m->buf < 0) {
            if (d != NULL) VIOL("data_nonnull", "%s: empty object %d has data() != NULL", when, o);
        } else {
            struct mbuf *bf = &mb[m->buf];
            size_t probes[3]; int k;
            if (d != bf->base) VIOL("data_base", "%s: data() of object %d is not the start of its buffer", when, o);
            /* the view must lie inside the buffer, mathematically */
            if ((u128)m->off + (u128)m->len > (u128)bf->nm) sim_harness_bug("array model: view outside buffer");
            probes[0] = 0; probes[1] = m->len ? m->len - 1 : 0; probes[2] = m->len / 2;
            for (k = 0; k < 3 && m->len > 0; k++) {
                int live; size_t off, size;
                TRY(p = cstl_array_at_const(a, probes[k]));
                if (g_aborted) VIOL("at_in_range_aborts", "%s: at(%zu) aborted with size %zu", when, probes[k], m->len);
                if (p != bf->base + (m->off + probes[k]) * bf->sz)
                    VIOL("at_address", "%s: at(%zu) of object %d (view offset %zu) does not address element %zu of the buffer", when, probes[k], o, m->off, m->off + probes[k]);
                if (!bf->virt && (simheap_find(p, &live, &off, &size) < 0 || !live || off + bf->sz > size))
                    VIOL("at_outside_block", "%s: at(%zu) of object %d points outside any live allocation", when, probes[k], o);
            }
            views++;
        }
        sh = fnv1a(sh, m->buf < 0 ? 99 : (uint64_t)mb[m->buf].refs * 8 + (uint64_t)mb[m->buf].external * 4 + (m->off != 0) * 2 + (m->len != mb[m->buf].nm));
    }
    for (b = 0; b < nbuf; b++) if (mb[b].live) {
        for (j = 0; j < mb[b].nblk; j++) {
            if (!simheap_id_live(mb[b].blk[j]))
                VIOL("buffer_released_early", "%s: block #%d of buffer %d was released while %d array objects still refer to it", when, mb[b].blk[j], b, mb[b].refs);
            nblocks++;
        }
        if (mb[b].external && mb[b].ext && !simheap_is_live(mb[b].ext)) VIOL("external_freed", "%s: an externally supplied buffer was released", when);
    }
    if (simheap_live_count(TAG_LIB) != nblocks)
        VIOL("block_accounting", "%s: %u library blocks are live, the buffers in use account for %u (leak)", when, simheap_live_count(TAG_LIB), nblocks);
    state_note(sh);
    if (views > maxviews) maxviews = views;
}

/* ------------------------------------------------------ symbolic arguments */

static size_t sym_nm(uint64_t sym, uint64_t raw, size_t sz, const char **ctx)
{
    switch (sym % 14) {
    case 12: *ctx = "bytes-2^32"; return (size_t)(((uint64_t)1 << 32) / sz) + (size_t)(raw % 3);
    case 13: *ctx = "bytes-2^31"; return (size_t)(((uint64_t)1 << 31) / sz) + (size_t)(raw % 3);
    case 0: return 0;
    case 1: return 1;
    case 2: case 3: case 4: case 5: case 6: return (size_t)(1 + raw % 24);
    case 7: *ctx = "count-near-budget"; return (size_t)(budget / sz) + (size_t)(raw % 3) - 1;
    case 8: *ctx = "product-overflows"; return SIZE_MAX / sz + 1 + (size_t)(raw % 3);
    case 9: *ctx = "product-overflows"; return ((size_t)1 << 61) + 2 + (size_t)(raw % 5);
    case 10: *ctx = "product-near-max"; return SIZE_MAX / sz - (size_t)(raw % 4);
    default: *ctx = "count-max"; return SIZE_MAX - (size_t)(raw % 2);
    }
}

#define END_BY_ABORT(why) do { PROBE(why); simheap_audit(PROP(), "at-abort"); g_run.ended_by_abort = 1; EVT("abort", 0, 0, 0); return; } while (0)

/* no free of any block of buffer b may have happened in the last TRY */
static void check_no_release(int b, const char *what)
{
    int i, j;
    if (b < 0) return;
    for (i = 0; i < g_nhev; i++) if (g_hev[i].kind == 'F')
        for (j = 0; j < mb[b].nblk; j++) if (g_hev[i].id == mb[b].blk[j])
            VIOL("released_through_stray", "%s: memory of the buffer the stray copy refers to was released before the abort", what);
}

/* --------------------------------------------------------------------- exec */

static void a_once(const plan_t *p)
{
    struct simheap_cfg hc;
    int k, o;

    budget = p->cfg[CF_BUDGET]; if (budget < 4096) budget = 4096;
    hc.realloc_policy = RP_MOVE; hc.budget = budget; hc.junk = (unsigned char)p->cfg[CF_JUNK];
    simheap_reset(&hc, p->cfg[CF_JUNK]);
    faultenum_apply();
    mode_g = p->mode; stray_call = 0;
    nobj = (int)p->cfg[CF_NOBJ]; if (nobj < 2) nobj = 2; if (nobj > NOBJ) nobj = NOBJ;
    nbuf = 0; maxviews = 0;
    memset(arr, (int)(unsigned char)p->cfg[CF_JUNK], sizeof arr);
    for (o = 0; o <= NOBJ; o++) {
        if (p->cfg[CF_DECL]) { arr[o] = (cstl_array_t)CSTL_ARRAY_INITIALIZER(arr[o]); PROBE("from_initializer_macro"); } else
        cstl_array_init(&arr[o]); if (o < NOBJ) { mo[o].buf = -1; mo[o].off = mo[o].len = 0; } }

    for (k = 0; k < p->nops; k++) {
        const op_t *op = &p->ops[k];
        int a = (int)(op->a[0] % (uint64_t)nobj), s = (int)(op->a[1] % (uint64_t)nobj);
        struct mobj *ma = &mo[a];
        const char *ctx = "plain";
        static int dead, dead2; static void *retbuf;
        int provoke = (int)op->a[7];

        g_run.step = k; g_run.opkind = op->kind; g_run.steps++;
        g_cur_prop = PROP(); g_cur_ctx = "plain";
        dead = dead2 = -1;
        if (p->mode != 16) simheap_fail_in_op((unsigned)op->a[6]);

        switch (op->kind) {
        case A_ALLOC: {
            size_t sz = (size_t)(1 + op->a[3] % 16), nm = sym_nm(op->a[2], op->a[4], sz, &ctx);
            u128 bytes = (u128)nm * (u128)sz;
            int b, refused;
            if (ma->buf >= 0 && ma->off != 0) { PROBE("alloc_on_sliced_object"); if (ctx[0] == 'p' && ctx[1] == 'l') ctx = "dest-sliced"; }
            g_cur_ctx = ctx;
            TRY(cstl_array_alloc(&arr[a], nm, sz));
            capture_allocs();
            if (g_aborted) VIOL(g_aborted == 2 ? "assert" : "abort", "alloc(%zu, %zu) aborted", nm, sz);
            dead = m_drop(a);
            if (g_hs.fired_in_op) PROBE("alloc_fail_fired"); if (g_hs.enomem_in_op) PROBE("enomem_over_budget");
            if (bytes > (u128)SIZE_MAX - 64) PROBE("product_unrepresentable");
            refused = g_hs.fired_in_op || g_hs.enomem_in_op;
            if (refused) {
                /* a failed allocation leaves the object empty */
                if (cstl_array_size(&arr[a]) != 0) VIOL("failed_alloc_not_empty", "alloc(%zu, %zu) failed but the object reports size %zu", nm, sz, cstl_array_size(&arr[a]));
            } else if (cstl_array_size(&arr[a]) == 0 && nm != 0) {
                /* the library declined (e.g. unrepresentable product): the object must simply be empty; checked by the audit */
                if (bytes <= (u128)budget / 2) VIOL("alloc_declined", "alloc(%zu, %zu) left the object empty although the allocator was never asked or agreed", nm, sz);
                PROBE("alloc_declined_unrepresentable");
            } else {
                static const void *d; int live; size_t off, size;
                TRY(d = cstl_array_data_const(&arr[a]));
                if (d == NULL) {
                    if (nm != 0 || cstl_array_size(&arr[a]) != 0) VIOL("alloc_no_data", "alloc(%zu, %zu) reports size %zu with no buffer", nm, sz, cstl_array_size(&arr[a]));
                    goto alloc_done;    /* empty object */
                }
                if (cstl_array_size(&arr[a]) != nm) VIOL("alloc_size", "alloc(%zu, %zu) reports size %zu", nm, sz, cstl_array_size(&arr[a]));
                /* never a view larger than the block */
                /* (an empty buffer may legitimately start one past the end of its block) */
                if (bytes != 0 && (simheap_find(d, &live, &off, &size) < 0 || !live || (u128)off + bytes > (u128)size))
                    VIOL("view_exceeds_block", "alloc(%zu, %zu): the buffer starts %zu bytes into a block of %zu bytes and cannot hold %zu x %zu bytes", nm, sz, off, size, nm, sz);
                b = new_buf();
                mb[b].nm = nm; mb[b].sz = sz; mb[b].external = 0; mb[b].base = (unsigned char *)d; mb[b].refs = 1;
                adopt_blocks(&mb[b]);
                ma->buf = b; ma->off = 0; ma->len = nm;
                memset((void *)d, 0x40 + b, (size_t)bytes);       /* touch every byte the view claims */
            }
alloc_done:
            check_death(dead, "alloc");
            EVT("alloc", a, nm, sz);
            break;
        }
        case A_SET: {
            size_t sz = (size_t)(1 + op->a[3] % 16), nm = (size_t)(op->a[4] % 24);
            void *ext = NULL; int b, shared_base = -1, virt = 0, q, odd = 0;
            /* a caller may describe the same memory twice (e.g. a byte view and a word view of one buffer) ... */
            if ((op->a[2] % 3) == 1) {
                for (q = 0; q < nbuf; q++) if (mb[q].live && mb[q].external && mb[q].ext && !mb[q].virt) shared_base = q;
                if (shared_base >= 0) {
                    size_t bytes = simheap_size(mb[shared_base].ext);
                    ext = mb[shared_base].ext;
                    sz = (size_t)(1 + op->a[3] % 8);
                    nm = bytes / sz;
                    PROBE("set_same_base_twice");
                }
            }
            /* ... or claim a very large buffer: the library only does address arithmetic on it */
            if (ext == NULL && (op->a[2] % 3) == 2 && (op->a[5] & 3) == 0) {
                static const uint64_t claims[] = { ((uint64_t)1 << 31) + 4096, ((uint64_t)1 << 32) + 4096, ((uint64_t)1 << 33) + 7, ((uint64_t)1 << 31) - 1 };
                virt = 1; sz = (op->a[3] & 1) ? 1 : 4; nm = (size_t)claims[(op->a[5] >> 2) % 4];
                ext = simheap_alloc(64, TAG_EXT);
                PROBE("set_virtual_huge_buffer");
            }
            /* a fresh real buffer may start at an odd address (a view that begins one byte into a caller's block) */
            if (ext == NULL) { odd = (op->a[5] >> 4 & 3) == 1; ext = simheap_alloc((nm * sz ? nm * sz : 1) + (size_t)odd, TAG_EXT); if (odd) PROBE("set_external_at_odd_address"); }
            if (ma->buf >= 0 && ma->off != 0) { PROBE("set_on_sliced_object"); ctx = "dest-sliced"; }
            if (virt) ctx = "huge-external"; else if (shared_base >= 0) ctx = "same-base-twice";
            g_cur_ctx = ctx;
            TRY(cstl_array_set(&arr[a], (unsigned char *)ext + odd, nm, sz));
            capture_allocs();
            if (g_aborted) VIOL(g_aborted == 2 ? "assert" : "abort", "set aborted");
            dead = m_drop(a);
            if (g_hs.fired_in_op || g_hs.enomem_in_op) {
                PROBE("alloc_fail_fired");
                if (cstl_array_size(&arr[a]) != 0) VIOL("failed_alloc_not_empty", "set failed to allocate its bookkeeping but the object reports size %zu", cstl_array_size(&arr[a]));
                if (shared_base < 0) simheap_free(ext);
            } else {
                b = new_buf();
                mb[b].nm = nm; mb[b].sz = sz; mb[b].external = 1; mb[b].ext = ext; mb[b].base = (unsigned char *)ext + odd; mb[b].extoff = odd; mb[b].refs = 1; mb[b].virt = virt;
                adopt_blocks(&mb[b]);
                ma->buf = b; ma->off = 0; ma->len = nm;
                PROBE("set_external");
            }
            check_death(dead, "set");
            EVT("set", a, nm, sz);
            break;
        }
        case A_SLICE: {
            size_t beg, end, room;
            int must_abort = 0;
            if (ma->buf < 0) {
                if (!provoke) { EVT("skip", 0, 0, 0); break; }
                beg = 0; end = 0; must_abort = 1; ctx = "empty-source";
            } else {
                room = mb[ma->buf].nm - ma->off;        /* largest legal end */
                if (!provoke) {
                    end = (op->a[2] % 4 == 0) ? room : (op->a[2] % 4 == 1) ? ma->len : (size_t)(op->a[4] % (room + 1));
                    beg = (op->a[3] % 4 == 0) ? end : (op->a[3] % 4 == 1) ? 0 : (size_t)(op->a[5] % (end + 1));
                    if (mb[ma->buf].virt && room > ((size_t)1 << 31) && (op->a[4] & 1)) {
                        /* views that start beyond 2^31 / 2^32 elements: index arithmetic narrower than size_t shows here */
                        size_t lo = (op->a[4] & 2) && room > ((size_t)1 << 32) + 64 ? (size_t)1 << 32 : (size_t)1 << 31;
                        if (lo >= ma->off && lo - ma->off + 16 <= room) { beg = lo - ma->off + (size_t)(op->a[5] % 3); end = beg + 1 + (size_t)(op->a[5] % 13); PROBE("slice_beyond_2^31"); }
                    }
                    if (end > ma->len) PROBE("slice_beyond_own_length");
                } else {
                    switch (op->a[2] % 9) {
                    case 0: end = room + 1; beg = 0; ctx = "end-past-buffer"; break;
                    case 1: end = SIZE_MAX; beg = 0; ctx = "end-max"; break;
                    case 2: end = SIZE_MAX - ma->off; beg = 0; ctx = "off+end-max"; break;
                    case 3: end = SIZE_MAX - ma->off + 1; beg = 0; ctx = ma->off ? "off+end-wraps" : "end-zero"; break;
                    case 4: end = (size_t)(op->a[4] % (room + 1)); beg = end + 1; ctx = "end-lt-beg"; break;
                    case 6: end = (size_t)(op->a[4] % (room + 1)); beg = SIZE_MAX - (size_t)(op->a[5] % 3); ctx = "beg-max"; break;
                    case 7: end = (size_t)(op->a[4] % (room + 1)); beg = SIZE_MAX / 2 + 2 + (size_t)(op->a[5] % 4); ctx = "beg-half-max"; break;
                    case 8: end = (size_t)(op->a[4] % (room + 1)); beg = SIZE_MAX - ma->off + (size_t)(op->a[5] % 2); ctx = "beg-max-off"; break;
                    default: end = SIZE_MAX - ma->off + 1 + (size_t)(op->a[4] % 3); beg = 0; ctx = ma->off ? "off+end-wraps" : "end-small"; break;
                    }
                    must_abort = end < beg || (u128)ma->off + (u128)end > (u128)mb[ma->buf].nm;
                }
            }
            if (s == a) PROBE("slice_in_place");
            g_cur_ctx = ctx;
            TRY(cstl_array_slice(&arr[a], beg, end, &arr[s]));
            if (must_abort) {
                if (!g_aborted) VIOL("bad_slice_not_aborted", "slice(beg %zu, end %zu) of a view at offset %zu of a %zu-element buffer did not abort", beg, end,
                                     ma->buf >= 0 ? ma->off : 0, ma->buf >= 0 ? mb[ma->buf].nm : 0);
                END_BY_ABORT("slice_abort");
            }
            if (g_aborted) VIOL(g_aborted == 2 ? "assert" : "abort", "slice(beg %zu, end %zu) within the buffer aborted", beg, end);
            if (s != a) {
                int b = ma->buf; size_t off = ma->off;
                dead = m_drop(s);
                if (dead == b) dead = -1;       /* cannot happen: a still refers to it */
                mo[s].buf = b; mb[b].refs++; mo[s].off = off + beg; mo[s].len = end - beg;
            } else {
                ma->off += beg; ma->len = end - beg;
            }
            check_death(dead, "slice");
            EVT("slice", a, beg, end);
            break;
        }
        case A_UNSLICE: {
            /* cstl_array_unslice(s, a): a becomes the full view of s's buffer */
            struct mobj *msrc = &mo[s];
            if (msrc->buf < 0) {
                if (!provoke) { EVT("skip", 0, 0, 0); break; }
                g_cur_ctx = "empty-source";
                TRY(cstl_array_unslice(&arr[s], &arr[a]));
                if (!g_aborted) VIOL("bad_unslice_not_aborted", "unslice of an empty object did not abort");
                END_BY_ABORT("unslice_abort");
            }
            TRY(cstl_array_unslice(&arr[s], &arr[a]));
            if (g_aborted) VIOL(g_aborted == 2 ? "assert" : "abort", "unslice aborted");
            if (s != a) {
                int b = msrc->buf;
                dead = m_drop(a);
                mo[a].buf = b; mb[b].refs++;
            }
            mo[a].off = 0; mo[a].len = mb[mo[a].buf].nm;
            check_death(dead, "unslice");
            PROBE("unslice");
            EVT("unslice", s, a, 0);
            break;
        }
        case A_RESET:
            TRY(cstl_array_reset(&arr[a]));
            if (g_aborted) VIOL(g_aborted == 2 ? "assert" : "abort", "reset aborted");
            dead = m_drop(a);
            check_death(dead, "reset");
            EVT("reset", a, 0, 0);
            break;
        case A_RELEASE: {
            int b = ma->buf, expect = b >= 0 && mb[b].external && mb[b].refs == 1;
            retbuf = (void *)(uintptr_t)0x1;
            if (op->a[2] & 1) TRY(cstl_array_release(&arr[a], &retbuf)); else { TRY(cstl_array_release(&arr[a], NULL)); retbuf = NULL; }
            if (g_aborted) VIOL(g_aborted == 2 ? "assert" : "abort", "release aborted");
            if (expect) {
                PROBE("release_sole_user");
                if ((op->a[2] & 1) && retbuf != (void *)((unsigned char *)mb[b].ext + mb[b].extoff)) VIOL("release_wrong_buffer", "release by the sole user did not hand back the supplied buffer");
                dead = m_drop(a);
                check_death(dead, "release");
                if (cstl_array_size(&arr[a]) != 0) VIOL("release_not_reset", "object still reports size %zu after a successful release", cstl_array_size(&arr[a]));
            } else {
                if (b >= 0 && mb[b].external) PROBE("release_refused_other_views"); else if (b >= 0) PROBE("release_refused_internal");
                if ((op->a[2] & 1) && retbuf != NULL) VIOL("release_not_null", "release reported a buffer although the object is %s", b < 0 ? "empty" : mb[b].external ? "not the sole user" : "not external");
                /* and changes nothing: the audit checks size, data, at and the blocks */
            }
            EVT("release", a, expect, 0);
            break;
        }
        case A_AT: {
            static const void *pp; size_t idx;
            if (!provoke) { EVT("skip", 0, 0, 0); break; }
            switch (op->a[2] % 4) { case 0: idx = ma->len; break; case 1: idx = ma->len + 1; break; case 2: idx = SIZE_MAX; break; default: idx = SIZE_MAX - ma->off; }
            if (idx < ma->len) idx = ma->len;
            g_cur_ctx = "index-out-of-range";
            TRY(pp = cstl_array_at_const(&arr[a], idx));
            (void)pp;
            if (!g_aborted) VIOL("at_oob_not_aborted", "at(%zu) on a view of %zu elements did not abort", idx, ma->len);
            END_BY_ABORT("at_abort");
        }
        case A_STRAY: {
            /* C20: duplicate or relocate object a with memcpy into the spare slot, then use the copy */
            cstl_array_t *st = &arr[NOBJ];
            int fn = (int)(op->a[2] % 13), relocate = (int)(op->a[3] & 1), b = ma->buf;
            static const void *pp; static void *rb;
            const char *state = b < 0 ? "empty" : mb[b].refs > 1 ? (ma->off || ma->len != mb[b].nm ? "shared-slice" : "shared") : (mb[b].external ? "external" : "owning");
            static char ctxbuf[48];
            static const char *fnames[] = { "data", "at", "slice-src", "slice-dst", "unslice-src", "unslice-dst", "reset", "release", "alloc", "set",
                                            "slice-inplace", "slice-inplace-inner", "unslice-inplace" };
            memcpy(st, &arr[a], sizeof *st);
            if (relocate) memset(&arr[a], 0x5A, sizeof arr[a]);
            else {
                /* the original keeps working */
                TRY(pp = cstl_array_data_const(&arr[a]));
                if (g_aborted || pp != (b < 0 ? NULL : (const void *)mb[b].base)) VIOL("original_broken", "the original object stopped working after it was copied");
            }
            snprintf(ctxbuf, sizeof ctxbuf, "%s-%s-%s", fnames[fn], state, relocate ? "relocated" : "duplicate");
            g_cur_ctx = ctxbuf;
            stray_call = 1; g_cur_prop = "C20";
            switch (fn) {
            case 0: TRY(pp = cstl_array_data_const(st)); break;
            case 1: if (ma->len == 0) { stray_call = 0; EVT("skip", 0, 0, 0); goto stray_done; }   /* at() on size 0 aborts for another reason */
                TRY(pp = cstl_array_at_const(st, 0)); break;
            case 2: TRY(cstl_array_slice(st, 0, 0, &arr[s == a ? (a + 1) % nobj : s])); break;
            case 3: { int src = s == a ? (a + 1) % nobj : s; if (mo[src].buf < 0) { stray_call = 0; EVT("skip", 0, 0, 0); goto stray_done; } TRY(cstl_array_slice(&arr[src], 0, 0, st)); break; }
            case 4: TRY(cstl_array_unslice(st, &arr[s == a ? (a + 1) % nobj : s])); break;
            case 5: { int src = s == a ? (a + 1) % nobj : s; if (mo[src].buf < 0) { stray_call = 0; EVT("skip", 0, 0, 0); goto stray_done; } TRY(cstl_array_unslice(&arr[src], st)); break; }
            case 6: TRY(cstl_array_reset(st)); break;
            case 7: TRY(cstl_array_release(st, &rb)); break;
            case 8: TRY(cstl_array_alloc(st, 3, 4)); break;
            case 9: { static char extbuf[64]; TRY(cstl_array_set(st, extbuf, 4, 4)); break; }
            /* the documented in-place forms, with the stray as both arguments */
            case 10: TRY(cstl_array_slice(st, 0, 0, st)); break;
            case 11: if (ma->len < 1) { stray_call = 0; EVT("skip", 0, 0, 0); goto stray_done; }
                     TRY(cstl_array_slice(st, 0, 1 + (size_t)(op->a[4] % ma->len), st)); break;     /* a non-empty range inside the current view */
            default: TRY(cstl_array_unslice(st, st)); break;
            }
            PROBE("c20_stray_call");
            { char pn[96]; snprintf(pn, sizeof pn, "c20:%s", g_cur_ctx); probe_dyn(pn); }
            g_run.nontrivial = 1;
            if (!g_aborted)
                VIOL("stray_not_caught", "%s through a bitwise %s of an array object (%s) returned instead of aborting", fnames[fn], relocate ? "relocation" : "copy", state);
            check_no_release(b, fnames[fn]);
            END_BY_ABORT("c20_stray_aborted");
stray_done:
            if (relocate) { memcpy(&arr[a], st, sizeof arr[a]); arr[a].ptr.data.self = &arr[a].ptr.data; }    /* undo for the skipped case */
            break;
        }
        default: EVT("skip", 0, 0, 0);
        }
        audit_all("after");
        g_cur_ctx = "plain";
        if ((k & 7) == 7 || k == p->nops - 1) simheap_audit(PROP(), "array");
    }

    /* epilogue: every object lets go; nothing may stay allocated */
    for (o = 0; o < nobj; o++) {
        static int dead3;
        g_run.step = p->nops + o; g_run.opkind = A_RESET; g_cur_ctx = "epilogue";
        TRY(cstl_array_reset(&arr[o]));
        if (g_aborted) VIOL("abort", "reset aborted on an object moved only by library functions");
        dead3 = m_drop(o);
        check_death(dead3, "reset");
    }
    if (simheap_live_count(TAG_LIB) != 0) VIOL("leak", "%u library blocks still allocated after every object was reset", simheap_live_count(TAG_LIB));
    if (simheap_live_count(TAG_EXT) != 0) sim_harness_bug("array: external buffer accounting broken");
    simheap_audit(PROP(), "array-end");
    g_run.nontrivial = maxviews >= 2;
}

static void a_exec(const plan_t *p)
{
    if (p->mode == 16) faultenum(p, a_once); else a_once(p);
}

static void a_gen(prng_t *r, int mode, plan_t *p)
{
    p->cfg[CF_DECL] = DECL_OF_INDEX();    /* one run in five starts from the initializer macros */
    p->cfg[CF_REUSE] = REUSE_OF_INDEX();  /* one run in six: the allocator hands a freed block out again at once */
    int small = prng_chance(r, 1, 5);
    int nops = small ? 2 + (int)prng_below(r, 7) : 8 + (int)prng_below(r, 42);
    int faults = mode == 14 && prng_chance(r, 1, 4), boundary = prng_chance(r, 1, 3);
    int i;
    if (mode == 16) nops = 6 + (int)prng_below(r, 16);
    p->cfg[CF_NOBJ] = 2 + prng_below(r, 3);
    p->cfg[CF_JUNK] = 1 + prng_below(r, 254);
    p->cfg[CF_BUDGET] = (uint64_t)1 << (13 + prng_below(r, 6));
    for (i = 0; i < nops; i++) {
        unsigned x = (unsigned)prng_below(r, 100);
        int kind = x < 22 ? A_ALLOC : x < 32 ? A_SET : x < 62 ? A_SLICE : x < 74 ? A_UNSLICE : x < 86 ? A_RESET : A_RELEASE;
        op_t *o = plan_add(p, kind);
        o->a[0] = prng_below(r, 4); o->a[1] = prng_chance(r, 1, 3) ? o->a[0] : prng_below(r, 4);
        o->a[2] = (kind == A_ALLOC && !boundary) ? 1 + prng_below(r, 6) : prng_below(r, 28);
        if (mode == 16 && kind == A_ALLOC) o->a[2] = 1 + prng_below(r, 6);
        o->a[3] = prng_below(r, 16); o->a[4] = prng_next(r) >> 8; o->a[5] = prng_next(r) >> 8;
        if (faults && (kind == A_ALLOC || kind == A_SET) && prng_chance(r, 1, 3)) o->a[6] = 1 + prng_below(r, 2);
    }
    if (mode == 14 && prng_chance(r, 2, 5)) {
        unsigned x = (unsigned)prng_below(r, 10);
        op_t *o = plan_add(p, x < 6 ? A_SLICE : x < 7 ? A_UNSLICE : A_AT);
        o->a[0] = prng_below(r, 4); o->a[1] = prng_chance(r, 1, 3) ? o->a[0] : prng_below(r, 4);
        o->a[2] = prng_below(r, 24); o->a[3] = prng_below(r, 16); o->a[4] = prng_next(r) >> 8; o->a[5] = prng_next(r) >> 8;
        o->a[7] = 1;
    }
    if (mode == 20) {
        op_t *o = plan_add(p, A_STRAY);
        o->a[0] = prng_below(r, 4); o->a[1] = prng_below(r, 4); o->a[2] = prng_below(r, 13); o->a[3] = prng_below(r, 2); o->a[4] = prng_next(r) >> 8;
    }
}

static const char *a_crash_prop(const plan_t *p, int opkind) { (void)p; (void)opkind; return g_cur_prop; }

const world_t world_array = { "array", a_gen, a_exec, a_opname, a_crash_prop };
