/*
 * World "memc": reference counting under every thread interleaving (C06).
 *
 * K = 2..4 cooperative fibers ("threads"), each with its own shared and weak
 * pointer objects, operate on one or two allocations. The seeded scheduler
 * owns every interleaving: a fiber runs until its next scheduling point --
 * every atomic operation of memory.c (shadowed <stdatomic.h>), sched_yield,
 * every malloc/free of the library, and entry to the clear callback -- and
 * parks; the scheduler decides who runs next. One seed = one schedule.
 *
 * Oracle on the global event sequence (DESIGN.md 4.C06): I1 conservation,
 * I2 never-earlier, I3 a successful lock/share yields memory that stays
 * live, I4 a lock fails only if no owner was stable throughout, I5 final
 * sequential state, I6 linearizability of the ownership projection,
 * I7 bounded liveness, atomic accesses only to live blocks.
 */
#define _GNU_SOURCE
#include "../core/sim.h"

#include "cstl/memory.h"

#include <string.h>
#include <stdlib.h>
#include <ucontext.h>

enum { T_SHARE = 1, T_LOCK, T_RESET, T_WFROM, T_WRESET, T_TOUCH, T_UNIQUE, T_SWAP };

static const char *c_opname(int k)
{
    switch (k) {
    case T_SHARE: return "share"; case T_LOCK: return "lock"; case T_RESET: return "reset"; case T_WFROM: return "weak_from";
    case T_WRESET: return "weak_reset"; case T_TOUCH: return "touch"; case T_UNIQUE: return "unique"; case T_SWAP: return "swap";
    }
    return "?";
}

enum { CF_K, CF_STRAT, CF_SSEED, CF_JUNK, CF_NBLK, CF_INIT0, CF_INIT1, CF_INIT2, CF_INIT3, CF_MAINKEEPS, CF_PCTD, CF_SWITCH_PM, CF_SELFREF, CF_STALL_PM };

#define MAXT 4
#define NOBJ 2                  /* shared and weak pointer objects per task */
#define NBLK 2
#define MAXTOPS 8
#define STACKSZ (128 * 1024)
#define PMAGIC 0x7a7a5a5a7a7a5a5aull

/* ownership state of one shared pointer object, as far as the oracle can know it */
enum { ST_EMPTY, ST_ACQUIRING, ST_OWNS, ST_RELEASING };

struct sobj { cstl_shared_ptr_t p; int st, blk; int known; };      /* known: the owning task's own view of the target (-1 none) */
struct wobj { cstl_weak_ptr_t p; int known; };

struct task {
    ucontext_t ctx;
    int done, in_op, pc, nops;
    op_t ops[MAXTOPS];
    struct sobj sp[NOBJ];
    struct wobj wp[NOBJ];
    unsigned waitset;           /* sched_yield: tasks that must step before this one is eligible again */
    uint64_t stalled_until;     /* fault: the thread is off the processor (preempted, descheduled) until this scheduler step */
    int saved_inlib;
    int prio;
    int last_line;
    uint64_t steps;
    /* in-flight lock: owners that were definite at the invocation and have stayed so */
    int lock_inflight, lock_blk; unsigned lock_stable[2];      /* bitmask over all owner objects */
};

static struct task tk[MAXT];
static char *stacks[MAXT];
static ucontext_t sched_ctx;
static int K, cur = -1, nblk, strat, pctd;
static unsigned switch_pm;
static prng_t sprng;
static const plan_t *gp_plan;
static int sched_pos;
static int pending_violation;
static uint64_t steps, cap, preemptions;
static int last_picked;
static uint64_t pct_change[8];

/* allocations */
static struct sobj root[NBLK];                  /* main's own owners */
static unsigned char *baddr[NBLK]; static int bpayload[NBLK], bbook[NBLK];
static int cleared[NBLK], freed_payload[NBLK], freed_book[NBLK];
static uint64_t evseq;

/* ---------------------------------------------------- linearizability log */

#define MAXHIST 64
struct hop { int kind, blk, res; uint64_t inv, ret; int task; };       /* kind: 'a' acquire-by-share, 'l' lock, 'r' release */
static struct hop hist[MAXHIST];
static int nhist;

uint64_t memc_payload_read(const void *p);
void memc_payload_write(void *p, uint64_t v);

#ifdef SIM_TSAN
/* TSan fiber API: tasks are concurrent "threads" whose only synchronisation is what the library itself does */
void *__tsan_get_current_fiber(void);
void *__tsan_create_fiber(unsigned flags);
void __tsan_destroy_fiber(void *fiber);
void __tsan_switch_to_fiber(void *fiber, unsigned flags);
static void *tsan_main, *tsan_fiber[MAXT];
static int tsan_started[MAXT];
# define TSAN_TO_TASK(t) do { __tsan_switch_to_fiber(tsan_fiber[t], tsan_started[t] ? 1u : 0u); tsan_started[t] = 1; } while (0)
# define TSAN_TO_SCHED(final) __tsan_switch_to_fiber(tsan_main, (final) ? 0u : 1u)
#else
# define TSAN_TO_TASK(t) do { } while (0)
# define TSAN_TO_SCHED(final) do { } while (0)
#endif

#define VIOL(oracle, ...) do { char _k[160]; \
        snprintf(_k, sizeof _k, "C06/%s/%s/%s", oracle, cur >= 0 && tk[cur].in_op ? c_opname(tk[cur].ops[tk[cur].pc].kind) : "sched", g_cur_ctx); \
        sim_violation(_k, __VA_ARGS__); } while (0)

/* ------------------------------------------------------------- fibers */

static void fiber_yield(void)
{
    struct task *t = &tk[cur];
    t->saved_inlib = g_inlib;
    TSAN_TO_SCHED(0);
    swapcontext(&t->ctx, &sched_ctx);
    g_inlib = t->saved_inlib;
}

static void fiber_escape(void)
{
    /* called by sim_violation: leave the fiber for good, the scheduler unwinds the run */
    if (cur >= 0) {
        pending_violation = 1;
        TSAN_TO_SCHED(1);
        swapcontext(&tk[cur].ctx, &sched_ctx);
    }
}

static void abort_in_fiber(int kind)
{
    if (cur < 0) return;
    g_inlib = 0;
    sim_violation(kind == 2 ? "C06/assert/task/-" : "C06/abort/task/-", "the library %s inside a task although every object is moved only by library functions",
                  kind == 2 ? "failed an assertion" : "aborted");
}

/* every owner object has a global index for the stable-owner bitmasks */
static int owner_index(int t, int i) { return t < 0 ? MAXT * NOBJ + i : t * NOBJ + i; }
static struct sobj *owner_obj(int idx) { return idx >= MAXT * NOBJ ? &root[idx - MAXT * NOBJ] : &tk[idx / NOBJ].sp[idx % NOBJ]; }

static void owner_becomes_indefinite(int idx)
{
    int t;
    for (t = 0; t < K; t++) if (tk[t].lock_inflight) tk[t].lock_stable[idx / 32] &= ~(1u << (idx % 32));
}

static unsigned definite_owners(int blk, unsigned out[2])
{
    int idx; unsigned n = 0;
    out[0] = out[1] = 0;
    for (idx = 0; idx < MAXT * NOBJ + NBLK; idx++) {
        struct sobj *o = owner_obj(idx);
        if (idx < MAXT * NOBJ && idx / NOBJ >= K) continue;
        if (o->st == ST_OWNS && o->blk == blk) { out[idx / 32] |= 1u << (idx % 32); n++; }
    }
    return n;
}

/* ----------------------------------------------------------- seam hooks */

static void on_atomic(const char *file, int line, const volatile void *addr, int kind)
{
    int live; size_t off, size; int id;
    (void)file;
    if (cur >= 0) {
        tk[cur].last_line = line;
        fiber_yield();                  /* park *before* the operation; whoever runs next is the scheduler's choice */
    }
    if (cur >= 0) { g_run.opkind = tk[cur].ops[tk[cur].pc].kind; g_run.step = (int)steps; }
    /* the access is imminent now: the block must still be allocated */
    id = simheap_find((const void *)addr, &live, &off, &size);
    if (id < 0 || !live) {
        g_cur_ctx = "freed-bookkeeping";
        VIOL("atomic_on_freed_block", "atomic operation (memory.c:%d, kind %c) on memory that is not inside a live allocation (block #%d)", line, kind, id);
    }
    evseq++;
    EVT("atomic", cur + 1, line, kind);
}

static int on_yield(void)
{
    if (cur >= 0) {
        int t; unsigned w = 0;
        for (t = 0; t < K; t++) if (t != cur && !tk[t].done) w |= 1u << t;
        tk[cur].waitset = w;            /* back of the run queue: everyone else steps first */
        PROBE("sched_yield_executed");
        EVT("yield", cur + 1, 0, 0);
        fiber_yield();
    } else {
        /* main context (setup or epilogue): no task is running, so library code that yields waits for itself */
        static unsigned solo; static uint64_t solo_run = (uint64_t)-1;
        if (solo_run != (uint64_t)g_run.run_index) { solo_run = (uint64_t)g_run.run_index; solo = 0; }
        if (++solo > 1000) { g_inlib = 0; g_cur_ctx = "liveness"; VIOL("no_progress", "library code yielded the processor 1000 times outside any task (setup or epilogue): it waits for itself"); }
    }
    return 0;
}

static void on_alloc_point(int kind, const void *addr)
{
    (void)addr;
    if (cur >= 0) { EVT("allocpoint", cur + 1, kind, 0); fiber_yield(); }
}

static void on_free(int id, void *ptr)
{
    int b;
    (void)ptr;
    evseq++;
    for (b = 0; b < nblk; b++) {
        if (id == bpayload[b]) {
            if (!cleared[b]) { g_cur_ctx = "payload"; VIOL("freed_before_clear", "managed memory of allocation %d released before its clear callback ran", b); }
            freed_payload[b]++;
            EVT("free_payload", cur + 1, b, 0);
        } else if (id == bbook[b]) {
            freed_book[b]++;
            if (!freed_payload[b]) { g_cur_ctx = "bookkeeping"; VIOL("bookkeeping_freed_before_payload", "bookkeeping block of allocation %d released while the managed memory is still allocated", b); }
            EVT("free_book", cur + 1, b, 0);
        }
    }
}

/* an allocation may keep a weak back-reference to itself; its clear callback (which runs in whichever thread drops the
 * last owner) then tries to lock through it - that must fail, the last owner is gone - and drops it */
static cstl_weak_ptr_t backref[NBLK]; static int has_backref[NBLK];

static void clear_common(int b, void *ptr)
{
    CB_ENTER();
    unsigned own[2];
    if (cur >= 0) fiber_yield();        /* the clear callback is an observable event of its own */
    evseq++;
    EVT("clear", cur + 1, b, 0);
    if (ptr != baddr[b]) { g_cur_ctx = "clear"; VIOL("clear_wrong_memory", "clear callback of allocation %d invoked on other memory", b); }
    if (cleared[b]) { g_cur_ctx = "clear"; VIOL("cleared_twice", "the clear callback of allocation %d ran twice", b); }
    if (!simheap_is_live(ptr) || memc_payload_read(ptr) != PMAGIC + (uint64_t)b) { g_cur_ctx = "clear"; VIOL("clear_after_free", "clear callback ran on released or overwritten memory"); }
    /* never earlier: no shared pointer for which share/lock has returned success and whose reset has not been invoked */
    if (definite_owners(b, own)) {
        g_cur_ctx = "clear";
        VIOL("cleared_while_owned", "the clear callback of allocation %d ran while a shared pointer that definitely owns it exists (owner mask %x%08x)", b, own[1], own[0]);
    }
    cleared[b] = 1;
    if (has_backref[b]) {
        cstl_shared_ptr_t tmp; const void *got;
        has_backref[b] = 0;
        cstl_shared_ptr_init(&tmp);
        g_inlib = 1; cstl_weak_ptr_lock(&backref[b], &tmp); got = cstl_shared_ptr_get_const(&tmp); g_inlib = 0;
        if (got != NULL) { g_cur_ctx = "clear"; VIOL("lock_yields_dead_memory", "a lock through the allocation's own weak back-reference, made from its clear callback, yielded an owner"); }
        g_inlib = 1; cstl_shared_ptr_reset(&tmp); cstl_weak_ptr_reset(&backref[b]); g_inlib = 0;
        PROBE("clear_callback_locks_back_reference");
    }
    CB_LEAVE();
}
static void clear0(void *p, void *q) { (void)q; clear_common(0, p); }
static void clear1(void *p, void *q) { (void)q; clear_common(1, p); }

/* ----------------------------------------------------------- operations */

static int hist_begin(int kind, int blk, int task)
{
    if (nhist >= MAXHIST) return -1;
    hist[nhist].kind = kind; hist[nhist].blk = blk; hist[nhist].task = task; hist[nhist].inv = ++evseq; hist[nhist].ret = 0; hist[nhist].res = 0;
    return nhist++;
}
static void hist_end(int h, int res) { if (h >= 0) { hist[h].ret = ++evseq; hist[h].res = res; } }

/* destination object d (of task t, index i) is about to be reset by the operation */
static int begin_release(int t, int i)
{
    struct sobj *d = t < 0 ? &root[i] : &tk[t].sp[i];
    int h = -1;
    if (d->st == ST_OWNS) {
        d->st = ST_RELEASING;
        owner_becomes_indefinite(owner_index(t, i));
        h = hist_begin('r', d->blk, t);
    }
    return h;
}

static void run_op(int t, const op_t *o)
{
    struct task *T = &tk[t];
    int i = (int)(o->a[1] % NOBJ), j = (int)(o->a[2] % NOBJ);
    int hr, ha;
    g_cur_ctx = "task";
    switch (o->kind) {
    case T_SHARE: {            /* share(own sp[i] -> own sp[j]) */
        struct sobj *s = &T->sp[i], *d = &T->sp[j];
        int blk = s->known;
        if (i == j) j = (i + 1) % NOBJ, d = &T->sp[j];
        EVT("inv_share", t + 1, i, j);
        hr = begin_release(t, j);
        ha = blk >= 0 ? hist_begin('a', blk, t) : -1;
        if (blk >= 0) { if (d->st != ST_RELEASING) d->st = ST_ACQUIRING; }
        g_inlib = 1; cstl_shared_ptr_share(&s->p, &d->p); g_inlib = 0;
        hist_end(hr, 1);
        if (blk >= 0) {
            /* a share from an owner this task holds always succeeds; the memory must still be live */
            if (cleared[blk]) VIOL("share_yields_dead_memory", "share from a live owner returned after the clear callback of allocation %d had already run", blk);
            d->st = ST_OWNS; d->blk = blk; d->known = blk;
            hist_end(ha, 1);
            PROBE("c06_share");
        } else { d->st = ST_EMPTY; d->known = -1; }
        EVT("ret_share", t + 1, j, blk + 1);
        break;
    }
    case T_LOCK: {             /* lock(own wp[i] -> own sp[j]) */
        struct wobj *w = &T->wp[i]; struct sobj *d = &T->sp[j];
        int blk = w->known, got;
        EVT("inv_lock", t + 1, i, j);
        hr = begin_release(t, j);
        ha = -1;
        if (blk >= 0) {
            T->lock_blk = blk; definite_owners(blk, T->lock_stable); T->lock_inflight = 1;
            ha = hist_begin('l', blk, t);
            if (d->st != ST_RELEASING) { d->st = ST_ACQUIRING; d->blk = blk; }
        }
        g_inlib = 1; cstl_weak_ptr_lock(&w->p, &d->p); g_inlib = 0;
        hist_end(hr, 1);
        got = cstl_shared_ptr_get_const(&d->p) != NULL;
        T->lock_inflight = 0;
        if (blk < 0) {
            if (got) VIOL("lock_from_empty", "lock of an empty weak pointer produced an owner");
            d->st = ST_EMPTY; d->known = -1;
        } else if (got) {
            /* yields live memory that stays live until that owner is reset */
            if (cleared[blk]) { g_cur_ctx = "lock-vs-last-reset"; VIOL("lock_yields_dead_memory", "lock returned an owner of allocation %d after its clear callback had already run", blk); }
            if (cstl_shared_ptr_get_const(&d->p) != baddr[blk]) VIOL("lock_wrong_memory", "lock returned an owner of other memory");
            d->st = ST_OWNS; d->blk = blk; d->known = blk;
            hist_end(ha, 1);
            PROBE("c06_lock_success");
        } else {
            /* may fail only if no single definite owner was stable over the whole call */
            if (T->lock_stable[0] | T->lock_stable[1]) {
                g_cur_ctx = "lock-with-stable-owner";
                VIOL("lock_failed_with_owner", "lock of allocation %d failed although a shared pointer owned it during the whole call (mask %x%08x)", blk, T->lock_stable[1], T->lock_stable[0]);
            }
            d->st = ST_EMPTY; d->known = -1;
            hist_end(ha, 0);
            PROBE("c06_lock_fail");
            if (cleared[blk]) PROBE("c06_lock_after_death");
        }
        EVT("ret_lock", t + 1, j, got);
        break;
    }
    case T_RESET: {
        struct sobj *d = &T->sp[i];
        EVT("inv_reset", t + 1, i, 0);
        hr = begin_release(t, i);
        g_inlib = 1; cstl_shared_ptr_reset(&d->p); g_inlib = 0;
        hist_end(hr, 1);
        d->st = ST_EMPTY; d->known = -1;
        EVT("ret_reset", t + 1, i, 0);
        break;
    }
    case T_WFROM: {            /* weak_from(own wp[i], own sp[j]) */
        struct wobj *w = &T->wp[i]; struct sobj *s = &T->sp[j];
        EVT("inv_wfrom", t + 1, i, j);
        g_inlib = 1; cstl_weak_ptr_from(&w->p, &s->p); g_inlib = 0;
        w->known = s->known;
        EVT("ret_wfrom", t + 1, i, w->known + 1);
        break;
    }
    case T_WRESET: {
        struct wobj *w = &T->wp[i];
        EVT("inv_wreset", t + 1, i, 0);
        g_inlib = 1; cstl_weak_ptr_reset(&w->p); g_inlib = 0;
        w->known = -1;
        EVT("ret_wreset", t + 1, i, 0);
        break;
    }
    case T_TOUCH: {            /* get, then read the managed memory: the access that becomes a use-after-free */
        struct sobj *d = &T->sp[i];
        const uint64_t *p;
        g_inlib = 1; p = cstl_shared_ptr_get_const(&d->p); g_inlib = 0;
        if (d->known >= 0) {
            if (p != (const void *)baddr[d->known]) VIOL("get_wrong", "get of an owner does not return the allocation's address");
            if (!simheap_is_live(p) || memc_payload_read(p) != PMAGIC + (uint64_t)d->known) {
                g_cur_ctx = "use-after-free";
                VIOL("owner_sees_dead_memory", "an owner read its managed memory and found it released or overwritten (allocation %d)", d->known);
            }
            PROBE("c06_touch_owned");
        } else if (p != NULL) VIOL("get_wrong", "get of an empty pointer is not NULL");
        EVT("touch", t + 1, i, d->known + 1);
        break;
    }
    case T_UNIQUE: {
        struct sobj *d = &T->sp[i]; bool u;
        g_inlib = 1; u = cstl_shared_ptr_unique(&d->p); g_inlib = 0;
        if (d->known < 0 && !u) VIOL("unique_empty", "unique() of an empty pointer is false");
        /* with other references existing only in other tasks the answer depends on the interleaving: recorded, not judged here */
        EVT("unique", t + 1, i, 0);
        (void)u;
        break;
    }
    case T_SWAP: {
        struct sobj *a = &T->sp[0], *b = &T->sp[1]; struct sobj tmp;
        g_inlib = 1; cstl_shared_ptr_swap(&a->p, &b->p); g_inlib = 0;
        /* ownership moves with the value; the objects stay where they are */
        tmp.st = a->st; tmp.blk = a->blk; tmp.known = a->known;
        a->st = b->st; a->blk = b->blk; a->known = b->known;
        b->st = tmp.st; b->blk = tmp.blk; b->known = tmp.known;
        /* a swap changes which object is the owner: in-flight locks lose both as stable witnesses */
        owner_becomes_indefinite(owner_index(t, 0)); owner_becomes_indefinite(owner_index(t, 1));
        EVT("swap", t + 1, 0, 0);
        break;
    }
    default: break;
    }
}

static void task_main(int t)
{
    struct task *T = &tk[t];
    for (T->pc = 0; T->pc < T->nops; T->pc++) {
        T->in_op = 1;
        run_op(t, &T->ops[T->pc]);
        T->in_op = 0;
    }
    T->done = 1;
    TSAN_TO_SCHED(1);          /* "join": everything the task did happens-before what main does next */
    swapcontext(&T->ctx, &sched_ctx);
    for (;;) swapcontext(&T->ctx, &sched_ctx);  /* never resumed */
}

/* ------------------------------------------------------------ scheduler */

static unsigned stall_pm; static uint64_t stall_budget;

static int pick_next(void)
{
    int t, n = 0, el[MAXT], r = 0, runnable = 0; unsigned stalled = 0;
    /* fault: a stalled thread. With a small probability per step a thread that is inside an operation is taken off
     * the processor for 5..400 scheduler steps (a preempted lock holder: whoever waits for it spins and yields in
     * vain, dozens of times in a row - a yielding thread does not wait for a stalled one). Bounded per run. */
    if (stall_pm && stall_budget > 0 && gp_plan->nsched == 0 && prng_below(&sprng, 1000) < stall_pm) {
        int cand[MAXT], nc = 0;
        for (t = 0; t < K; t++) if (!tk[t].done && tk[t].in_op && tk[t].stalled_until <= steps) cand[nc++] = t;
        if (nc > 0) {
            uint64_t d = 5 + prng_below(&sprng, prng_chance(&sprng, 1, 2) ? 396 : 30);
            if (d > stall_budget) d = stall_budget;
            t = cand[prng_below(&sprng, (uint64_t)nc)];
            tk[t].stalled_until = steps + d; stall_budget -= d;
            PROBE("fault_thread_stalled"); if (d >= 150) PROBE("fault_thread_stalled_150_steps_or_more");
            EVT("stall", t + 1, d, 0);
        }
    }
    for (t = 0; t < K; t++) if (!tk[t].done && tk[t].stalled_until > steps) stalled |= 1u << t;
    for (t = 0; t < K; t++) if (!tk[t].done) { runnable++; if ((tk[t].waitset & ~stalled) == 0 && !(stalled >> t & 1)) el[n++] = t; }
    if (runnable == 0) return -1;
    if (n == 0) {
        /* everyone is stalled or waiting for someone: the stall with the earliest end is over now; if nobody is
         * stalled, everyone is waiting for someone, so nobody is */
        int first = -1;
        for (t = 0; t < K; t++) if (stalled >> t & 1) if (first < 0 || tk[t].stalled_until < tk[first].stalled_until) first = t;
        if (first >= 0 && (tk[first].waitset & ~stalled & ~(1u << first)) == 0) { tk[first].stalled_until = 0; el[n++] = first; }
        else {
            for (t = 0; t < K; t++) { tk[t].waitset = 0; tk[t].stalled_until = 0; }
            for (t = 0; t < K; t++) if (!tk[t].done) el[n++] = t;
        }
    }
    if (gp_plan->nsched > 0) {
        /* explicit schedule (replay / shrinking); beyond its end: round robin */
        if (sched_pos < gp_plan->nsched) {
            int want = gp_plan->sched[sched_pos++];
            for (t = 0; t < n; t++) if (el[t] == want) return want;
        }
        for (t = 0; t < n; t++) if (el[t] > last_picked) return el[t];
        return el[0];
    }
    switch (strat) {
    default:
    case 0: r = el[prng_below(&sprng, (uint64_t)n)]; break;
    case 1: {                   /* PCT-style: highest priority runs; d priority-change points */
        int best = el[0], c;
        for (c = 0; c < pctd && c < 8; c++) if (pct_change[c] == steps && last_picked >= 0) tk[last_picked].prio = -(int)(c + 1);
        for (t = 1; t < n; t++) if (tk[el[t]].prio > tk[best].prio) best = el[t];
        r = best;
        break;
    }
    case 2: {                   /* keep running the same task, switch with probability switch_pm/1000 */
        int same = -1;
        for (t = 0; t < n; t++) if (el[t] == last_picked) same = last_picked;
        if (same >= 0 && prng_below(&sprng, 1000) >= switch_pm) r = same;
        else r = el[prng_below(&sprng, (uint64_t)n)];
        break;
    }
    }
    return r;
}

static void run_tasks(void)
{
    int t, u;
    last_picked = -1;
    for (;;) {
        t = pick_next();
        if (t < 0) break;
        if (++steps > cap) {
            int spin = -1;
            for (u = 0; u < K; u++) if (!tk[u].done) spin = u;
            g_cur_ctx = "liveness";
            cur = -1;
            VIOL("no_progress", "tasks still running after %llu scheduler steps (cap %llu); task %d is at memory.c:%d", (unsigned long long)steps, (unsigned long long)cap, spin, spin >= 0 ? tk[spin].last_line : 0);
        }
        if (g_nsched_trace < MAXSCHED) g_sched_trace[g_nsched_trace++] = t;
        if (last_picked >= 0 && last_picked != t && tk[last_picked].in_op && !tk[last_picked].done) preemptions++;
        for (u = 0; u < K; u++) tk[u].waitset &= ~(1u << t);    /* t steps now */
        last_picked = t;
        g_run.statehash = fnv1a(g_run.statehash, (uint64_t)t * 1000 + (uint64_t)tk[t].last_line);
        cur = t; tk[t].steps++;
        TSAN_TO_TASK(t);
        swapcontext(&sched_ctx, &tk[t].ctx);
        cur = -1;
        g_inlib = 0;
        if (pending_violation) _longjmp(g_run_jmp, 1);
        {   /* abstract state for the coverage measure only: raw counters of the bookkeeping blocks + program counters */
            uint64_t sh = 0xc06; int b;
            for (b = 0; b < nblk; b++) {
                void *bk = simheap_id_ptr(bbook[b]);
                if (bk && simheap_id_live(bbook[b])) { uint64_t v[2]; memcpy(v, bk, 16); sh = fnv1a(sh, v[0] * 64 + v[1]); sh = fnv1a(sh, ((unsigned char *)bk)[16]); }
                else sh = fnv1a(sh, 0xdead);
                sh = fnv1a(sh, (uint64_t)cleared[b]);
            }
            for (u = 0; u < K; u++) sh = fnv1a(sh, (uint64_t)tk[u].pc * 1000 + (uint64_t)(tk[u].in_op ? tk[u].last_line : 0));
            state_note(sh);
        }
    }
}

/* ------------------------------------------- I6: Wing-Gong linearizability */

/*
 * History of the ownership projection of one allocation: acquire-by-share
 * ('a', always succeeds, needs owners >= 1), lock ('l', succeeds iff owners
 * >= 1), release ('r', owners - 1; the operation that brings it to 0 is the
 * death of the allocation, after which nothing can succeed). Search for a
 * linearization consistent with real-time order.
 */
static int lin_n, lin_idx[MAXHIST];
static unsigned char lin_done[MAXHIST];
static uint64_t lin_budget;

static int lin_search(int remaining, int owners)
{
    int a, b;
    if (remaining == 0) return 1;
    if (lin_budget-- == 0) return -1;
    for (a = 0; a < lin_n; a++) {
        struct hop *h = &hist[lin_idx[a]];
        int minimal = 1, next = owners, ok = 1, r;
        if (lin_done[a]) continue;
        /* h may go first only if no other pending operation returned before h was invoked */
        for (b = 0; b < lin_n; b++) if (!lin_done[b] && b != a && hist[lin_idx[b]].ret && hist[lin_idx[b]].ret < h->inv) { minimal = 0; break; }
        if (!minimal) continue;
        switch (h->kind) {
        case 'a': ok = owners >= 1; next = owners + 1; break;
        case 'l': if (h->res) { ok = owners >= 1; next = owners + 1; } else { ok = owners == 0; } break;
        case 'r': ok = owners >= 1; next = owners - 1; break;
        }
        if (!ok) continue;
        lin_done[a] = 1;
        r = lin_search(remaining - 1, next);
        lin_done[a] = 0;
        if (r != 0) return r;
    }
    return 0;
}

static void check_linearizable(int blk, int initial_owners)
{
    int i, r;
    lin_n = 0;
    for (i = 0; i < nhist; i++) if (hist[i].blk == blk && hist[i].ret) lin_idx[lin_n++] = i;
    if (lin_n == 0 || lin_n > 24) return;
    memset(lin_done, 0, sizeof lin_done);
    lin_budget = 2000000;
    r = lin_search(lin_n, initial_owners);
    if (r < 0) { PROBE("c06_lin_budget_exhausted"); return; }
    PROBE("c06_lin_checked");
    if (r == 0) {
        g_cur_ctx = "linearizability";
        VIOL("not_linearizable", "the recorded share/lock/reset results on allocation %d (%d operations, %d initial owners) admit no sequential order consistent with real time", blk, lin_n, initial_owners);
    }
}

/* ---------------------------------------------------------------- exec */

static void set_owner(struct sobj *o, int blk) { o->st = blk >= 0 ? ST_OWNS : ST_EMPTY; o->blk = blk; o->known = blk; }

static void c_exec(const plan_t *p)
{
    struct simheap_cfg hc = { RP_MOVE, 0, (unsigned char)p->cfg[CF_JUNK] };
    int t, i, b, k, totalops = 0, initial_owners[NBLK];

    simheap_reset(&hc, p->cfg[CF_JUNK]);
    gp_plan = p;
    K = (int)p->cfg[CF_K]; if (K < 2) K = 2; if (K > MAXT) K = MAXT;
    strat = (int)(p->cfg[CF_STRAT] % 3); pctd = (int)(p->cfg[CF_PCTD] % 4);
    switch_pm = (unsigned)(p->cfg[CF_SWITCH_PM] % 1001);
    nblk = (int)p->cfg[CF_NBLK]; if (nblk < 1) nblk = 1; if (nblk > NBLK) nblk = NBLK;
    prng_seed(&sprng, p->cfg[CF_SSEED]);
    cur = -1; pending_violation = 0; steps = 0; preemptions = 0; sched_pos = 0; evseq = 0; nhist = 0;
    g_nsched_trace = 0;
    g_cur_prop = "C06"; g_cur_ctx = "setup";
    g_atomic_hook = on_atomic; g_yield_hook = on_yield; g_sched_point = on_alloc_point; g_free_hook = on_free;
    g_fiber_escape = fiber_escape; g_abort_in_fiber = abort_in_fiber;

    memset(cleared, 0, sizeof cleared); memset(freed_payload, 0, sizeof freed_payload); memset(freed_book, 0, sizeof freed_book);
    for (t = 0; t < MAXT; t++) {
        struct task *T = &tk[t];
        T->done = t >= K; T->in_op = 0; T->pc = 0; T->nops = 0; T->waitset = 0; T->stalled_until = 0; T->saved_inlib = 0; T->steps = 0; T->last_line = 0;
        T->lock_inflight = 0; T->prio = 0;
        for (i = 0; i < NOBJ; i++) { cstl_shared_ptr_init(&T->sp[i].p); set_owner(&T->sp[i], -1); cstl_weak_ptr_init(&T->wp[i].p); T->wp[i].known = -1; }
    }
    /* scripts */
    for (k = 0; k < p->nops; k++) {
        t = (int)(p->ops[k].a[0] % (uint64_t)K);
        if (tk[t].nops < MAXTOPS) { tk[t].ops[tk[t].nops++] = p->ops[k]; totalops++; }
    }
    /* allocations and the initial reference configuration (main context: no scheduling) */
    for (b = 0; b < NBLK; b++) { cstl_shared_ptr_init(&root[b].p); set_owner(&root[b], -1); bpayload[b] = bbook[b] = -1; baddr[b] = NULL; }
    for (b = 0; b < nblk; b++) {
        int e, n = 0, ids[4];
        simheap_op_begin();
        g_inlib = 1; cstl_shared_ptr_alloc(&root[b].p, 16, b == 0 ? clear0 : clear1); g_inlib = 0;
        baddr[b] = cstl_shared_ptr_get(&root[b].p);
        if (baddr[b] == NULL) sim_harness_bug("memc: setup allocation failed");
        for (e = 0; e < g_nhev; e++) if (g_hev[e].kind == 'A' && n < 4) ids[n++] = g_hev[e].id;
        for (e = 0; e < n; e++) { if (ids[e] == simheap_id(baddr[b])) bpayload[b] = ids[e]; else bbook[b] = ids[e]; }
        memc_payload_write(baddr[b], PMAGIC + (uint64_t)b);
        set_owner(&root[b], b);
        cstl_weak_ptr_init(&backref[b]); has_backref[b] = 0;
        if (p->cfg[CF_SELFREF] >> b & 1) { g_inlib = 1; cstl_weak_ptr_from(&backref[b], &root[b].p); g_inlib = 0; has_backref[b] = 1; }
    }
    for (t = 0; t < K; t++) {
        uint64_t bits = p->cfg[CF_INIT0 + t];
        for (i = 0; i < NOBJ; i++) {
            int st = (int)(bits >> (i * 2) & 3), wt = (int)(bits >> (4 + i * 2) & 3);
            if (st >= 1 && st <= nblk) { g_inlib = 1; cstl_shared_ptr_share(&root[st - 1].p, &tk[t].sp[i].p); g_inlib = 0; set_owner(&tk[t].sp[i], st - 1); }
            if (wt >= 1 && wt <= nblk) { g_inlib = 1; cstl_weak_ptr_from(&tk[t].wp[i].p, &root[wt - 1].p); g_inlib = 0; tk[t].wp[i].known = wt - 1; }
        }
    }
    for (b = 0; b < nblk; b++) {
        if (!(p->cfg[CF_MAINKEEPS] >> b & 1)) {
            /* main lets go before the tasks start; if nobody else owns it, the allocation dies right here */
            root[b].st = ST_RELEASING;
            g_inlib = 1; cstl_shared_ptr_reset(&root[b].p); g_inlib = 0;
            set_owner(&root[b], -1);
        }
        { unsigned own[2]; initial_owners[b] = (int)definite_owners(b, own); }
        if (initial_owners[b] == 0) PROBE("c06_starts_dead"); else if (initial_owners[b] == 1) PROBE("c06_starts_with_one_owner");
    }
    /* PCT parameters */
    for (t = 0; t < K; t++) tk[t].prio = (int)prng_below(&sprng, 1000) + 10;
    for (i = 0; i < 8; i++) pct_change[i] = 1 + prng_below(&sprng, (uint64_t)(totalops * 8 + 8));

    /* fibers */
    for (t = 0; t < K; t++) {
        if (!stacks[t]) { stacks[t] = malloc(STACKSZ); if (!stacks[t]) sim_harness_bug("memc: no stack"); }
        getcontext(&tk[t].ctx);
        tk[t].ctx.uc_stack.ss_sp = stacks[t]; tk[t].ctx.uc_stack.ss_size = STACKSZ; tk[t].ctx.uc_link = &sched_ctx;
        makecontext(&tk[t].ctx, (void (*)(void))task_main, 1, t);
#ifdef SIM_TSAN
        if (!tsan_main) tsan_main = __tsan_get_current_fiber();
        if (tsan_fiber[t]) __tsan_destroy_fiber(tsan_fiber[t]);
        tsan_fiber[t] = __tsan_create_fiber(0); tsan_started[t] = 0;
#endif
    }
    stall_pm = (unsigned)p->cfg[CF_STALL_PM]; stall_budget = stall_pm ? 800 : 0;
    cap = 64 * (uint64_t)(totalops + K) + 64 + 2 * stall_budget;
    /* the interleaving hash starts from the scenario (everything but the scheduler's own parameters) */
    g_run.statehash = 0xcbf29ce484222325ull;
    g_run.statehash = fnv1a(g_run.statehash, (uint64_t)K * 4 + (uint64_t)nblk);
    for (t = 0; t < K; t++) g_run.statehash = fnv1a(g_run.statehash, p->cfg[CF_INIT0 + t]);
    g_run.statehash = fnv1a(g_run.statehash, p->cfg[CF_MAINKEEPS]);
    for (k = 0; k < p->nops; k++) g_run.statehash = fnv1a(g_run.statehash, (uint64_t)p->ops[k].kind * 64 + (p->ops[k].a[0] % 4) * 16 + (p->ops[k].a[1] % 2) * 2 + (p->ops[k].a[2] % 2));
    g_cur_ctx = "task";
    run_tasks();
    g_run.steps = steps;

    /* I6 before the epilogue changes anything */
    for (b = 0; b < nblk; b++) check_linearizable(b, initial_owners[b]);

    /* epilogue (main, sequential): everything lets go; the sequential model must hold exactly */
    g_cur_ctx = "epilogue"; cur = -1;
    for (t = 0; t < K; t++) for (i = 0; i < NOBJ; i++) {
        if (tk[t].sp[i].st == ST_OWNS) tk[t].sp[i].st = ST_RELEASING;
        g_inlib = 1; cstl_shared_ptr_reset(&tk[t].sp[i].p); cstl_weak_ptr_reset(&tk[t].wp[i].p); g_inlib = 0;
        set_owner(&tk[t].sp[i], -1);
    }
    for (b = 0; b < nblk; b++) {
        if (root[b].st == ST_OWNS) root[b].st = ST_RELEASING;
        g_inlib = 1; cstl_shared_ptr_reset(&root[b].p); g_inlib = 0;
        set_owner(&root[b], -1);
    }
    for (b = 0; b < nblk; b++) {
        if (cleared[b] != 1) VIOL("never_cleared", "after every pointer was reset the clear callback of allocation %d has run %d times", b, cleared[b]);
        if (freed_payload[b] != 1) VIOL("payload_leak", "after every pointer was reset the managed memory of allocation %d was released %d times", b, freed_payload[b]);
        if (freed_book[b] != 1) VIOL("bookkeeping_leak", "after every pointer was reset the bookkeeping block of allocation %d was released %d times", b, freed_book[b]);
    }
    if (simheap_live_count(TAG_LIB) != 0) VIOL("leak", "%u library blocks still allocated at the end", simheap_live_count(TAG_LIB));
    simheap_audit("C06", "memc-end");

    g_atomic_hook = NULL; g_yield_hook = NULL; g_sched_point = NULL; g_free_hook = NULL; g_fiber_escape = NULL; g_abort_in_fiber = NULL;
    g_run.nontrivial = preemptions >= 1;
    if (preemptions) PROBE_N("preempt", preemptions);
}

/* -------------------------------------------------------------- generate */

static void c_gen(prng_t *r, int mode, plan_t *p)
{
    int scenario = (int)prng_below(r, 9);
    int K_ = scenario >= 6 ? 3 + (int)prng_below(r, 2) : 2 + (prng_chance(r, 1, 3) ? (int)prng_below(r, 3) : 0);
    int nb = prng_chance(r, 1, 4) ? 2 : 1;
    int t, i;
    (void)mode;
    if (scenario >= 6) nb = 1;
    p->cfg[CF_K] = (uint64_t)K_;
    p->cfg[CF_STRAT] = prng_below(r, 3);
    p->cfg[CF_SSEED] = prng_next(r);
    p->cfg[CF_JUNK] = 1 + prng_below(r, 254);
    p->cfg[CF_NBLK] = (uint64_t)nb;
    p->cfg[CF_PCTD] = prng_below(r, 4);
    p->cfg[CF_SWITCH_PM] = 50 + prng_below(r, 600);
    p->cfg[CF_SELFREF] = prng_chance(r, 1, 3) ? 1 + prng_below(r, 3) : 0;
    p->cfg[CF_STALL_PM] = prng_chance(r, 1, 3) ? 5 + prng_below(r, 60) : 0;
    p->cfg[CF_MAINKEEPS] = prng_chance(r, 1, 5) ? prng_below(r, 4) : 0;
    if (scenario >= 6) {
        /* the canonical race family, one operation per thread: `nown` owners each reset, everybody else locks a
         * weak reference (and then looks at what it got). With four threads: two resets racing two lockers. */
        int nown = 1 + (int)prng_below(r, (uint64_t)(K_ - 1));
        p->cfg[CF_MAINKEEPS] = 0;
        for (t = 0; t < K_; t++) {
            op_t *o;
            if (t < nown) {
                p->cfg[CF_INIT0 + t] = 1;                      /* sp0 owns A */
                o = plan_add(p, T_RESET); o->a[0] = (uint64_t)t; o->a[1] = 0;
            } else {
                p->cfg[CF_INIT0 + t] = 1 << 4;                 /* wp0 refers to A */
                o = plan_add(p, T_LOCK); o->a[0] = (uint64_t)t; o->a[1] = 0; o->a[2] = 0;
                if (prng_chance(r, 2, 3)) { o = plan_add(p, T_TOUCH); o->a[0] = (uint64_t)t; o->a[1] = 0; }
                if (prng_chance(r, 1, 3)) { o = plan_add(p, T_RESET); o->a[0] = (uint64_t)t; o->a[1] = 0; }
            }
        }
        return;
    }
    /* initial references: owners are scarce (the interesting races are around the last one), weak references plentiful */
    for (t = 0; t < K_; t++) {
        uint64_t bits = 0;
        for (i = 0; i < NOBJ; i++) {
            unsigned own = scenario == 0 ? (t == 0 && i == 0) : prng_chance(r, 1, 3);
            unsigned weak = scenario == 0 ? (t != 0 || i != 0) : prng_chance(r, 2, 3);
            if (own) bits |= (uint64_t)(1 + prng_below(r, (uint64_t)nb)) << (i * 2);
            if (weak) bits |= (uint64_t)(1 + prng_below(r, (uint64_t)nb)) << (4 + i * 2);
        }
        p->cfg[CF_INIT0 + t] = bits;
    }
    for (t = 0; t < K_; t++) {
        int n = 1 + (int)prng_below(r, K_ > 2 ? 4 : 6);
        for (i = 0; i < n; i++) {
            unsigned x = (unsigned)prng_below(r, 100);
            int kind = x < 28 ? T_LOCK : x < 50 ? T_RESET : x < 62 ? T_SHARE : x < 72 ? T_TOUCH : x < 80 ? T_WFROM : x < 88 ? T_WRESET : x < 94 ? T_UNIQUE : T_SWAP;
            op_t *o = plan_add(p, kind);
            o->a[0] = (uint64_t)t; o->a[1] = prng_below(r, NOBJ); o->a[2] = prng_below(r, NOBJ);
        }
    }
}

static const char *c_crash_prop(const plan_t *p, int opkind) { (void)p; (void)opkind; return "C06"; }

const world_t world_memc = { "memc", c_gen, c_exec, c_opname, c_crash_prop };
