/*
 * World "vector": cstl_vector (C09), allocation failure (C16).
 * mode 9: histories with realloc failure / move policy / finite memory / boundary sizes;
 * mode 16: systematic allocation-failure enumeration.
 */
#include "../core/sim.h"

#include "cstl/vector.h"

#include <string.h>
#include <stdlib.h>

enum { V_RESIZE = 1, V_RESERVE, V_SHRINK, V_CLEAR, V_SWAP, V_SORT, V_REVERSE, V_WRITE, V_AT, V_SEARCH, V_FIND, V_CHURN, V_SWAPDIFF };

static const char *v_opname(int k)
{
    switch (k) {
    case V_RESIZE: return "resize"; case V_RESERVE: return "reserve"; case V_SHRINK: return "shrink_to_fit";
    case V_CLEAR: return "clear"; case V_SWAP: return "swap"; case V_SORT: return "sort";
    case V_REVERSE: return "reverse"; case V_WRITE: return "write"; case V_AT: return "at";
    case V_SEARCH: return "search"; case V_FIND: return "find"; case V_CHURN: return "churn"; case V_SWAPDIFF: return "swap";
    }
    return "?";
}

enum { CF_NV, CF_ES, CF_JUNK, CF_RPOLICY, CF_BUDGET, CF_XTOR0, CF_XTOR1, CF_MAXN };

#define NV 2
#define MAXN 70100
#define UNKNOWN 0xffffffffu

typedef unsigned __int128 u128;

struct mvec {
    int slot;                   /* which library struct currently holds this vector */
    int has_cons, has_dest;
    size_t n;
    uint32_t tag[MAXN];         /* UNKNOWN = never written (no constructor) */
};

static cstl_vector_t vec[NV];
static struct mvec mv[NV];      /* mv[j] describes the vector whose priv is &mv[j] */
static int holder[NV];          /* holder[slot] = j: which model sits in library struct `slot` */
static int nv, mode_g;
static size_t es, maxn;
static uint64_t budget;
static uint32_t next_tag, tagmask;
static unsigned maxreach;

#define PROP() (mode_g == 16 ? "C16" : mode_g == 11 ? "C11" : "C09")
#define VIOL(oracle, ...) do { char _k[128]; \
        snprintf(_k, sizeof _k, "%s/%s/%s/%s", PROP(), oracle, v_opname(g_run.opkind), g_cur_ctx); \
        sim_violation(_k, __VA_ARGS__); } while (0)

/* element bytes are a pure function of the tag */
static void fill(unsigned char *b, uint32_t tag)
{
    size_t k;
    for (k = 0; k < es; k++) b[k] = (unsigned char)(k < 3 ? tag >> (8 * k) : (tag * 2654435761u >> ((k & 3) * 8)) ^ (k * 37));
}

static uint32_t untag(const unsigned char *b)
{
    uint32_t t = b[0];
    if (es > 1) t |= (uint32_t)b[1] << 8;
    if (es > 2) t |= (uint32_t)b[2] << 16;
    return t;
}

static int elem_is(const unsigned char *b, uint32_t tag)
{
    unsigned char tmp[64];
    fill(tmp, tag);
    return memcmp(tmp, b, es) == 0;
}

static uint32_t fresh_tag(void) { next_tag = (next_tag + 1) & tagmask; return next_tag; }

/* ------------------------------------------------------------- callbacks */

#define MAXX (MAXN + 8)
static size_t cons_log[MAXX], dest_log[MAXX];
static int ncons, ndest, xtor_bad;

static size_t slot_of(struct mvec *m, void *obj)
{
    unsigned char *base = cstl_vector_data(&vec[m->slot]);
    size_t off;
    if (base == NULL || (unsigned char *)obj < base) { xtor_bad = 1; return 0; }
    off = (size_t)((unsigned char *)obj - base);
    if (off % es) { xtor_bad = 2; return 0; }
    return off / es;
}

static void cons_cb(void *obj, void *priv)
{
    CB_ENTER();
    struct mvec *m = priv;
    size_t i = slot_of(m, obj);
    if (ncons < MAXX) cons_log[ncons] = i;
    ncons++;
    if (!xtor_bad) {
        /* the slot must lie inside the vector's block */
        int live; size_t off, size;
        if (simheap_find(obj, &live, &off, &size) < 0 || !live || off + es > size) xtor_bad = 3;
        else if (i < MAXN) { uint32_t t = fresh_tag(); fill(obj, t); m->tag[i] = t; }
    }
    if (xtor_bad) VIOL("xtor_pointer", "the constructor was handed a pointer that is not an element slot inside the vector's storage (slot %zu, reason %d)", i, xtor_bad);
    CB_LEAVE();
}

static void dest_cb(void *obj, void *priv)
{
    CB_ENTER();
    struct mvec *m = priv;
    size_t i = slot_of(m, obj);
    if (ndest < MAXX) dest_log[ndest] = i;
    ndest++;
    if (!xtor_bad) {
        int live; size_t off, size;
        if (simheap_find(obj, &live, &off, &size) < 0 || !live || off + es > size) xtor_bad = 3;
        else memset(obj, 0xEE, es);
    }
    if (xtor_bad) VIOL("xtor_pointer", "the destructor was handed a pointer that is not an element slot inside the vector's storage (slot %zu, reason %d)", i, xtor_bad);
    CB_LEAVE();
}

/* one function registered as constructor AND destructor (a "wipe" routine): which of the two a call is follows from where the
 * slot lies relative to the size the vector had when the operation began (or from what the harness is doing, in the churn) */
static int both_dir;
static void both_cb(void *obj, void *priv)
{
    struct mvec *m = priv;
    int dir = both_dir ? both_dir : (slot_of(m, obj) >= m->n ? 1 : -1);
    if (dir > 0) cons_cb(obj, priv); else dest_cb(obj, priv);
}

static int cmp_u32(const void *a, const void *b)
{
    uint32_t x = *(const uint32_t *)a, y = *(const uint32_t *)b;
    return (x > y) - (x < y);
}

static int cmp_tag(const void *a, const void *b, void *priv)
{
    uint32_t x = untag(a), y = untag(b);
    (void)priv;
    return sim_cmp((x > y) - (x < y));
}

/* search / find: the probe is a harness object, everything else must be an element of the vector searched */
static unsigned char sprobe[64]; static const cstl_vector_t *svec; static uint64_t scmps;
static int cmp_search(const void *a, const void *b, void *priv)
{
    CB_ENTER();
    const unsigned char *base = cstl_vector_data((cstl_vector_t *)svec);
    size_t n = cstl_vector_size(svec);
    const void *pp[2] = { a, b }; int q, r;
    for (q = 0; q < 2; q++) {
        const unsigned char *x = pp[q];
        if (x == sprobe) continue;
        if (base == NULL || x < base || x >= base + n * es || (size_t)(x - base) % es)
            VIOL("compare_foreign_pointer", "the comparison function was handed a pointer that is neither the probe nor an element of the vector");
    }
    if (priv != (void *)sprobe) VIOL("compare_priv", "the comparison function was not handed the caller's priv pointer");
    if (++scmps > 4 * (uint64_t)(n + 16)) VIOL("no_termination", "search/find of %zu elements made more than %llu comparisons", n, (unsigned long long)(4 * (n + 16)));
    { uint32_t x = untag(a), y = untag(b); r = sim_cmp((x > y) - (x < y)); }
    CB_LEAVE();
    return r;
}

/* a caller-supplied swap: both operands are elements of the vector */
static void vswap_cb(void *a, void *b, void *t, size_t len)
{
    CB_ENTER();
    unsigned char *base = cstl_vector_data((cstl_vector_t *)svec);
    size_t n = cstl_vector_size(svec), cap = cstl_vector_capacity(svec);
    void *pp[2] = { a, b }; int q;
    for (q = 0; q < 2; q++) {
        unsigned char *x = pp[q];
        if (base == NULL || x < base || x >= base + n * es || (size_t)(x - base) % es)
            VIOL("swap_foreign_pointer", "the swap function was handed a pointer that is not an element of the vector");
    }
    {
        /* the scratch may be anywhere (the pinned tree uses the slot at index capacity) but not on top of an element,
         * and if it is heap memory it must be live and large enough */
        int live; size_t off, size;
        (void)cap;
        if ((unsigned char *)t + len > base && (unsigned char *)t < base + n * es) VIOL("swap_scratch_overlaps", "the swap function was handed scratch space that overlaps the elements");
        if (simheap_find(t, &live, &off, &size) >= 0 && (!live || off + len > size)) VIOL("swap_scratch_dead", "the swap function was handed scratch space that is not inside a live allocation");
    }
    if (len != es) VIOL("swap_len", "the swap function was told %zu bytes for %zu-byte elements", len, es);
    memcpy(t, a, len); memcpy(a, b, len); memcpy(b, t, len);
    CB_LEAVE();
}

/* ------------------------------------------------------------------ audit */

static void audit_vec(int s, const char *when)
{
    cstl_vector_t *v = &vec[s];
    struct mvec *m = &mv[holder[s]];
    size_t size = cstl_vector_size(v), cap = cstl_vector_capacity(v), i;
    unsigned char *base = cstl_vector_data(v);
    uint64_t sh = 0x9ec;

    if (size != m->n) VIOL("size", "%s: vector %d reports size %zu, reference has %zu", when, s, size, m->n);
    if (cap < size) VIOL("cap_lt_size", "%s: capacity %zu < size %zu", when, cap, size);
    if (base == NULL) {
        if (cap != 0) VIOL("cap_without_storage", "%s: capacity %zu reported with no storage", when, cap);
    } else {
        u128 need = ((u128)cap + 1) * (u128)es;
        if (!simheap_is_live(base))
            VIOL("data_not_a_block", "%s: data pointer is not the start of a live allocation", when);
        if ((u128)simheap_size(base) < need)
            VIOL("cap_exceeds_block", "%s: capacity %zu (x %zu bytes, +1 scratch) reported on a block of %zu bytes", when, cap, es, simheap_size(base));
        if (simheap_tag(base) != TAG_LIB) VIOL("data_foreign", "%s: data pointer is not a library allocation", when);
    }
    for (i = 0; i < size; i++) {
        if (m->tag[i] != UNKNOWN && !elem_is(base + i * es, m->tag[i]))
            VIOL("bytes_changed", "%s: element %zu of vector %d no longer holds its bytes", when, i, s);
    }
    /* in-range access through the API: first, last, one in between */
    if (size > 0) {
        static void *p; size_t probes[3]; int k;
        probes[0] = 0; probes[1] = size - 1; probes[2] = size / 2;
        for (k = 0; k < 3; k++) {
            TRY(p = cstl_vector_at(v, probes[k]));
            if (g_aborted) VIOL("at_in_range_aborts", "%s: at(%zu) aborted with size %zu", when, probes[k], size);
            if (p != base + probes[k] * es) VIOL("at_address", "%s: at(%zu) does not address element %zu of the storage", when, probes[k], probes[k]);
        }
    }
    sh = fnv1a(sh, size < 8 ? size : 8 + (size > 64)); sh = fnv1a(sh, cap == size ? 0 : cap == 0 ? 1 : 2);
    sh = fnv1a(sh, base == NULL); sh = fnv1a(sh, (uint64_t)m->has_cons * 2 + (uint64_t)m->has_dest);
    state_note(sh);
    if (size > maxreach) maxreach = (unsigned)size;
}

static void audit_all(const char *when)
{
    int s; unsigned withbase = 0;
    for (s = 0; s < nv; s++) { audit_vec(s, when); if (cstl_vector_data(&vec[s]) != NULL) withbase++; }
    if (simheap_live_count(TAG_LIB) != withbase)
        VIOL("block_accounting", "%s: %u library blocks are live for %u vectors with storage (leak or double use)", when, simheap_live_count(TAG_LIB), withbase);
}

/* symbolic sizes */
static size_t sym_size(uint64_t sym, uint64_t raw, size_t size, size_t cap, int *huge)
{
    size_t per = es ? SIZE_MAX / es : SIZE_MAX;
    size_t bn = (size_t)(budget / es);          /* about as many elements as the heap budget holds */
    *huge = 0;
    switch (sym % 24) {
    /* widths at which a byte count stops fitting an int / unsigned: a narrowing conversion on the way to realloc shows here */
    case 20: *huge = 1; return (size_t)(((uint64_t)1 << 32) / es) + (size_t)(raw % 3);
    case 21: *huge = 1; return (size_t)(((uint64_t)1 << 31) / es) + (size_t)(raw % 3);
    case 22: *huge = 1; return (size_t)(((uint64_t)1 << 32) / es) * (2 + (size_t)(raw % 3)) + 1;
    case 23: *huge = 1; return (size_t)(((uint64_t)1 << 33) / es) + (size_t)(raw % 2);
    case 0: return 0;
    case 1: return 1;
    case 2: return size + 1 < MAXN - 8 ? size + 1 : size;
    case 3: return size ? size - 1 : 0;
    case 4: return cap + 1 < MAXN - 8 ? cap + 1 : size;
    case 5: return cap ? (cap - 1 < MAXN - 8 ? cap - 1 : size) : 0;
    case 6: return cap < MAXN - 8 ? cap : MAXN - 8;
    case 7: return size;
    case 8: case 9: case 10: case 11: return (size_t)(raw % (maxn > 1 ? maxn : 2));
    case 12: *huge = 1; return bn > 2 ? bn - 2 : 1;         /* just inside the budget */
    case 13: *huge = 1; return bn + 1;                      /* just over the budget */
    case 14: *huge = 2; return SIZE_MAX;
    case 15: *huge = 2; return SIZE_MAX - 1;
    case 16: *huge = 2; return per;
    case 17: *huge = 2; return per - 1;
    case 18: *huge = 2; return per + 1 > per ? per + 1 : per;
    case 19: *huge = 2; return per / 2 + (size_t)(raw & 1);
    }
    return 0;
}

static void check_xtor_logs(struct mvec *m, size_t oldn, size_t newn, int aborted)
{
    static unsigned char seen[MAXX];
    int k;
    size_t lo, hi;
    if (xtor_bad) VIOL("xtor_pointer", "constructor/destructor was handed a pointer that is not an element slot inside the storage (%d)", xtor_bad);
    if (aborted) return;
    /* constructed: exactly [oldn, newn) once each; destroyed: exactly [newn, oldn) once each */
    lo = oldn; hi = newn > oldn ? newn : oldn;
    if (m->has_cons) {
        size_t want = newn > oldn ? newn - oldn : 0;
        if ((size_t)ncons != want) VIOL("cons_count", "constructor ran %d times, %zu elements entered [0,size)", ncons, want);
        memset(seen, 0, want + 1);
        for (k = 0; k < ncons && k < MAXX; k++) {
            if (cons_log[k] < lo || cons_log[k] >= hi || seen[cons_log[k] - lo]) VIOL("cons_index", "constructor ran on slot %zu (not entering, or twice)", cons_log[k]);
            seen[cons_log[k] - lo] = 1;
        }
    } else if (ncons) VIOL("cons_count", "a constructor ran although none is configured");
    lo = newn; hi = oldn > newn ? oldn : newn;
    if (m->has_dest) {
        size_t want = oldn > newn ? oldn - newn : 0;
        if ((size_t)ndest != want) VIOL("dest_count", "destructor ran %d times, %zu elements left [0,size)", ndest, want);
        memset(seen, 0, want + 1);
        for (k = 0; k < ndest && k < MAXX; k++) {
            if (dest_log[k] < lo || dest_log[k] >= hi || seen[dest_log[k] - lo]) VIOL("dest_index", "destructor ran on slot %zu (not leaving, or twice)", dest_log[k]);
            seen[dest_log[k] - lo] = 1;
        }
    } else if (ndest) VIOL("dest_count", "a destructor ran although none is configured");
}

/* --------------------------------------------------------------------- exec */

static void v_once(const plan_t *p)
{
    struct simheap_cfg hc;
    int k, s;

    es = (size_t)p->cfg[CF_ES]; if (es < 1) es = 1; if (es > 64) es = 64;
    budget = p->cfg[CF_BUDGET]; if (budget < 4096) budget = 4096;
    hc.realloc_policy = (int)(p->cfg[CF_RPOLICY] % 3); hc.budget = budget; hc.junk = (unsigned char)p->cfg[CF_JUNK];
    simheap_reset(&hc, p->cfg[CF_JUNK]);
    faultenum_apply();
    mode_g = p->mode;
    nv = (int)p->cfg[CF_NV]; if (nv < 1) nv = 1; if (nv > NV) nv = NV;
    maxn = (size_t)p->cfg[CF_MAXN]; if (maxn < 2) maxn = 2; if (maxn > MAXN - 8) maxn = MAXN - 8;
    if ((maxn + 2) * es * 2 > budget) maxn = (size_t)(budget / (es * 2)) > 4 ? (size_t)(budget / (es * 2)) - 2 : 2;
    tagmask = es == 1 ? 0xff : es == 2 ? 0xffff : 0xffffff;
    next_tag = 0; maxreach = 0;
    simrand_reset(p->cfg[CF_JUNK] * 977 + p->cfg[CF_MAXN], RS_UNIFORM);
    memset(vec, (int)(unsigned char)p->cfg[CF_JUNK], sizeof vec);
    for (s = 0; s < NV; s++) {
        uint64_t x = p->cfg[CF_XTOR0 + s];
        mv[s].slot = s; holder[s] = s; mv[s].n = 0;
        mv[s].has_cons = (int)(x & 1); mv[s].has_dest = (int)(x >> 1 & 1);
        if (p->cfg[CF_DECL] && !mv[s].has_cons && !mv[s].has_dest) {
            /* a vector of plain elements from the initializer macro (the element type is all it takes) */
            if (s & 1) { DECLARE_CSTL_VECTOR(d, unsigned char[es]); vec[s] = d; }
            else vec[s] = (struct cstl_vector)CSTL_VECTOR_INITIALIZER(unsigned char[es]);
            PROBE("from_initializer_macro");
        } else
        if (mv[s].has_cons && mv[s].has_dest && (x >> 2 & 1)) { cstl_vector_init_complex(&vec[s], es, both_cb, both_cb, &mv[s]); PROBE("constructor_and_destructor_are_one_function"); } else
        cstl_vector_init_complex(&vec[s], es, mv[s].has_cons ? cons_cb : NULL, mv[s].has_dest ? dest_cb : NULL, &mv[s]);
    }
    both_dir = 0;

    for (k = 0; k < p->nops; k++) {
        const op_t *o = &p->ops[k];
        cstl_vector_t *v;
        struct mvec *m;
        static size_t oldn, oldcap, want; static void *oldbase; static void *ret;
        int huge, fail;
        u128 need;

        s = (int)(o->a[0] % (uint64_t)nv);
        v = &vec[s]; m = &mv[holder[s]];
        g_run.step = k; g_run.opkind = o->kind; g_run.steps++;
        g_cur_prop = PROP(); g_cur_ctx = "vector";
        ncons = ndest = 0; xtor_bad = 0;
        oldn = m->n; oldcap = cstl_vector_capacity(v); oldbase = cstl_vector_data(v);
        if (p->mode != 16) simheap_fail_in_op((unsigned)o->a[3]);

        switch (o->kind) {
        case V_RESIZE:
        case V_RESERVE:
            want = sym_size(o->a[1], o->a[2], oldn, oldcap, &huge);
            g_cur_ctx = huge == 2 ? "size-near-max" : huge == 1 ? "size-near-budget" : "size-small";
            need = ((u128)want + 1) * (u128)es;
            if (o->kind == V_RESERVE) TRY(cstl_vector_reserve(v, want)); else TRY(cstl_vector_resize(v, want));
            /* would a correct vector have needed more storage than it has, and could that storage exist? */
            fail = want > oldcap && (need > (u128)SIZE_MAX || g_hs.fired_in_op || g_hs.enomem_in_op);
            if (g_hs.fired_in_op) PROBE("alloc_fail_fired"); if (g_hs.enomem_in_op) PROBE("enomem_over_budget");
            if (want > oldcap && need > (u128)SIZE_MAX) PROBE("byte_count_unrepresentable");
            if (g_hs.moved) PROBE("realloc_moved"); if (g_hs.inplace) PROBE("realloc_inplace");
            if (o->kind == V_RESERVE) {
                if (g_aborted) VIOL(g_aborted == 2 ? "assert" : "abort", "reserve(%zu) aborted", want);
                if (fail) {
                    PROBE("reserve_unsatisfied");
                    if (cstl_vector_capacity(v) != oldcap || cstl_vector_data(v) != oldbase)
                        VIOL("failed_reserve_changed", "reserve(%zu) could not be satisfied but capacity went %zu -> %zu (storage %s)", want, oldcap,
                             cstl_vector_capacity(v), cstl_vector_data(v) != oldbase ? "moved" : "same");
                    if (oldbase != NULL && !simheap_is_live(oldbase))
                        VIOL("failed_reserve_freed", "reserve(%zu) could not be satisfied and released the storage the vector still uses", want);
                } else if (cstl_vector_capacity(v) < want) {
                    VIOL("reserve_short", "reserve(%zu) satisfied by the allocator but capacity is %zu", want, cstl_vector_capacity(v));
                }
                check_xtor_logs(m, oldn, oldn, 0);
            } else {
                if (fail) {
                    PROBE("resize_must_abort");
                    if (!g_aborted)
                        VIOL("growth_not_aborted", "resize(%zu) could not be satisfied (%s) and did not abort: size %zu capacity %zu", want,
                             need > (u128)SIZE_MAX ? "byte count unrepresentable" : "allocator said no", cstl_vector_size(v), cstl_vector_capacity(v));
                    /* the process is dead; nothing may have been corrupted or released on the way */
                    check_xtor_logs(m, oldn, oldn, 1);
                    if (cstl_vector_capacity(v) < cstl_vector_size(v)) VIOL("abort_state", "at the abort capacity %zu < size %zu", cstl_vector_capacity(v), cstl_vector_size(v));
                    if (oldbase != NULL && !simheap_is_live(oldbase) && cstl_vector_data(v) == oldbase)
                        VIOL("abort_state", "at the abort the storage has been released but is still referenced");
                    simheap_audit(PROP(), "at-abort");
                    g_run.ended_by_abort = 1;
                    EVT("resize_abort", s, want, 0);
                    return;
                }
                if (g_aborted) VIOL(g_aborted == 2 ? "assert" : "abort", "resize(%zu) aborted although the allocator could satisfy it", want);
                /* model */
                if (want > oldn && !m->has_cons) { size_t i; for (i = oldn; i < want && i < MAXN; i++) m->tag[i] = UNKNOWN; }
                m->n = want;
                check_xtor_logs(m, oldn, want, 0);
                if (oldn == 0 && oldbase == NULL && want > 0) PROBE("growth_from_null");
                if (want == 0 && oldn > 0) PROBE("shrink_to_zero");
            }
            EVT(o->kind == V_RESERVE ? "reserve" : "resize", s, want, fail);
            break;
        case V_SHRINK:
            TRY(cstl_vector_shrink_to_fit(v));
            if (g_aborted) VIOL(g_aborted == 2 ? "assert" : "abort", "shrink_to_fit aborted");
            if (g_hs.fired_in_op) {
                PROBE("shrink_alloc_fail_fired");
                if (cstl_vector_capacity(v) != oldcap || cstl_vector_data(v) != oldbase) VIOL("failed_shrink_changed", "shrink_to_fit failed but capacity/storage changed");
            }
            check_xtor_logs(m, oldn, oldn, 0);
            EVT("shrink", s, cstl_vector_capacity(v), g_hs.fired_in_op);
            break;
        case V_CLEAR:
            TRY(cstl_vector_clear(v));
            if (g_aborted) VIOL(g_aborted == 2 ? "assert" : "abort", "clear aborted");
            m->n = 0;
            check_xtor_logs(m, oldn, 0, 0);
            if (cstl_vector_data(v) != NULL || cstl_vector_capacity(v) != 0) {
                /* keeping a spare buffer would be legal; it must then be a valid one (audit) */
                PROBE("clear_keeps_buffer");
            }
            PROBE("clear");
            EVT("clear", s, 0, 0);
            break;
        case V_SWAP: {
            int u = 1 - s, t;
            if (o->a[1] % 8 == 3) {
                TRY(cstl_vector_swap(v, v));
                if (g_aborted) VIOL("abort", "swap aborted");
                PROBE("self_swap"); EVT("swap_self", s, 0, 0);
                break;
            }
            if (nv < 2) { EVT("skip", 0, 0, 0); break; }
            TRY(cstl_vector_swap(v, &vec[u]));
            if (g_aborted) VIOL("abort", "swap aborted");
            t = holder[s]; holder[s] = holder[u]; holder[u] = t;
            mv[holder[s]].slot = s; mv[holder[u]].slot = u;
            PROBE("swap");
            EVT("swap", s, u, 0);
            break;
        }
        case V_SORT:
        case V_REVERSE: {
            size_t i; unsigned char *base = cstl_vector_data(v);
            static uint32_t before[MAXN];
            /* give every slot known bytes first */
            for (i = 0; i < m->n; i++) if (m->tag[i] == UNKNOWN) { m->tag[i] = fresh_tag(); fill(base + i * es, m->tag[i]); }
            memcpy(before, m->tag, sizeof(before[0]) * m->n);
            if (o->kind == V_SORT) {
                unsigned al = (unsigned)(o->a[1] % 5);
                if (m->n > 8000 && al == 0) al = 3;         /* first-element pivot may be quadratic: not on very large vectors */
                if (al == 4) TRY(cstl_vector_sort(v, cmp_tag, NULL));
                else if (mode_g == 11 && (o->a[2] & 3) == 0) {
                    static const int odd[] = { 7, -1, 100, 4 };
                    svec = v; PROBE("vector_sort_checked_swap");
                    TRY(__cstl_vector_sort(v, cmp_tag, NULL, vswap_cb, (cstl_sort_algorithm_t)((o->a[2] & 4) ? odd[(o->a[2] >> 3) & 3] : (int)al)));
                }
                else TRY(__cstl_vector_sort(v, cmp_tag, NULL, cstl_swap, (cstl_sort_algorithm_t)al));
                if (m->n > 65536) PROBE("vector_above_2^16");
            } else if (mode_g == 11 && (o->a[2] & 1)) {
                svec = v;
                TRY(__cstl_vector_reverse(v, vswap_cb));
            } else {
                TRY(cstl_vector_reverse(v));
            }
            if (g_aborted) VIOL(g_aborted == 2 ? "assert" : "abort", "%s aborted", v_opname(o->kind));
            base = cstl_vector_data(v);
            if (o->kind == V_REVERSE) {
                for (i = 0; i < m->n; i++) m->tag[i] = before[m->n - 1 - i];
                PROBE("reverse");
            } else {
                qsort(m->tag, m->n, sizeof(m->tag[0]), cmp_u32);
                PROBE("sort");
            }
            EVT(v_opname(o->kind), s, m->n, o->a[1] % 5);
            break;
        }
        case V_SWAPDIFF: {
            /* two vectors of DIFFERENT element sizes exchanged: everything that belongs to the object moves - also the
             * element size, which decides every later address and byte count */
            static const size_t ess[] = { 1, 2, 3, 4, 8, 12, 32 };
            static cstl_vector_t va, vb; size_t ea = ess[o->a[1] % 7], eb = ess[(o->a[1] / 7 + 1 + o->a[1] % 7) % 7], na = 1 + (size_t)(o->a[2] % 9), nb2 = 1 + (size_t)(o->a[2] / 9 % 9), i, k2;
            int bad = 0;
            if (p->mode == 16 || ea == eb) { EVT("skip", 0, 0, 0); break; }
            g_cur_ctx = "different-element-sizes";
            memset(&va, (int)p->cfg[CF_JUNK], sizeof va); memset(&vb, (int)p->cfg[CF_JUNK], sizeof vb);
            cstl_vector_init(&va, ea); cstl_vector_init(&vb, eb);
            /* growth aborts when the allocator refuses (budget, injected failure): then there is nothing to examine */
            TRY(cstl_vector_reserve(&va, na + 40)); TRY(cstl_vector_reserve(&vb, nb2 + 40));
            if (cstl_vector_capacity(&va) < na + 40 || cstl_vector_capacity(&vb) < nb2 + 40) { TRY(cstl_vector_clear(&va)); TRY(cstl_vector_clear(&vb)); EVT("skip", 0, 0, 0); break; }
            TRY(cstl_vector_resize(&va, na)); TRY(cstl_vector_resize(&vb, nb2));
            for (i = 0; i < na; i++) memset((unsigned char *)cstl_vector_data(&va) + i * ea, (int)(0x10 + i), ea);
            for (i = 0; i < nb2; i++) memset((unsigned char *)cstl_vector_data(&vb) + i * eb, (int)(0x80 + i), eb);
            TRY(cstl_vector_swap(&va, &vb));
            if (g_aborted) VIOL("abort", "swap aborted");
            /* va now is the vector of nb2 elements of eb bytes, and the other way round */
            if (cstl_vector_size(&va) != nb2 || cstl_vector_size(&vb) != na) VIOL("swap_size", "after swap the sizes are %zu and %zu, expected %zu and %zu", cstl_vector_size(&va), cstl_vector_size(&vb), nb2, na);
            for (i = 0; i < nb2 && !bad; i++) { const unsigned char *q = cstl_vector_at_const(&va, i); if (q != (const unsigned char *)cstl_vector_data(&va) + i * eb) bad = 1; else for (k2 = 0; k2 < eb; k2++) if (q[k2] != (unsigned char)(0x80 + i)) bad = 2; }
            for (i = 0; i < na && !bad; i++) { const unsigned char *q = cstl_vector_at_const(&vb, i); if (q != (const unsigned char *)cstl_vector_data(&vb) + i * ea) bad = 3; else for (k2 = 0; k2 < ea; k2++) if (q[k2] != (unsigned char)(0x10 + i)) bad = 4; }
            if (bad) VIOL("swap_stride", "after swapping vectors of %zu-byte and %zu-byte elements at() addresses or element bytes are wrong (case %d)", ea, eb, bad);
            /* growth must reallocate with the right stride and keep the bytes */
            /* (the capacities were reserved before the swap and moved with the objects: va holds nb2 + 40, vb na + 40) */
            TRY(cstl_vector_resize(&va, nb2 + 40)); if (g_aborted) VIOL("swap_capacity", "after the swap a resize within the reserved capacity aborted");
            TRY(cstl_vector_resize(&vb, na + 40)); if (g_aborted) VIOL("swap_capacity", "after the swap a resize within the reserved capacity aborted");
            for (i = 0; i < nb2 && !bad; i++) for (k2 = 0; k2 < eb; k2++) if (((const unsigned char *)cstl_vector_data(&va))[i * eb + k2] != (unsigned char)(0x80 + i)) bad = 5;
            for (i = 0; i < na && !bad; i++) for (k2 = 0; k2 < ea; k2++) if (((const unsigned char *)cstl_vector_data(&vb))[i * ea + k2] != (unsigned char)(0x10 + i)) bad = 6;
            if (bad) VIOL("swap_stride", "after swapping vectors of %zu-byte and %zu-byte elements a later resize lost or moved element bytes (case %d)", ea, eb, bad);
            TRY(cstl_vector_clear(&va)); TRY(cstl_vector_clear(&vb));
            PROBE("swap_different_element_sizes");
            EVT("swapdiff", ea, eb, na * 16 + nb2);
            break;
        }
        case V_CHURN: {
            /* the n-th repetition: the vector grows by one element and shrinks again 254 ... 65 536 times in a row; the
             * constructor and destructor must have run once per cycle, on the slot at the old size, and nothing else moves */
            static const unsigned reps[] = { 254, 255, 256, 65534, 65535, 65536 };
            unsigned n = reps[o->a[1] % 6], q; size_t on = m->n; int bad = 0;
            if (p->mode == 16 || on + 1 >= MAXN) { EVT("skip", 0, 0, 0); break; }
            g_cur_ctx = n > 60000 ? "churn-2^16" : "churn-2^8";
            TRY(cstl_vector_reserve(v, on + 1));
            if (cstl_vector_capacity(v) < on + 1) { EVT("skip", 0, 0, 0); break; }
            ncons = ndest = 0; xtor_bad = 0;
            g_inlib = 1;
            for (q = 0; q < n; q++) {
                both_dir = 1; cstl_vector_resize(v, on + 1);
                if (cstl_vector_size(v) != on + 1) { bad = 1; break; }
                both_dir = -1; cstl_vector_resize(v, on);
                if (cstl_vector_size(v) != on) { bad = 2; break; }
            }
            g_inlib = 0; both_dir = 0;
            if (bad) VIOL("churn", "repetition %u of grow-by-one / shrink-by-one left size %zu (was %zu)", q, cstl_vector_size(v), on);
            if (m->has_cons && (unsigned)ncons != n) VIOL("cons_count", "%u grow-by-one / shrink-by-one cycles ran the constructor %d times", n, ncons);
            if (m->has_dest && (unsigned)ndest != n) VIOL("dest_count", "%u grow-by-one / shrink-by-one cycles ran the destructor %d times", n, ndest);
            m->tag[on] = UNKNOWN;
            PROBE(n > 60000 ? "churn_2^16" : "churn_2^8");
            EVT("churn", s, n, on);
            break;
        }
        case V_WRITE: {
            size_t i; unsigned char *base = cstl_vector_data(v);
            if (m->n == 0) { EVT("skip", 0, 0, 0); break; }
            i = (size_t)(o->a[1] % m->n);
            m->tag[i] = (mode_g == 11 && (o->a[2] & 4) && m->tag[(size_t)((o->a[2] >> 3) % m->n)] != UNKNOWN) ? m->tag[(size_t)((o->a[2] >> 3) % m->n)] : fresh_tag();   /* duplicates for search/find */
            fill(base + i * es, m->tag[i]);
            EVT("write", s, i, m->tag[i]);
            break;
        }
        case V_SEARCH: case V_FIND: {
            size_t i, first = 0; int exists = 0, is_sorted = 1; uint32_t want; static ssize_t sres;
            unsigned char *base = cstl_vector_data(v);
            for (i = 0; i < m->n; i++) if (m->tag[i] == UNKNOWN) { m->tag[i] = fresh_tag(); fill(base + i * es, m->tag[i]); }
            for (i = 1; i < m->n; i++) if (untag(base + (i - 1) * es) > untag(base + i * es)) is_sorted = 0;
            if (o->kind == V_SEARCH && !is_sorted) { EVT("skip", 0, 0, 0); break; }       /* binary search is defined on sorted vectors */
            want = (o->a[1] & 1) && m->n ? m->tag[(size_t)(o->a[2] % m->n)] : (uint32_t)(o->a[2] & tagmask);
            fill(sprobe, want); want = untag(sprobe);
            for (i = 0; i < m->n; i++) if (untag(base + i * es) == want) { exists = 1; first = i; break; }
            svec = v; scmps = 0;
            g_cur_ctx = exists ? "present" : "absent";
            if (o->kind == V_SEARCH) TRY(sres = cstl_vector_search(v, sprobe, cmp_search, sprobe));
            else TRY(sres = cstl_vector_find(v, sprobe, cmp_search, sprobe));
            if (g_aborted) VIOL("abort", "%s aborted", v_opname(o->kind));
            if (!exists) { if (sres != -1) VIOL("absent", "%s returned %zd for a value that is not in the vector", v_opname(o->kind), sres); PROBE("vector_probe_absent"); }
            else {
                PROBE("vector_probe_present");
                if (sres < 0 || (size_t)sres >= m->n) VIOL("present", "%s returned %zd although an equal element exists (vector of %zu)", v_opname(o->kind), sres, m->n);
                if (untag(base + (size_t)sres * es) != want) VIOL("wrong_index", "%s returned index %zd whose element does not compare equal", v_opname(o->kind), sres);
                if (o->kind == V_FIND && (size_t)sres != first) VIOL("not_first", "find returned index %zd, the first equal element is at %zu", sres, first);
            }
            if (m->n == 0) PROBE("vector_search_empty");
            EVT(v_opname(o->kind), s, (uint64_t)sres, want);
            break;
        }
        case V_AT: {
            size_t idx; int oob;
            if (oldn == 0 && (o->a[1] % 6 == 0 || o->a[1] % 6 == 1 || o->a[1] % 6 == 5)) { EVT("skip", 0, 0, 0); break; }   /* an in-range probe needs an element */
            switch (o->a[1] % 6) {
            case 0: idx = 0; break; case 1: idx = oldn ? oldn - 1 : 0; break; case 2: idx = oldn; break;
            case 3: idx = oldn + 1; break; case 4: idx = SIZE_MAX; break; default: idx = oldn ? (size_t)(o->a[2] % oldn) : 0; break;
            }
            oob = idx >= oldn;
            g_cur_ctx = oob ? "index-out-of-range" : "index-in-range";
            if (o->a[2] & 1) TRY(ret = cstl_vector_at(v, idx)); else TRY(ret = (void *)cstl_vector_at_const(v, idx));
            if (oob) {
                PROBE("at_out_of_range");
                if (!g_aborted) VIOL("at_oob_not_aborted", "at(%zu) with size %zu returned instead of aborting", idx, oldn);
                simheap_audit(PROP(), "at-abort");
                g_run.ended_by_abort = 1;
                EVT("at_abort", s, idx, 0);
                return;
            }
            if (g_aborted) VIOL("at_in_range_aborts", "at(%zu) aborted with size %zu", idx, oldn);
            if (ret != (unsigned char *)cstl_vector_data(v) + idx * es) VIOL("at_address", "at(%zu) does not address element %zu", idx, idx);
            EVT("at", s, idx, 0);
            break;
        }
        default: EVT("skip", 0, 0, 0);
        }
        g_cur_ctx = "vector";
        audit_all("after");
        if ((k & 7) == 7 || k == p->nops - 1) simheap_audit(PROP(), "vector");
    }

    /* epilogue: clear everything; nothing may be left allocated */
    for (s = 0; s < nv; s++) {
        struct mvec *m = &mv[holder[s]];
        static size_t oldn2;
        g_run.step = p->nops + s; g_run.opkind = V_CLEAR; g_cur_ctx = "epilogue";
        ncons = ndest = 0; xtor_bad = 0; oldn2 = m->n;
        TRY(cstl_vector_clear(&vec[s]));
        if (g_aborted) VIOL("abort", "clear aborted");
        m->n = 0;
        check_xtor_logs(m, oldn2, 0, 0);
        if (cstl_vector_data(&vec[s]) != NULL) {
            /* a vector that keeps a spare buffer after clear never releases it: that is a leak */
            VIOL("leak", "storage still held after clear");
        }
    }
    if (simheap_live_count(TAG_LIB) != 0) VIOL("leak", "%u library blocks still allocated after every vector was cleared", simheap_live_count(TAG_LIB));
    simheap_audit(PROP(), "vector-end");
    g_run.nontrivial = maxreach >= 2;
}

/* one resize that moves the size by more than 2^32 elements, with a constructor and a destructor (real memory: 4-8 GiB,
 * 2^33 callback invocations; thorough tier only): a loop counter narrower than size_t would stop early */
static uint64_t g_ncons, g_ndest, g_bad; static unsigned char *g_lo, *g_hi, *g_next;
static void giant_cons(void *obj, void *priv) { (void)priv; if ((unsigned char *)obj != g_next || g_next >= g_hi) g_bad++; else *(unsigned char *)obj = 0x5a; g_next++; g_ncons++; }
static void giant_dest(void *obj, void *priv) { (void)priv; g_next--; if ((unsigned char *)obj != g_next || g_next < g_lo) g_bad++; g_ndest++; }
static void giant_vector(const plan_t *p)
{
    struct simheap_cfg hc = { RP_INPLACE_FIT, (uint64_t)1 << 35, 0 };
    static cstl_vector_t gv; static size_t sz, cap; static unsigned char *base; static void *at;
    size_t n = ((size_t)1 << 32) + 3 + (size_t)(p->cfg[CF_MAXN] % 64), keep = 1 + (size_t)(p->cfg[CF_MAXN] % 5);
    hc.junk = (unsigned char)p->cfg[CF_JUNK];
    simheap_reset(&hc, p->cfg[CF_JUNK]);
    sim_watchdog(400);
    mode_g = 9; g_cur_prop = "C09"; g_cur_ctx = "giant-vector"; g_run.step = 0; g_run.opkind = V_RESIZE; g_run.steps++;
    memset(&gv, (int)p->cfg[CF_JUNK], sizeof gv);
    cstl_vector_init_complex(&gv, 1, giant_cons, giant_dest, NULL);
    g_ncons = g_ndest = g_bad = 0;
    TRY(cstl_vector_reserve(&gv, n));
    TRY(cap = cstl_vector_capacity(&gv));
    if (cap < n) { EVT("skip", 0, 0, 0); return; }             /* the machine cannot provide 4 GiB: nothing to examine */
    base = cstl_vector_data(&gv); g_lo = base; g_hi = base + n; g_next = base;
    TRY(cstl_vector_resize(&gv, n));
    if (g_aborted) sim_violation("C09/abort/resize/giant-vector", "resize to 2^32+%zu elements aborted although the capacity was reserved", n - ((size_t)1 << 32));
    TRY(sz = cstl_vector_size(&gv));
    if (sz != n) sim_violation("C09/size/resize/giant-vector", "size() is %zu after resize(%zu)", sz, n);
    if (cstl_vector_data(&gv) != base) sim_violation("C09/moved/resize/giant-vector", "resize within the reserved capacity moved the storage");
    if (g_ncons != n || g_bad) sim_violation("C09/cons_count/resize/giant-vector", "a resize from 0 to 2^32+%zu elements ran the constructor %llu times (%llu of them on the wrong slot): every element entering [0,size) is constructed exactly once, in order", n - ((size_t)1 << 32), (unsigned long long)g_ncons, (unsigned long long)g_bad);
    TRY(at = cstl_vector_at(&gv, n - 1));
    if (g_aborted || at != base + (n - 1) || *(unsigned char *)at != 0x5a) sim_violation("C09/at_address/at/giant-vector", "at(size-1) beyond 2^32 does not address the last constructed element");
    TRY(cstl_vector_resize(&gv, keep));
    TRY(sz = cstl_vector_size(&gv));
    if (sz != keep) sim_violation("C09/size/resize/giant-vector", "size() is %zu after resize(%zu)", sz, keep);
    if (g_ndest != n - keep || g_bad) sim_violation("C09/dest_count/resize/giant-vector", "a resize from 2^32+%zu to %zu elements ran the destructor %llu times (%llu of them on the wrong slot)", n - ((size_t)1 << 32), keep, (unsigned long long)g_ndest, (unsigned long long)g_bad);
    TRY(cstl_vector_clear(&gv));
    if (g_ndest != n) sim_violation("C09/dest_count/clear/giant-vector", "after clear the destructor has run %llu times for %zu constructed elements", (unsigned long long)g_ndest, n);
    if (simheap_live_count(TAG_LIB) != 0) sim_violation("C09/leak/clear/giant-vector", "storage still held after clear");
    simheap_audit("C09", "giant-vector");
    PROBE("giant_vector_above_2^32");
    EVT("giant", n, keep, 0);
    g_run.nontrivial = 1;
}

static void v_exec(const plan_t *p)
{
    if (p->mode == 109) { giant_vector(p); return; }
    if (p->mode == 16) faultenum(p, v_once); else v_once(p);
}

static void v_gen(prng_t *r, int mode, plan_t *p)
{
    p->cfg[CF_DECL] = DECL_OF_INDEX();    /* one run in five starts from the initializer macros */
    p->cfg[CF_REUSE] = REUSE_OF_INDEX();  /* one run in six: the allocator hands a freed block out again at once */
    static const int sizes[] = { 1, 2, 4, 8, 1, 2, 4, 8, 3, 5, 7, 12, 24, 64 };
    int huge = mode == 9 && prng_chance(r, 1, 300);
    int longrun = !huge && mode != 16 && prng_chance(r, 1, 12), small = !longrun && !huge && prng_chance(r, 1, 5);
    int nops = huge ? 6 + (int)prng_below(r, 8) : longrun ? 150 + (int)prng_below(r, 400) : small ? 2 + (int)prng_below(r, 7) : 8 + (int)prng_below(r, 42);
    int faults = mode == 9 && prng_chance(r, 3, 10), boundary = mode == 9 && prng_chance(r, 1, 4);
    int i;
    if (mode == 109) { p->cfg[CF_JUNK] = 1 + prng_below(r, 254); p->cfg[CF_MAXN] = prng_below(r, 64); p->cfg[CF_NV] = 1; p->cfg[CF_ES] = 1; return; }
    if (mode == 16) nops = 8 + (int)prng_below(r, 22);
    p->cfg[CF_NV] = 1 + prng_below(r, 2);
    p->cfg[CF_ES] = (uint64_t)sizes[prng_below(r, sizeof sizes / sizeof sizes[0])];
    p->cfg[CF_JUNK] = 1 + prng_below(r, 254);
    p->cfg[CF_RPOLICY] = prng_below(r, 3);
    p->cfg[CF_BUDGET] = (uint64_t)1 << (14 + prng_below(r, 7));           /* 16 KiB .. 1 MiB */
    p->cfg[CF_XTOR0] = prng_below(r, 8);      /* bit 0: constructor, bit 1: destructor, bit 2 (with both): one function serves as both */
    p->cfg[CF_XTOR1] = prng_below(r, 8);
    p->cfg[CF_MAXN] = huge ? 66000 + prng_below(r, 4000) : longrun ? 500 + prng_below(r, 4000) : small ? 2 + prng_below(r, 5) : 4 + prng_below(r, 120);
    if (huge) { p->cfg[CF_BUDGET] = (uint64_t)1 << 23; p->cfg[CF_ES] = (uint64_t)(1u << prng_below(r, 4)); }

    for (i = 0; i < nops; i++) {
        unsigned x = (unsigned)prng_below(r, 100);
        int kind = x < 32 ? V_RESIZE : x < 46 ? V_RESERVE : x < 54 ? V_SHRINK : x < 58 ? V_CLEAR : x < 63 ? V_SWAP
                 : x < 71 ? V_SORT : x < 77 ? V_REVERSE : x < 92 ? V_WRITE : V_AT;
        op_t *o;
        if (kind == V_WRITE && mode == 9 && prng_chance(r, 1, 500)) kind = V_CHURN;
        if (kind == V_SWAP && mode == 9 && prng_chance(r, 1, 3)) kind = V_SWAPDIFF;
        if (mode == 11) kind = x < 14 ? V_RESIZE : x < 18 ? V_RESERVE : x < 21 ? V_SHRINK : x < 23 ? V_CLEAR : x < 27 ? V_SWAP
                 : x < 42 ? V_SORT : x < 50 ? V_REVERSE : x < 62 ? V_WRITE : x < 82 ? V_SEARCH : x < 97 ? V_FIND : V_AT;
        o = plan_add(p, kind);
        o->a[0] = prng_below(r, 2);
        o->a[2] = prng_next(r) >> 8;
        if (kind == V_RESIZE) o->a[1] = prng_below(r, 12);                               /* never a huge size mid-plan: it would abort */
        else if (kind == V_RESERVE) o->a[1] = boundary && prng_chance(r, 1, 3) ? 12 + prng_below(r, 12) : prng_below(r, 12);
        else if (kind == V_AT) o->a[1] = prng_chance(r, 1, 2) ? 5 : prng_below(r, 2);   /* in range */
        else o->a[1] = prng_below(r, 1000);
        if (faults && (kind == V_RESERVE || kind == V_SHRINK) && prng_chance(r, 1, 3)) o->a[3] = 1;
    }
    /* at most one abort-provoking operation per run, at the very end, so that runs make progress first */
    if (mode == 9 && prng_chance(r, 2, 5)) {
        unsigned x = (unsigned)prng_below(r, 10);
        op_t *o;
        if (x < 3) { o = plan_add(p, V_AT); o->a[1] = 2 + prng_below(r, 3); }
        else if (x < 7) { o = plan_add(p, V_RESIZE); o->a[1] = 13 + prng_below(r, 11); }
        else { o = plan_add(p, V_RESIZE); o->a[1] = 2 + prng_below(r, 10); o->a[3] = 1; }
        o->a[0] = prng_below(r, 2); o->a[2] = prng_next(r) >> 8;
    }
}

static const char *v_crash_prop(const plan_t *p, int opkind) { (void)p; (void)opkind; return g_cur_prop; }

const world_t world_vector = { "vector", v_gen, v_exec, v_opname, v_crash_prop };
