/*
 * World "par": thread compatibility on distinct objects.
 *
 * Two or three simulated threads, each with containers and elements of its
 * own, never sharing an object. The library promises nothing about sharing
 * ONE object between threads (except the reference counts, C06), but two
 * threads that keep to their own objects must not notice each other: the
 * library must keep no hidden shared state (a static scratch node, a
 * comparator parked in a file-scope variable, a cached hint).
 *
 * Seam: in the "work" build variant every basic block of library code
 * calls __sanitizer_cov_trace_pc(); the simulator uses it as a preemption
 * point. The scheduler hands the running task a quantum of basic blocks and
 * switches fibers when it is used up, so threads are interleaved INSIDE
 * library functions at basic-block granularity, deterministically from the
 * seed. Harness code (callbacks, audits) is not instrumented and is atomic.
 *
 * Oracle: differential. The same per-task scripts are first executed one
 * task after the other (the reference: what each thread sees when it is
 * alone), then interleaved. After every operation a digest of its result
 * and of the container's complete structure (through the public link fields,
 * in terms of element ids, never addresses) is recorded; the interleaved
 * digests must equal the sequential ones, operation by operation.
 */
#define _GNU_SOURCE
#include "../core/sim.h"

#include "cstl/bintree.h"
#include "cstl/rbtree.h"
#include "cstl/heap.h"
#include "cstl/dlist.h"
#include "cstl/slist.h"
/* hash.h DEFINES two external functions; every translation unit that includes it needs names of its own */
#undef cstl_hash_size
#undef cstl_hash_load
#define cstl_hash_size par_hash_size
#define cstl_hash_load par_hash_load
#include "cstl/hash.h"
#include "cstl/map.h"
#include "cstl/vector.h"
#include "cstl/string.h"
#include "cstl/array.h"
#include "cstl/memory.h"

#include <string.h>
#include <stdlib.h>
#include <ucontext.h>

enum { P_OP = 1 };
enum { CF_K, CF_SSEED, CF_JUNK, CF_QUANT, CF_TSEED0, CF_TSEED1, CF_TSEED2, CF_STRAT };

#define PT 3
#define PN 40
#define PMAXOPS 64
#define PSTACK (256 * 1024)

struct pel {
    int id, key, in;
    struct cstl_bintree_node bn; struct cstl_rbtree_node rn;
    struct cstl_dlist_node dn; struct cstl_slist_node sn; struct cstl_hash_node hn;
};

struct pord { int dir; uint64_t calls; };

struct pstate {
    struct pel el[PN];
    int keys[16];
    struct cstl_bintree bt; struct cstl_rbtree rb; struct cstl_heap hp;
    struct cstl_dlist dl; struct cstl_slist sl; struct cstl_hash ht; cstl_map_t map;
    cstl_vector_t vec; cstl_string_t str, str2;
    /* a second container of each kind, also this thread's own: swap (and, for lists, concat) need two operands */
    struct cstl_bintree bt2; struct cstl_rbtree rb2; struct cstl_heap hp2; struct cstl_dlist dl2; struct cstl_slist sl2; struct cstl_hash ht2; cstl_vector_t vec2;
    uint32_t arr[48]; size_t arrn; uint32_t scratch;
    cstl_shared_ptr_t sp[3]; cstl_weak_ptr_t wp[2]; int cleared;
    cstl_array_t ar[3]; uint32_t ext[24]; int ext_user;       /* ext_user: which array object was set() over ext[], -1 none */
    prng_t rnd;                 /* this thread's rand() */
    struct pord ord;            /* this thread's ordering */
    int odd;                    /* odd threads use the mirrored comparison function with the mirrored direction: same order, other function */
};
#define CMP_EL(s) ((s)->odd ? cmp_el_rev : cmp_el)
#define CMP_U32(s) ((s)->odd ? cmp_u32_rev : cmp_u32)

struct ptask {
    ucontext_t ctx;
    int done, pc, nops;
    op_t ops[PMAXOPS];
    struct pstate st;
    uint64_t dig[PMAXOPS + 1];
    int saved_inlib;
};

static struct ptask tk[PT];
static char *stacks[PT];
static ucontext_t sched_ctx;
static int K, cur = -1, kind_g, pending_violation;
static long quantum; static uint64_t Q, switches;
static prng_t sprng;
static const char *prop_g = "C00";

extern void (*g_preempt_hook)(void);
extern int (*g_rand_hook)(void);

static const char *p_opname(int k) { (void)k; return "op"; }

/* ------------------------------------------------------------ callbacks */

/* every thread has an ordering of its own (the private pointer says which): a comparison function or private
 * pointer parked in shared state by one thread and picked up by another then orders the wrong way */
static int cmp_el(const void *a, const void *b, void *p)
{
    const struct pel *x = a, *y = b; struct pord *o = p;
    o->calls++;
    return sim_cmp(o->dir * ((x->key > y->key) - (x->key < y->key)));
}
static int cmp_el_rev(const void *a, const void *b, void *p) { return cmp_el(b, a, p); }
static int cmp_int(const void *a, const void *b, void *p)
{
    int x = *(const int *)a, y = *(const int *)b; struct pord *o = p;
    o->calls++;
    return sim_cmp(o->dir * ((x > y) - (x < y)));
}
static int cmp_u32(const void *a, const void *b, void *p)
{
    uint32_t x = *(const uint32_t *)a, y = *(const uint32_t *)b; struct pord *o = p;
    o->calls++;
    return sim_cmp(o->dir * ((x > y) - (x < y)));
}
static int cmp_u32_rev(const void *a, const void *b, void *p) { return cmp_u32(b, a, p); }
static void clr_count(void *obj, void *priv) { (void)obj; (void)priv; if (cur >= 0) tk[cur].st.cleared++; }
static void clr_el(void *obj, void *priv) { struct pel *e = obj; uint64_t *n = priv; e->in = 0; (*n)++; }
static void clr_map(void *obj, void *priv) { cstl_map_iterator_t *it = obj; uint64_t *n = priv; *n += 1 + (uint64_t)(*(const int *)it->key); }
static int fe_visit(void *e, void *p) { uint64_t *h = p; *h = fnv1a(*h, (uint64_t)((struct pel *)e)->id + 1); return 0; }

static int tv_visit(const void *e, cstl_bintree_visit_order_t ord, void *p)
{
    uint64_t *h = p;
    *h = fnv1a(*h, ((uint64_t)((const struct pel *)e)->id + 1) * 8 + (uint64_t)ord);
    return 0;
}

static int par_rand(void)
{
    if (cur >= 0) return (int)(prng_next(&tk[cur].st.rnd) & RAND_MAX);
    return 4;
}

/* --------------------------------------------------- structure digests */

#define ELOF(n, member) ((struct pel *)((char *)(n) - offsetof(struct pel, member)))

static uint64_t walk_bt(const struct cstl_bintree_node *n, size_t off, int rb, int depth, uint64_t h)
{
    const struct pel *e;
    if (n == NULL) return fnv1a(h, 0x55);
    if (depth > 64) return fnv1a(h, 0xdead);
    e = (const struct pel *)((const char *)n - off);
    h = fnv1a(h, (uint64_t)e->id * 64 + (uint64_t)e->key);
    if (rb) h = fnv1a(h, (uint64_t)((const struct cstl_rbtree_node *)((const char *)n - offsetof(struct cstl_rbtree_node, n)))->c + 7);
    h = walk_bt(n->l, off, rb, depth + 1, h);
    return walk_bt(n->r, off, rb, depth + 1, h);
}

static uint64_t snap(struct pstate *s)
{
    uint64_t h = 0x9a7;
    size_t i;
    switch (kind_g) {
    case 1: h = walk_bt(s->bt.root, offsetof(struct pel, bn), 0, 0, h); h = fnv1a(h, cstl_bintree_size(&s->bt));
            h = walk_bt(s->bt2.root, offsetof(struct pel, bn), 0, 0, h); h = fnv1a(h, cstl_bintree_size(&s->bt2)); break;
    case 2: h = walk_bt(s->rb.t.root, offsetof(struct pel, rn.n), 1, 0, h); h = fnv1a(h, cstl_rbtree_size(&s->rb));
            h = walk_bt(s->rb2.t.root, offsetof(struct pel, rn.n), 1, 0, h); h = fnv1a(h, cstl_rbtree_size(&s->rb2)); break;
    case 7: h = walk_bt(s->hp.bt.root, offsetof(struct pel, bn), 0, 0, h); h = fnv1a(h, cstl_heap_size(&s->hp));
            h = walk_bt(s->hp2.bt.root, offsetof(struct pel, bn), 0, 0, h); h = fnv1a(h, cstl_heap_size(&s->hp2)); break;
    case 12: {
        const struct cstl_dlist_node *n; int guard = 0;
        for (n = s->dl.h.n; n != &s->dl.h && guard++ < 200; n = n->n) h = fnv1a(h, (uint64_t)ELOF(n, dn)->id + 1);
        for (n = s->dl.h.p; n != &s->dl.h && guard++ < 400; n = n->p) h = fnv1a(h, (uint64_t)ELOF(n, dn)->id + 3);
        h = fnv1a(h, cstl_dlist_size(&s->dl));
        for (guard = 0, n = s->dl2.h.n; n != &s->dl2.h && guard++ < 200; n = n->n) h = fnv1a(h, (uint64_t)ELOF(n, dn)->id + 5);
        for (n = s->dl2.h.p; n != &s->dl2.h && guard++ < 400; n = n->p) h = fnv1a(h, (uint64_t)ELOF(n, dn)->id + 7);
        h = fnv1a(h, cstl_dlist_size(&s->dl2));
        break;
    }
    case 13: {
        const struct cstl_slist_node *n; int guard = 0;
        for (n = s->sl.h.n; n != NULL && guard++ < 200; n = n->n) h = fnv1a(h, (uint64_t)ELOF(n, sn)->id + 1);
        h = fnv1a(h, cstl_slist_size(&s->sl));
        h = fnv1a(h, s->sl.t == &s->sl.h ? 0 : (uint64_t)ELOF(s->sl.t, sn)->id + 1);
        for (guard = 0, n = s->sl2.h.n; n != NULL && guard++ < 200; n = n->n) h = fnv1a(h, (uint64_t)ELOF(n, sn)->id + 5);
        h = fnv1a(h, cstl_slist_size(&s->sl2));
        h = fnv1a(h, s->sl2.t == &s->sl2.h ? 0 : (uint64_t)ELOF(s->sl2.t, sn)->id + 1);
        break;
    }
    case 3: {
        uint64_t fh = 0x3;      /* on this task's stack: the audit itself may be preempted */
        g_inlib = 1; cstl_hash_foreach(&s->ht, fe_visit, &fh); g_inlib = 0;
        h = fnv1a(h, fh); h = fnv1a(h, cstl_hash_size(&s->ht));
        fh = 0x5; g_inlib = 1; cstl_hash_foreach(&s->ht2, fe_visit, &fh); g_inlib = 0;
        h = fnv1a(h, fh); h = fnv1a(h, cstl_hash_size(&s->ht2));
        break;
    }
    case 8: {
        int k; cstl_map_iterator_t it;
        for (k = 0; k < 16; k++) { g_inlib = 1; cstl_map_find(&s->map, &s->keys[k], &it); g_inlib = 0; h = fnv1a(h, it.key ? (uint64_t)(*(const int *)it.key) * 4 + (uint64_t)(uintptr_t)it.val : 0x77); }
        h = fnv1a(h, cstl_map_size(&s->map));
        break;
    }
    case 9: {
        size_t n = cstl_vector_size(&s->vec);
        const uint32_t *d = cstl_vector_data(&s->vec);
        h = fnv1a(h, n); h = fnv1a(h, cstl_vector_capacity(&s->vec));
        for (i = 0; i < n; i++) h = fnv1a(h, d[i]);
        n = cstl_vector_size(&s->vec2); d = cstl_vector_data(&s->vec2);
        h = fnv1a(h, n); h = fnv1a(h, cstl_vector_capacity(&s->vec2));
        for (i = 0; i < n; i++) h = fnv1a(h, d[i]);
        break;
    }
    case 10: {
        const char *a = cstl_string_str(&s->str), *b = cstl_string_str(&s->str2);
        for (; a && *a; a++) h = fnv1a(h, (unsigned char)*a);
        h = fnv1a(h, 0x1f);
        for (; b && *b; b++) h = fnv1a(h, (unsigned char)*b);
        h = fnv1a(h, cstl_string_size(&s->str));
        break;
    }
    case 11:
        for (i = 0; i < s->arrn; i++) h = fnv1a(h, s->arr[i]);
        break;
    case 14: {
        for (i = 0; i < 3; i++) {
            size_t n = cstl_array_size(&s->ar[i]), q; const unsigned char *d = cstl_array_data_const(&s->ar[i]);
            h = fnv1a(h, n); h = fnv1a(h, d != NULL);                   /* contents identify the view; addresses differ from pass to pass */
            for (q = 0; q < n && q < 24; q++) h = fnv1a(h, *(const uint32_t *)cstl_array_at_const(&s->ar[i], q));
        }
        break;
    }
    case 5:
        for (i = 0; i < 3; i++) { h = fnv1a(h, cstl_shared_ptr_get(&s->sp[i]) != NULL); h = fnv1a(h, cstl_shared_ptr_unique(&s->sp[i])); }
        h = fnv1a(h, (uint64_t)s->cleared);
        break;
    }
    return h;
}

/* ------------------------------------------------------------ operations */

/* instruction-level jitter (schedules 3-5): when the quantum of basic blocks is used up, the thread is not stopped at the block
 * boundary but the x86 trap flag is set, a SIGTRAP arrives after every instruction, and the thread is stopped after 1 ... 24
 * more instructions whose address lies in the library's own code section. A window of a few instructions inside one basic
 * block (three inlined structure copies through a static temporary) is invisible at basic-block granularity and wide open
 * here. (Single-stepping whole runs works too but costs 35 us a trap in this VM.) */
static int step_mode; static long fine; static uint64_t lib_steps, all_traps;
extern char __start_libtext[] __attribute__((weak)), __stop_libtext[] __attribute__((weak));
#if defined(__x86_64__)
# define TF_ON()  __asm__ volatile("leaq -128(%%rsp), %%rsp\n\tpushfq\n\torq $0x100, (%%rsp)\n\tpopfq\n\tleaq 128(%%rsp), %%rsp" ::: "cc", "memory")
# define TF_OFF() __asm__ volatile("leaq -128(%%rsp), %%rsp\n\tpushfq\n\tandq $-257, (%%rsp)\n\tpopfq\n\tleaq 128(%%rsp), %%rsp" ::: "cc", "memory")
#else
# define TF_ON() ((void)0)
# define TF_OFF() ((void)0)
#endif
#define L(stmt) do { g_inlib = 1; stmt; if (step_mode) { TF_OFF(); if (fine > 0) { fine = 0; quantum = 0; } } g_inlib = 0; } while (0)

static struct pel *free_el(struct pstate *s) { int i; for (i = 0; i < PN; i++) if (!s->el[i].in) return &s->el[i]; return NULL; }
static uint64_t idof(const void *e) { return e ? (uint64_t)((const struct pel *)e)->id + 1 : 0; }

static void st_init(struct pstate *s, int t, uint64_t seed, unsigned junk)
{
    int i;
    memset(s, (int)junk, sizeof *s);
    for (i = 0; i < PN; i++) { s->el[i].id = t * 100 + i; s->el[i].key = 0; s->el[i].in = 0; }
    for (i = 0; i < 16; i++) s->keys[i] = i;
    prng_seed(&s->rnd, seed ^ 0x9e37);
    s->cleared = 0; s->arrn = 0;
    s->odd = t & 1; s->ord.dir = (t & 1) ? -1 : 1; s->ord.calls = 0;      /* cmp_el_rev with dir -1 orders exactly like cmp_el with dir +1 */
    if (t == 2) s->ord.dir = -1;                                          /* the third thread really orders the other way round */
    g_inlib = 1;
    switch (kind_g) {
    case 1: cstl_bintree_init(&s->bt, CMP_EL(s), &s->ord, offsetof(struct pel, bn)); cstl_bintree_init(&s->bt2, CMP_EL(s), &s->ord, offsetof(struct pel, bn)); break;
    case 2: cstl_rbtree_init(&s->rb, CMP_EL(s), &s->ord, offsetof(struct pel, rn)); cstl_rbtree_init(&s->rb2, CMP_EL(s), &s->ord, offsetof(struct pel, rn)); break;
    case 7: cstl_heap_init(&s->hp, CMP_EL(s), &s->ord, offsetof(struct pel, bn)); cstl_heap_init(&s->hp2, CMP_EL(s), &s->ord, offsetof(struct pel, bn)); break;
    case 12: cstl_dlist_init(&s->dl, offsetof(struct pel, dn)); cstl_dlist_init(&s->dl2, offsetof(struct pel, dn)); break;
    case 13: cstl_slist_init(&s->sl, offsetof(struct pel, sn)); cstl_slist_init(&s->sl2, offsetof(struct pel, sn)); break;
    case 3: cstl_hash_init(&s->ht, offsetof(struct pel, hn)); cstl_hash_resize(&s->ht, 5, NULL); cstl_hash_init(&s->ht2, offsetof(struct pel, hn)); cstl_hash_resize(&s->ht2, 3, NULL); break;
    case 8: cstl_map_init(&s->map, cmp_int, &s->ord); break;
    case 9: cstl_vector_init(&s->vec, sizeof(uint32_t)); cstl_vector_init(&s->vec2, sizeof(uint32_t)); break;
    case 10: cstl_string_init(&s->str); cstl_string_init(&s->str2); break;
    case 5: for (i = 0; i < 3; i++) cstl_shared_ptr_init(&s->sp[i]); for (i = 0; i < 2; i++) cstl_weak_ptr_init(&s->wp[i]); break;
    case 14: for (i = 0; i < 3; i++) cstl_array_init(&s->ar[i]); for (i = 0; i < 24; i++) s->ext[i] = (uint32_t)(t * 1000 + i); s->ext_user = -1; break;
    }
    /* trees start with a dozen elements so that erases meet every shape from the first operation on */
    if (kind_g == 1 || kind_g == 2)
        for (i = 0; i < 12; i++) {
            struct pel *e = &s->el[i];
            e->key = (int)((seed >> (i * 4)) % 12); e->in = 1;
            if (kind_g == 1) cstl_bintree_insert(&s->bt, e, NULL); else cstl_rbtree_insert(&s->rb, e, NULL);
        }
    g_inlib = 0;
}

static void st_fini(struct pstate *s)
{
    int i;
    g_inlib = 1;
    switch (kind_g) {
    case 3: cstl_hash_clear(&s->ht, NULL); cstl_hash_clear(&s->ht2, NULL); break;
    case 8: cstl_map_clear(&s->map, NULL, NULL); break;
    case 9: cstl_vector_clear(&s->vec); cstl_vector_clear(&s->vec2); break;
    case 10: cstl_string_clear(&s->str); cstl_string_clear(&s->str2); break;
    case 5: for (i = 0; i < 3; i++) cstl_shared_ptr_reset(&s->sp[i]); for (i = 0; i < 2; i++) cstl_weak_ptr_reset(&s->wp[i]); break;
    case 14: for (i = 0; i < 3; i++) cstl_array_reset(&s->ar[i]); break;
    }
    g_inlib = 0;
}

static uint64_t do_op(struct pstate *s, const op_t *o)
{
    uint64_t sel = o->a[1], a = o->a[2], b = o->a[3], r = 0;
    struct pel probe, *e; void *ret = NULL;
    memset(&probe, 0, sizeof probe);
    probe.key = (int)(a % 12); probe.id = -1;
    if (b % 11 == 7 || (b % 11 == 8 && (kind_g == 12 || kind_g == 13))) {
        /* the thread's two containers of this kind trade places (or, lists: the second is appended to the first) first */
        int q, did = 1, cat = b % 11 == 8;
        switch (kind_g) {
        case 1: L(cstl_bintree_swap(&s->bt, &s->bt2)); break;
        case 2: L(cstl_rbtree_swap(&s->rb, &s->rb2)); break;
        case 7: L(cstl_heap_swap(&s->hp, &s->hp2)); break;
        case 12: if (cat) L(cstl_dlist_concat(&s->dl, &s->dl2)); else L(cstl_dlist_swap(&s->dl, &s->dl2)); break;
        case 13: if (cat) L(cstl_slist_concat(&s->sl, &s->sl2)); else L(cstl_slist_swap(&s->sl, &s->sl2)); break;
        case 3: L(cstl_hash_swap(&s->ht, &s->ht2)); break;
        case 9: L(cstl_vector_swap(&s->vec, &s->vec2)); break;
        default: did = 0;
        }
        if (did && kind_g != 9) for (q = 0; q < PN; q++) { if (cat) { if (s->el[q].in == 2) s->el[q].in = 1; } else if (s->el[q].in) s->el[q].in = 3 - s->el[q].in; }
    }
    switch (kind_g) {
    case 1: case 2:
        switch (sel % 7) {
        case 6: {
            uint64_t n = 0;
            if (kind_g == 1) L(cstl_bintree_clear(&s->bt, clr_el, &n)); else L(cstl_rbtree_clear(&s->rb, clr_el, &n));
            r = n;
            break;
        }
        case 5: {
            uint64_t fh = 0x5; size_t hmin = 0, hmax = 0;
            if (kind_g == 1) { L(cstl_bintree_foreach(&s->bt, tv_visit, &fh, (b & 1) ? CSTL_BINTREE_FOREACH_DIR_REV : CSTL_BINTREE_FOREACH_DIR_FWD)); L(cstl_bintree_height(&s->bt, &hmin, &hmax)); }
            else { L(cstl_rbtree_foreach(&s->rb, tv_visit, &fh, (b & 1) ? CSTL_BINTREE_FOREACH_DIR_REV : CSTL_BINTREE_FOREACH_DIR_FWD)); L(cstl_rbtree_height(&s->rb, &hmin, &hmax)); }
            r = fnv1a(fh, hmin * 100 + hmax);
            break;
        }
        case 0: case 1:
            if ((e = free_el(s)) == NULL) break;
            e->key = (int)(a % 12); e->in = 1;
            if (kind_g == 1) L(cstl_bintree_insert(&s->bt, e, NULL)); else L(cstl_rbtree_insert(&s->rb, e, NULL));
            r = idof(e);
            break;
        case 2: case 3:
            if (kind_g == 1) L(ret = cstl_bintree_erase(&s->bt, &probe)); else L(ret = cstl_rbtree_erase(&s->rb, &probe));
            if (ret) ((struct pel *)ret)->in = 0;
            r = idof(ret);
            break;
        default:
            if (kind_g == 1) L(ret = (void *)cstl_bintree_find(&s->bt, &probe, NULL)); else L(ret = (void *)cstl_rbtree_find(&s->rb, &probe, NULL));
            r = idof(ret);
        }
        break;
    case 7:
        switch (sel % 8) {
        case 7: { int q; uint64_t n = 0; L(cstl_heap_clear(&s->hp, clr_count)); for (q = 0; q < PN; q++) if (s->el[q].in == 1) { n++; s->el[q].in = 0; } r = n; break; }
        case 0: case 1: case 2: case 3:
            if ((e = free_el(s)) == NULL) break;
            e->key = (int)(a % 12); e->in = 1;
            L(cstl_heap_push(&s->hp, e)); r = idof(e);
            break;
        default:
            L(ret = cstl_heap_pop(&s->hp));
            if (ret) ((struct pel *)ret)->in = 0;
            r = idof(ret);
        }
        break;
    case 12:
        switch (sel % 9) {
        case 8: { int q; uint64_t n = 0; L(cstl_dlist_clear(&s->dl, clr_count)); for (q = 0; q < PN; q++) if (s->el[q].in == 1) { n++; s->el[q].in = 0; } r = n; break; }
        case 0: case 1: if ((e = free_el(s)) == NULL) break; e->key = (int)(a % 12); e->in = 1; L(cstl_dlist_push_back(&s->dl, e)); r = idof(e); break;
        case 2: if ((e = free_el(s)) == NULL) break; e->key = (int)(a % 12); e->in = 1; L(cstl_dlist_push_front(&s->dl, e)); r = idof(e); break;
        case 3: L(ret = cstl_dlist_pop_front(&s->dl)); if (ret) ((struct pel *)ret)->in = 0; r = idof(ret); break;
        case 4: L(ret = cstl_dlist_pop_back(&s->dl)); if (ret) ((struct pel *)ret)->in = 0; r = idof(ret); break;
        case 5: L(cstl_dlist_reverse(&s->dl)); break;
        case 6: L(cstl_dlist_sort(&s->dl, CMP_EL(s), &s->ord)); break;
        default: L(ret = cstl_dlist_find(&s->dl, &probe, CMP_EL(s), &s->ord, (b & 1) ? CSTL_DLIST_FOREACH_DIR_REV : CSTL_DLIST_FOREACH_DIR_FWD)); r = idof(ret);
        }
        break;
    case 13:
        switch (sel % 8) {
        case 7: { int q; uint64_t n = 0; L(cstl_slist_clear(&s->sl, clr_count)); for (q = 0; q < PN; q++) if (s->el[q].in == 1) { n++; s->el[q].in = 0; } r = n; break; }
        case 0: case 1: if ((e = free_el(s)) == NULL) break; e->key = (int)(a % 12); e->in = 1; L(cstl_slist_push_back(&s->sl, e)); r = idof(e); break;
        case 2: if ((e = free_el(s)) == NULL) break; e->key = (int)(a % 12); e->in = 1; L(cstl_slist_push_front(&s->sl, e)); r = idof(e); break;
        case 3: L(ret = cstl_slist_pop_front(&s->sl)); if (ret) ((struct pel *)ret)->in = 0; r = idof(ret); break;
        case 4: L(cstl_slist_reverse(&s->sl)); break;
        case 5: L(cstl_slist_sort(&s->sl, CMP_EL(s), &s->ord)); break;
        default:
            if (cstl_slist_size(&s->sl) >= 2) { void *f; L(f = cstl_slist_front(&s->sl)); L(ret = cstl_slist_erase_after(&s->sl, f)); if (ret) ((struct pel *)ret)->in = 0; r = idof(ret); }
        }
        break;
    case 3:
        switch (sel % 8) {
        case 0: case 1: if ((e = free_el(s)) == NULL) break; e->in = 1; e->key = (int)(a % 24); L(cstl_hash_insert(&s->ht, (size_t)e->key, e)); r = idof(e); break;
        case 2: L(ret = cstl_hash_find(&s->ht, (size_t)(a % 24), NULL, NULL)); r = idof(ret); break;
        case 3: L(ret = cstl_hash_find(&s->ht, (size_t)(a % 24), NULL, NULL)); if (ret) { L(cstl_hash_erase(&s->ht, ret)); ((struct pel *)ret)->in = 0; } r = idof(ret); break;
        case 4: L(cstl_hash_resize(&s->ht, 1 + (size_t)(a % 30), b % 3 == 0 ? NULL : b % 3 == 1 ? cstl_hash_div : cstl_hash_mul)); break;
        case 5: L(cstl_hash_rehash(&s->ht)); break;
        case 6: L(cstl_hash_shrink_to_fit(&s->ht)); break;
        default: { float ld; L(ld = cstl_hash_load(&s->ht)); r = (uint64_t)(ld * 1000.0f); }
        }
        break;
    case 8: {
        cstl_map_iterator_t it; int rc = 0;
        memset(&it, 0, sizeof it);
        switch (sel % 9) {
        case 8: { uint64_t n = 0; L(cstl_map_clear(&s->map, clr_map, &n)); rc = (int)n; break; }
        case 0: case 1: case 2: case 3: L(rc = cstl_map_insert(&s->map, &s->keys[a % 16], (void *)(uintptr_t)(1 + a % 3), &it)); break;
        case 4: case 5: L(rc = cstl_map_erase(&s->map, &s->keys[a % 16], &it)); break;
        default: L(cstl_map_find(&s->map, &s->keys[a % 16], &it));
        }
        r = (uint64_t)(rc + 2) * 1000 + (it.key ? (uint64_t)(*(const int *)it.key) * 4 + (uint64_t)(uintptr_t)it.val : 999);
        break;
    }
    case 9: {
        size_t n = cstl_vector_size(&s->vec), i;
        switch (sel % 7) {
        case 0: case 1: {
            size_t nn = (size_t)(a % 40);
            L(cstl_vector_resize(&s->vec, nn));
            for (i = n; i < nn; i++) ((uint32_t *)cstl_vector_data(&s->vec))[i] = (uint32_t)(prng_next(&s->rnd) % 50);
            break;
        }
        case 2: L(cstl_vector_reserve(&s->vec, (size_t)(a % 60))); break;
        case 3: L(cstl_vector_shrink_to_fit(&s->vec)); break;
        case 4: L(__cstl_vector_sort(&s->vec, CMP_U32(s), &s->ord, cstl_swap, (cstl_sort_algorithm_t)(b % 5))); break;
        case 5: L(cstl_vector_reverse(&s->vec)); break;
        default: { uint32_t want = (uint32_t)(a % 50); ssize_t at; L(at = cstl_vector_find(&s->vec, &want, CMP_U32(s), &s->ord)); r = (uint64_t)(at + 1); }
        }
        break;
    }
    case 10: {
        static const char *words[] = { "abc", "xy", "q", "hello", "" };
        size_t n = cstl_string_size(&s->str);
        switch (sel % 8) {
        case 0: case 1: if (n < 60) L(cstl_string_append_str(&s->str, words[a % 5])); break;
        case 2: if (n < 60) L(cstl_string_insert_str(&s->str, (size_t)(b % (n + 1)), words[a % 5])); break;
        /* positions strictly inside the string: nothing here is meant to abort */
        case 3: if (n) L(cstl_string_erase(&s->str, (size_t)(b % n), (size_t)(a % 6))); break;
        case 4: if (n) L(cstl_string_substr(&s->str, (size_t)(b % n), (size_t)(a % 9), &s->str2)); break;
        case 5: if (n) { ssize_t at; L(at = cstl_string_find_ch(&s->str, "abxyqhelo"[a % 9], 0)); r = (uint64_t)(at + 1); } break;
        case 6: { int c; L(c = cstl_string_compare(&s->str, &s->str2)); r = (uint64_t)((c > 0) - (c < 0) + 1); break; }
        default: if (n) { ssize_t at; L(at = cstl_string_find_str(&s->str, words[a % 4], 0)); r = (uint64_t)(at + 1); }
        }
        break;
    }
    case 11: {
        size_t i;
        switch (sel % 4) {
        case 0: s->arrn = 1 + (size_t)(a % 40); for (i = 0; i < s->arrn; i++) s->arr[i] = (uint32_t)(prng_next(&s->rnd) % 30); break;
        case 1: L(cstl_raw_array_sort(s->arr, s->arrn, sizeof s->arr[0], CMP_U32(s), &s->ord, cstl_swap, &s->scratch, (cstl_sort_algorithm_t)(b % 5))); break;
        case 2: L(cstl_raw_array_reverse(s->arr, s->arrn, sizeof s->arr[0], cstl_swap, &s->scratch)); break;
        default: { uint32_t want = (uint32_t)(a % 30); ssize_t at; L(at = cstl_raw_array_find(s->arr, s->arrn, sizeof s->arr[0], &want, CMP_U32(s), &s->ord)); r = (uint64_t)(at + 1); }
        }
        break;
    }
    case 14: {
        int i = (int)(a % 3), j = (int)(b % 3); size_t n = cstl_array_size(&s->ar[i]), q;
        switch (sel % 6) {
        case 0: {
            size_t nn = 1 + (size_t)(a % 20);
            L(cstl_array_alloc(&s->ar[i], nn, sizeof(uint32_t)));
            for (q = 0; q < cstl_array_size(&s->ar[i]); q++) *(uint32_t *)cstl_array_at(&s->ar[i], q) = (uint32_t)(prng_next(&s->rnd) % 1000);
            break;
        }
        case 1: case 2: if (n) { size_t beg = (size_t)(a % (n + 1)), end = beg + (size_t)(b % (n - beg + 1)); L(cstl_array_slice(&s->ar[i], beg, end, &s->ar[j])); } break;
        case 3: if (n) L(cstl_array_unslice(&s->ar[i], &s->ar[j])); break;
        case 4: L(cstl_array_reset(&s->ar[i])); break;
        default:
            /* an external buffer: described by one array object at a time, handed back by release() */
            if (s->ext_user < 0 && cstl_array_size(&s->ar[0]) + cstl_array_size(&s->ar[1]) + cstl_array_size(&s->ar[2]) == 0) {
                L(cstl_array_set(&s->ar[i], s->ext, 24, sizeof(uint32_t))); s->ext_user = i;
            } else if (s->ext_user >= 0) {
                void *back = NULL; int u;
                for (u = 0; u < 3; u++) if (u != s->ext_user) L(cstl_array_reset(&s->ar[u]));
                L(cstl_array_release(&s->ar[s->ext_user], &back));
                r = back == (void *)s->ext; s->ext_user = -1;
            }
        }
        break;
    }
    case 5: {
        int i = (int)(a % 3), j = (int)(b % 3), w = (int)(a % 2);
        switch (sel % 8) {
        case 0: L(cstl_shared_ptr_alloc(&s->sp[i], 16, clr_count)); break;
        case 1: if (i != j) L(cstl_shared_ptr_share(&s->sp[i], &s->sp[j])); break;
        case 2: case 3: L(cstl_shared_ptr_reset(&s->sp[i])); break;
        case 4: L(cstl_weak_ptr_from(&s->wp[w], &s->sp[j])); break;
        case 5: L(cstl_weak_ptr_lock(&s->wp[w], &s->sp[j])); break;
        case 6: L(cstl_weak_ptr_reset(&s->wp[w])); break;
        default: L(cstl_shared_ptr_swap(&s->sp[i], &s->sp[j]));
        }
        break;
    }
    }
    return r;
}

/* ---------------------------------------------------------------- fibers */

static void fiber_yield(void)
{
    struct ptask *T = &tk[cur];
    T->saved_inlib = g_inlib;
    swapcontext(&T->ctx, &sched_ctx);
    g_inlib = T->saved_inlib;
}

static void preempt(void)
{
    if (cur >= 0 && --quantum <= 0) {
        if (step_mode) { if (fine <= 0) { fine = 1 + (long)prng_below(&sprng, 24); TF_ON(); } return; }
        switches++; fiber_yield();
    }
}

#if defined(__x86_64__)
#include <signal.h>
#include <ucontext.h>
static void trap_handler(int sig, siginfo_t *si, void *ucv)
{
    /* runs on the interrupted fiber's stack; the kernel has cleared the trap flag for the handler and puts it back on return.
     * Switching fibers from here is an ordinary swapcontext: the other fiber resumes inside its own handler invocation (or at
     * its start, or at its end) and returns to its own saved flags. */
    const ucontext_t *uc = ucv; uintptr_t pc = (uintptr_t)uc->uc_mcontext.gregs[REG_RIP];
    (void)sig; (void)si;
    all_traps++;
    if (cur < 0 || !g_inlib || fine <= 0) { ((ucontext_t *)ucv)->uc_mcontext.gregs[REG_EFL] &= ~(greg_t)0x100; return; }
    if (pc < (uintptr_t)__start_libtext || pc >= (uintptr_t)__stop_libtext) return;      /* in a callback or in libc: keep stepping */
    lib_steps++;
    if (--fine <= 0) {
        switches++; fiber_yield();
        ((ucontext_t *)ucv)->uc_mcontext.gregs[REG_EFL] &= ~(greg_t)0x100;              /* resumed: run on at full speed */
    }
}
#endif

static void fiber_escape(void)
{
    if (step_mode) TF_OFF();
    if (cur >= 0) { pending_violation = 1; swapcontext(&tk[cur].ctx, &sched_ctx); }
}

static void abort_in_fiber(int kind)
{
    char key[96];
    g_inlib = 0;
    if (step_mode) TF_OFF();
    snprintf(key, sizeof key, "%s/%s/op/two-threads-distinct-objects", prop_g, kind == 2 ? "assert" : "abort");
    sim_violation(key, "the library %s in one of two threads that each use only their own objects", kind == 2 ? "failed an assertion" : "aborted");
}

static void run_script(int t, int pass)
{
    struct ptask *T = &tk[t];
    for (T->pc = 0; T->pc < T->nops; T->pc++) {
        uint64_t r = do_op(&T->st, &T->ops[T->pc]);
        uint64_t d = fnv1a(fnv1a(0xd16, r), snap(&T->st));
        if (pass == 0) T->dig[T->pc] = d;
        else if (T->dig[T->pc] != d) {
            char key[96];
            g_run.step = T->pc; g_cur_ctx = "two-threads-distinct-objects";
            snprintf(key, sizeof key, "%s/interleaving_changes_result/op/two-threads-distinct-objects", prop_g);
            sim_violation(key, "thread %d, operation %d (selector %llu): result or container structure differs from what the same thread sees when it runs alone - the library carries state from one object to another", t, T->pc, (unsigned long long)T->ops[T->pc].a[1]);
        }
        EVT("op", t, T->pc, d);
    }
    st_fini(&T->st);
}

static void task_main(int t)
{
    run_script(t, 1);
    tk[t].done = 1;
    swapcontext(&tk[t].ctx, &sched_ctx);
    for (;;) swapcontext(&tk[t].ctx, &sched_ctx);
}

static void p_exec(const plan_t *p)
{
    struct simheap_cfg hc = { RP_MOVE, 0, (unsigned char)p->cfg[CF_JUNK] };
    int t, k; uint64_t sh = 0x9a;

    K = (int)p->cfg[CF_K]; if (K < 2) K = 2; if (K > PT) K = PT;
    kind_g = p->mode % 200;
    step_mode = 0; fine = 0;
    prop_g = kind_g == 1 ? "C01" : kind_g == 2 ? "C02" : kind_g == 3 ? "C03" : kind_g == 5 ? "C05" : kind_g == 7 ? "C07" : kind_g == 8 ? "C08" :
             kind_g == 9 ? "C09" : kind_g == 10 ? "C10" : kind_g == 11 ? "C11" : kind_g == 12 ? "C12" : kind_g == 14 ? "C14" : "C13";
    g_cur_prop = prop_g; g_cur_ctx = "two-threads-distinct-objects";
    Q = p->cfg[CF_QUANT] ? p->cfg[CF_QUANT] : 10;
    prng_seed(&sprng, p->cfg[CF_SSEED]);
    g_rand_hook = par_rand;
    for (t = 0; t < PT; t++) { tk[t].nops = 0; tk[t].done = 1; }
    for (k = 0; k < p->nops; k++) {
        t = (int)(p->ops[k].a[0] % (uint64_t)K);
        if (tk[t].nops < PMAXOPS) tk[t].ops[tk[t].nops++] = p->ops[k];
    }

    /* pass 0: every thread alone (the reference) */
    simheap_reset(&hc, p->cfg[CF_JUNK]);
    g_fiber_escape = NULL; g_abort_in_fiber = abort_in_fiber;
    for (t = 0; t < K; t++) {
        st_init(&tk[t].st, t, p->cfg[CF_TSEED0 + t], (unsigned)p->cfg[CF_JUNK]);
        cur = t; run_script(t, 0); cur = -1;
    }
    if (simheap_live_count(TAG_LIB) != 0) { char key[96]; snprintf(key, sizeof key, "%s/leak/op/sequential", prop_g); sim_violation(key, "%u library blocks left after every container was cleared", simheap_live_count(TAG_LIB)); }

    /* pass 1: interleaved at basic-block granularity */
    pending_violation = 0; switches = 0;
    g_fiber_escape = fiber_escape; g_abort_in_fiber = abort_in_fiber;
    for (t = 0; t < K; t++) {
        st_init(&tk[t].st, t, p->cfg[CF_TSEED0 + t], (unsigned)p->cfg[CF_JUNK]);
        tk[t].done = 0;
        if (!stacks[t]) stacks[t] = malloc(PSTACK);
        getcontext(&tk[t].ctx);
        tk[t].ctx.uc_stack.ss_sp = stacks[t]; tk[t].ctx.uc_stack.ss_size = PSTACK; tk[t].ctx.uc_link = NULL;
        makecontext(&tk[t].ctx, (void (*)(void))task_main, 1, t);
    }
    g_preempt_hook = preempt;
#if defined(__x86_64__)
    if ((p->mode >= 200 || p->cfg[CF_STRAT] >= 3) && __start_libtext != NULL && __stop_libtext > __start_libtext) {
        struct sigaction sa;
        memset(&sa, 0, sizeof sa); sa.sa_sigaction = trap_handler; sa.sa_flags = SA_SIGINFO; sigemptyset(&sa.sa_mask);
        sigaction(SIGTRAP, &sa, NULL);
        step_mode = 1; lib_steps = 0; fine = 0;
    }
#endif
    for (;;) {
        int el[PT], n = 0;
        for (t = 0; t < K; t++) if (!tk[t].done) el[n++] = t;
        if (n == 0) break;
        if (p->cfg[CF_STRAT] % 3 == 0) {
            /* uniform: a random thread runs for a short quantum (a handful of basic blocks), sometimes a long one */
            t = el[prng_below(&sprng, (uint64_t)n)];
            quantum = 1 + (long)prng_below(&sprng, (prng_chance(&sprng, 1, 8) ? Q * 40 : Q));
        } else {
            /* park and overtake: a thread is stopped at a random point inside an operation and stays parked while
             * another one runs through whole operations (hundreds or thousands of basic blocks), then it resumes */
            static int parked = -1; static int phase;
            if (switches == 0 && sh == 0x9a) { parked = -1; phase = 0; }
            if (phase == 0 || n == 1) {
                t = el[prng_below(&sprng, (uint64_t)n)];
                quantum = 1 + (long)prng_below(&sprng, p->cfg[CF_STRAT] % 3 == 1 ? 400 : 60);
                parked = t; phase = 1;
            } else {
                int cand[PT], nc = 0, q;
                for (q = 0; q < n; q++) if (el[q] != parked) cand[nc++] = el[q];
                t = nc ? cand[prng_below(&sprng, (uint64_t)nc)] : el[0];
                quantum = 200 + (long)prng_below(&sprng, 4000);
                phase = 0;
            }
        }
        sh = fnv1a(sh, (uint64_t)t * 64 + (uint64_t)tk[t].pc);
        cur = t;
        swapcontext(&sched_ctx, &tk[t].ctx);
        if (step_mode) TF_OFF();        /* (the flag is a CPU flag: swapcontext neither saves nor restores it) */
        cur = -1; g_inlib = 0;
        if (pending_violation) { g_preempt_hook = NULL; g_rand_hook = NULL; step_mode = 0; _longjmp(g_run_jmp, 1); }
    }
    if (step_mode) { PROBE("par_single_step_runs"); PROBE_N("par_library_instructions_stepped", lib_steps); PROBE_N("par_traps_in_all", all_traps); all_traps = 0; }
    step_mode = 0;
    g_preempt_hook = NULL; g_rand_hook = NULL;
    g_fiber_escape = NULL; g_abort_in_fiber = NULL;
    if (simheap_live_count(TAG_LIB) != 0) { char key[96]; snprintf(key, sizeof key, "%s/leak/op/two-threads-distinct-objects", prop_g); sim_violation(key, "%u library blocks left after every container was cleared", simheap_live_count(TAG_LIB)); }
    simheap_audit(prop_g, "par");
    g_run.statehash = sh;
    state_note(sh);
    PROBE("par_runs"); PROBE_N("par_preemptions_inside_library", switches);
    if (switches == 0) PROBE("par_runs_without_preemption");
    g_run.steps += (uint64_t)p->nops;
    g_run.nontrivial = switches > 4;
}

static void p_gen(prng_t *r, int mode, plan_t *p)
{
    static const uint64_t quants[] = { 2, 5, 12, 40, 150 };
    int K_ = 2 + (int)prng_below(r, 2), t, i;
    p->cfg[CF_K] = (uint64_t)K_;
    p->cfg[CF_SSEED] = prng_next(r);
    p->cfg[CF_JUNK] = 1 + prng_below(r, 254);
    p->cfg[CF_QUANT] = quants[prng_below(r, 5)];
    p->cfg[CF_STRAT] = prng_below(r, 6);      /* 0 uniform, 1-2 park and overtake; 3-5 the same with instruction-level jitter */
    (void)mode;
    for (t = 0; t < PT; t++) p->cfg[CF_TSEED0 + t] = prng_next(r);
    for (t = 0; t < K_; t++) {
        int n = 4 + (int)prng_below(r, 30);
        for (i = 0; i < n; i++) {
            op_t *o = plan_add(p, P_OP);
            o->a[0] = (uint64_t)t; o->a[1] = prng_below(r, 840); o->a[2] = prng_below(r, 5040); o->a[3] = prng_below(r, 5040);
        }
    }
}

static const char *p_crash_prop(const plan_t *p, int opkind) { (void)p; (void)opkind; return prop_g; }

const world_t world_par = { "par", p_gen, p_exec, p_opname, p_crash_prop };
