#!/usr/bin/env python3
"""
Sensitivity catalogue: small source mutations of libcstl, each applied to a scratch
copy of /repo under /var/tmp (removed afterwards). For each mutant:
  1. the pinned suite (make test) must still pass (else the mutant is 'killed-by-suite', not interesting),
  2. the owning property's quick check must report a violation (exit 1),
  3. optionally other properties' checks are run to see that they stay quiet or also fire.

  mutants.py list
  mutants.py run [id-prefix ...] [--no-suite] [--also C03,C04] [--tier quick]
Results are appended to /verif/sim/mutants_results.json (committed as the detection matrix).
"""
import sys, os, json, shutil, subprocess, time, argparse

VERIF = os.path.dirname(os.path.dirname(os.path.abspath(__file__)))
sys.path.insert(0, os.path.join(VERIF, "sim"))
from mutants_catalogue import MUTANTS, NEGATIVE  # noqa: E402


def sh(cmd, cwd=None, env=None, timeout=3600):
    p = subprocess.run(cmd, shell=isinstance(cmd, str), cwd=cwd, env=env, stdout=subprocess.PIPE,
                       stderr=subprocess.STDOUT, text=True, timeout=timeout)
    return p.returncode, p.stdout


def make_scratch(tag):
    d = f"/var/tmp/verif-mut-{os.getpid()}-{tag}"
    shutil.rmtree(d, ignore_errors=True)
    os.makedirs(d)
    for sub in ("src", "include", "Makefile"):
        src = os.path.join("/repo", sub)
        if os.path.isdir(src):
            shutil.copytree(src, os.path.join(d, sub))
        else:
            shutil.copy(src, os.path.join(d, sub))
    os.makedirs(os.path.join(d, "build", "test"), exist_ok=True)
    os.makedirs(os.path.join(d, "build", "benches"), exist_ok=True)
    return d


def apply(d, m):
    for (f, old, new) in m["edits"]:
        p = os.path.join(d, f)
        s = open(p).read()
        if s.count(old) != 1:
            return f"edit does not apply uniquely in {f}: count={s.count(old)}"
        open(p, "w").write(s.replace(old, new))
    return None


def suite_passes(d):
    rc, out = sh("make -s test 2>&1 | tail -5", cwd=d, timeout=900)
    ok = "100%" in out and "Failures: 0" in out and "Errors: 0" in out
    return ok, out.strip().split("\n")[-1] if out.strip() else ""


def run_check(d, prop, tier):
    env = dict(os.environ, VERIF_REPO=d, VERIF_BUILD_ROOT=os.path.join(d, "_build"))
    t0 = time.time()
    rc, out = sh([sys.executable, os.path.join(VERIF, "sim", "run.py"), "check", prop, "--tier", tier], cwd=VERIF, env=env)
    keys = [l.strip() for l in out.split("\n") if l.strip().startswith("key=")]
    return rc, keys, round(time.time() - t0, 1), out


def main():
    ap = argparse.ArgumentParser()
    ap.add_argument("cmd")
    ap.add_argument("ids", nargs="*")
    ap.add_argument("--no-suite", action="store_true")
    ap.add_argument("--also", default="")
    ap.add_argument("--tier", default="quick")
    ap.add_argument("--negative", action="store_true", help="run the negative controls (correct changes: every listed check must stay silent)")
    a = ap.parse_args()
    cat = NEGATIVE if a.negative else MUTANTS
    if a.cmd == "list":
        for m in cat:
            print(m["id"], m["prop"], "-", m["what"])
        return 0
    sel = [m for m in cat if not a.ids or any(m["id"].startswith(i) for i in a.ids)]
    results = []
    for m in sel:
        d = make_scratch(m["id"])
        try:
            err = apply(d, m)
            if err:
                print(f"{m['id']}: APPLY-FAILED {err}"); results.append(dict(id=m["id"], status="apply-failed", err=err)); continue
            suite = None
            if not a.no_suite:
                ok, last = suite_passes(d)
                suite = ok
                if not ok:
                    print(f"{m['id']}: killed by the pinned suite ({last})")
                    results.append(dict(id=m["id"], prop=m["prop"], status="killed-by-suite")); continue
            props = [m["prop"]] + [p for p in a.also.split(",") if p] + m.get("also", [])
            row = dict(id=m["id"], prop=m["prop"], what=m["what"], suite_passes=suite, checks={})
            for p in props:
                rc, keys, wall, out = run_check(d, p, a.tier)
                row["checks"][p] = dict(exit=rc, keys=keys[:4], wall_s=wall)
                verdict = {0: "silent", 1: "DETECTED", 2: "HARNESS-ERROR"}.get(rc, f"exit{rc}")
                print(f"{m['id']}: {p} {verdict} {wall}s {keys[:2]}")
                if rc == 2:
                    print(out[-1500:])
            results.append(row)
        finally:
            shutil.rmtree(d, ignore_errors=True)
    path = os.path.join(VERIF, "sim", "mutants_results.json")
    old = []
    if os.path.exists(path):
        old = json.load(open(path))
    keep = {r["id"]: r for r in old}
    for r in results:
        keep[("neg:" if a.negative else "") + r["id"]] = dict(r, id=("neg:" if a.negative else "") + r["id"])
    json.dump(sorted(keep.values(), key=lambda r: r["id"]), open(path, "w"), indent=1)
    return 0


if __name__ == "__main__":
    sys.exit(main())
