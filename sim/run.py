#!/usr/bin/env python3
"""
Driver for the libcstl deterministic-simulation checks.

  run.py setup                      build all variants from /repo's working tree
  run.py check <Cxx> [--tier quick|thorough] [--runs-scale F]
  run.py replay <file>              re-execute a replay file in a fresh process
  run.py determinism [--n N]        same seeds twice, several worker counts: event hashes must match
  run.py gen <world> <mode> <index> [--seed S]   print the plan of one run

The driver takes no decision that affects a run: it builds, shards run indices over
worker processes, collects result lines, gates and shrinks violations, writes
replay files and evidence.
"""
import sys, os, json, time, hashlib, subprocess, shutil, tempfile, glob, re, argparse
from concurrent.futures import ThreadPoolExecutor

VERIF = os.path.dirname(os.path.dirname(os.path.abspath(__file__)))
SIM = os.path.join(VERIF, "sim")
REPO = os.environ.get("VERIF_REPO", "/repo")
BUILD_ROOT = os.environ.get("VERIF_BUILD_ROOT", os.path.join(VERIF, "build"))
SCRATCH = os.path.realpath(REPO) != "/repo"      # mutant / seeded-change runs never touch committed evidence
EVIDENCE = os.path.join(VERIF, "evidence") if not SCRATCH else os.path.join(BUILD_ROOT, "scratch-evidence")
REPLAYS = os.path.join(VERIF, "replays") if not SCRATCH else os.path.join(BUILD_ROOT, "scratch-replays")
NCPU = int(os.environ.get("VERIF_JOBS", "16"))
DEFAULT_SEED = 20261004

sys.path.insert(0, SIM)
from checks import CHECKS, WORLD_INFO   # noqa: E402

# ------------------------------------------------------------------ build

LIB_SRCS = ["array", "bintree", "common", "dlist", "hash", "heap", "map", "memory",
            "rbtree", "slist", "string", "vector"]
CORE_SRCS = ["core/core.c", "core/simheap.c", "core/tsanwrap.c"]
TSAN_WRAPS = "-Wl," + ",".join(f"--wrap=__tsan_atomic{b}_{op}" for b in (8, 16, 32, 64)
                               for op in ("load", "store", "exchange", "fetch_add", "fetch_sub", "fetch_and", "fetch_or", "fetch_xor",
                                          "compare_exchange_strong", "compare_exchange_weak"))
WORLD_SRCS = sorted(glob.glob(os.path.join(SIM, "worlds", "*.c")))

SHIPPED = ["-std=c99", "-pedantic", "-D_POSIX_C_SOURCE=199309L", "-Wno-unused-function"]
UBSAN = "-fsanitize=address,bounds,object-size,pointer-overflow,shift,integer-divide-by-zero,null,unreachable"
VARIANTS = {
    # name: (cc, lib flags, harness flags, link flags)
    "rel":  ("gcc", SHIPPED + ["-O2", "-DNDEBUG", "-g"], ["-O2", "-g"], []),
    "dbg":  ("gcc", SHIPPED + ["-O0", "-g"], ["-O1", "-g"], []),
    "asan": ("gcc", SHIPPED + ["-O1", "-DNDEBUG", "-g", UBSAN, "-fno-sanitize-recover=all", "-fno-omit-frame-pointer"],
             ["-O1", "-g", UBSAN, "-fno-sanitize-recover=all", "-fno-omit-frame-pointer"],
             [UBSAN]),
    # work meter for C19: basic blocks of library code executed (the harness is not instrumented)
    "work": ("gcc", SHIPPED + ["-O2", "-DNDEBUG", "-g", "-fsanitize-coverage=trace-pc"], ["-O2", "-g", "-DSIM_WORK"], []),
    # race detection for C06: only /repo/src/memory.c and worlds/memc_payload.c are instrumented (see TSAN_ONLY)
    "tsan": ("clang", SHIPPED + ["-O1", "-DNDEBUG", "-g", "-fno-omit-frame-pointer"], ["-O1", "-g", "-DSIM_TSAN"], ["-fsanitize=thread", TSAN_WRAPS]),
}
TSAN_ONLY = {"memory", "worlds/memc_payload.c"}
WRAPS = "-Wl,--wrap=malloc,--wrap=realloc,--wrap=free,--wrap=abort,--wrap=rand,--wrap=__assert_fail"
HASH_RENAME = ["-Dcstl_hash_size=simclient_hash_size", "-Dcstl_hash_load=simclient_hash_load"]


def tree_key():
    h = hashlib.sha256()
    files = sorted(glob.glob(os.path.join(REPO, "src", "*.c")) + glob.glob(os.path.join(REPO, "include", "cstl", "*.h")))
    files += sorted(glob.glob(os.path.join(SIM, "core", "*")) + glob.glob(os.path.join(SIM, "worlds", "*"))
                    + glob.glob(os.path.join(SIM, "shim", "*")))
    for f in files:
        if os.path.isfile(f):
            h.update(f.encode()); h.update(b"\0")
            with open(f, "rb") as fh:
                h.update(fh.read())
    h.update(json.dumps(VARIANTS, sort_keys=True).encode())
    return h.hexdigest()[:20]


def run_cmd(cmd):
    p = subprocess.run(cmd, stdout=subprocess.PIPE, stderr=subprocess.STDOUT, text=True)
    return p.returncode, p.stdout, cmd


def build(variants=None, quiet=False):
    """Build (or reuse) simrun for each variant from /repo's current working tree."""
    global WORLD_SRCS
    WORLD_SRCS = sorted(glob.glob(os.path.join(SIM, "worlds", "*.c")))
    variants = variants or list(VARIANTS)
    key = tree_key()
    root = os.path.join(BUILD_ROOT, key)
    jobs = []
    todo = []
    for v in variants:
        out = os.path.join(root, v)
        if os.path.exists(os.path.join(out, "simrun")):
            continue
        os.makedirs(out, exist_ok=True)
        todo.append(v)
        cc, libf, harf, _ = VARIANTS[v]
        inc = ["-I", os.path.join(REPO, "include")]
        for s in LIB_SRCS:
            extra = ["-isystem", os.path.join(SIM, "shim")] if s == "memory" else []
            if v == "tsan" and s in TSAN_ONLY:
                extra = extra + ["-fsanitize=thread"]
            jobs.append([cc] + libf + extra + inc + ["-c", os.path.join(REPO, "src", s + ".c"),
                                                      "-o", os.path.join(out, "lib_" + s + ".o")])
        for s in CORE_SRCS + [os.path.relpath(w, SIM) for w in WORLD_SRCS]:
            o = os.path.join(out, "h_" + s.replace("/", "_").replace(".c", ".o"))
            tsx = ["-fsanitize=thread"] if (v == "tsan" and s in TSAN_ONLY) else []
            wflags = ["-Wall", "-Wextra", "-Wno-unused-parameter", "-Wno-misleading-indentation"] + (["-Wno-clobbered", "-Wno-int-in-bool-context"] if cc == "gcc" else ["-Wno-unknown-warning-option"])
            jobs.append([cc, "-std=gnu11"] + wflags + tsx
                        + harf + HASH_RENAME + inc + ["-I", os.path.join(SIM, "core"),
                                                       "-c", os.path.join(SIM, s), "-o", o])
    if jobs:
        t0 = time.time()
        with ThreadPoolExecutor(NCPU) as ex:
            res = list(ex.map(run_cmd, jobs))
        for rc, out, cmd in res:
            if rc != 0:
                print("BUILD FAILED:", " ".join(cmd)); print(out)
                shutil.rmtree(root, ignore_errors=True)
                sys.exit(2)
            if out.strip() and not quiet and os.environ.get("VERIF_SHOW_WARNINGS"):
                print(out)
        for v in todo:
            out = os.path.join(root, v)
            cc, _, _, linkf = VARIANTS[v]
            if v == "work":
                # the library's code goes into a section of its own ("libtext"): the linker then defines __start_libtext and
                # __stop_libtext, and the single-step scheduler of world "par" knows which instructions are library instructions
                for o in sorted(glob.glob(os.path.join(out, "lib_*.o"))):
                    rc, txt, cmd = run_cmd(["objcopy", "--rename-section", ".text=libtext", o])
                    if rc != 0:
                        print("OBJCOPY FAILED:", " ".join(cmd)); print(txt)
                        shutil.rmtree(root, ignore_errors=True)
                        sys.exit(2)
            objs = sorted(glob.glob(os.path.join(out, "*.o")))
            rc, o, cmd = run_cmd([cc] + linkf + objs + [WRAPS, "-lm", "-o", os.path.join(out, "simrun.tmp")])
            if rc != 0:
                print("LINK FAILED:", " ".join(cmd)); print(o)
                shutil.rmtree(root, ignore_errors=True)
                sys.exit(2)
            os.rename(os.path.join(out, "simrun.tmp"), os.path.join(out, "simrun"))
        if not quiet:
            print(f"[build] {','.join(todo)} for tree {key} in {time.time() - t0:.1f}s")
    # prune old builds: keep the 4 most recent and anything touched in the last 30 minutes (another check may be using it)
    try:
        os.utime(root)
        dirs = sorted((d for d in glob.glob(os.path.join(BUILD_ROOT, "*")) if os.path.isdir(d) and len(os.path.basename(d)) == 20),
                      key=os.path.getmtime, reverse=True)
        now = time.time()
        for d in dirs[4:]:
            if d != root and now - os.path.getmtime(d) > 1800:
                shutil.rmtree(d, ignore_errors=True)
    except OSError:
        pass
    return {v: os.path.join(root, v, "simrun") for v in variants}


# ------------------------------------------------------------- run workers

class BatchResult:
    def __init__(self):
        self.runs = 0; self.ok = 0; self.aborts = 0; self.steps = 0; self.nontrivial = 0
        self.viols = []      # dicts
        self.crashes = []
        self.probes = {}
        self.hashes = {}     # (variant, index) -> evhash (only kept when asked)
        self.harness_bugs = []


def parse_worker_output(text, variant, res, keep_hashes=False):
    """Returns (index of a crashed run or None, index to restart from or None)."""
    crashed = None
    last_begin = None
    restart = None
    had_viol = False; last_viol_idx = None
    for line in text.split("\n"):
        if not line:
            continue
        if line.startswith("B "):
            last_begin = int(line[2:]); continue
        if line.startswith("R ") or line.startswith("X "):
            head, *rest = line.split("\t")
            f = head.split()
            idx = int(f[1]); status = f[2]
            res.runs += 1
            res.steps += int(f[4]); res.nontrivial += int(f[5])
            if keep_hashes:
                res.hashes[(variant, idx)] = f[3]
            if status == "ok":
                res.ok += 1
            elif status == "abort":
                res.aborts += 1
            elif status == "viol":
                had_viol = True; last_viol_idx = idx
                res.viols.append(dict(variant=variant, index=idx, key=rest[0], detail=rest[1], step=int(rest[2]), evhash=f[3]))
            last_begin = None
        elif line.startswith("RESTART "):
            restart = int(line.split()[1])
        elif line.startswith("CRASH "):
            f = line.split()
            idx = int(f[1])
            if had_viol:
                # an earlier run of this process ended in a violation: its damage may be what crashed this one.
                # Do not count it; the run is repeated in a fresh process - unless it is the very run whose violation
                # was just recorded (the crash happened while that run was being torn down): then the next one.
                return None, (idx + 1 if idx == last_viol_idx else idx)
            sig, step, opn, prop, ctx = f[2], int(f[3]), f[4], f[5], (f[6] if len(f) > 6 else "-")
            where = f[7] if len(f) > 7 else "?"
            res.crashes.append(dict(variant=variant, index=idx, key=f"{prop}/crash/{sig}/{opn}/{ctx}",
                                    detail=f"{sig} during {opn} (step {step}, {where})", step=step, evhash="crash",
                                    in_harness=(where == "harness" and sig != "TIMEOUT"), line=line))
            res.runs += 1
            crashed = idx
            last_begin = None
        elif line.startswith("PROBES"):
            for kv in line.split()[1:]:
                k, v = kv.split("=")
                res.probes[k] = res.probes.get(k, 0) + int(v)
        elif line.startswith("HARNESS-BUG"):
            res.harness_bugs.append(line)
    if crashed is None and last_begin is not None:
        # died without a CRASH line
        res.crashes.append(dict(variant=variant, index=last_begin, key="C00/crash/UNKNOWN/?/-",
                                detail="worker died without a crash line", step=-1, evhash="crash"))
        res.runs += 1
        crashed = last_begin
    return crashed, restart


STATE_SAMPLE = {"quick": 1, "thorough": 64}
CRASH_TOTAL = [0]
CRASH_STORM = 60        # once this many crashes are collected the violation is established: stop restarting workers


def run_chunk(args):
    binary, variant, world, mode, seed, lo, hi, tmpdir, keep_hashes = args[:9]
    sample = args[9] if len(args) > 9 else 1
    res = BatchResult()
    cur = lo
    while cur < hi:
        if CRASH_TOTAL[0] >= CRASH_STORM:
            break
        tag = f"{variant}-{world}-{mode}-{cur}"
        cmd = [binary, "run", world, str(mode), str(seed), str(cur), str(hi),
               "--plans", os.path.join(tmpdir, "plans-" + tag), "--states", os.path.join(tmpdir, "states-" + tag),
               "--interleavings", os.path.join(tmpdir, "inter-" + tag), "--state-sample", str(sample)]
        p = subprocess.run(cmd, stdout=subprocess.PIPE, stderr=subprocess.PIPE, text=True, errors="replace")
        crashed, restart = parse_worker_output(p.stdout, variant, res, keep_hashes)
        if crashed is None and restart is not None:
            cur = restart
            continue
        if crashed is None:
            if p.returncode != 0:
                res.harness_bugs.append(f"worker exit {p.returncode}: {' '.join(cmd)}\n{p.stdout[-500:]}\n{p.stderr[-500:]}")
            break
        if res.crashes and res.crashes[-1]["evhash"] == "crash":
            res.crashes[-1]["stderr"] = p.stderr[-3000:]
        cur = crashed + 1
        CRASH_TOTAL[0] += 1
        if len(res.crashes) >= 10:
            break       # crash storm: the violation is established, do not burn the budget on restarts
    return res


def merge_results(rs):
    out = BatchResult()
    for r in rs:
        out.runs += r.runs; out.ok += r.ok; out.aborts += r.aborts; out.steps += r.steps
        out.nontrivial += r.nontrivial
        out.viols += r.viols; out.crashes += r.crashes; out.harness_bugs += r.harness_bugs
        out.hashes.update(r.hashes)
        for k, v in r.probes.items():
            out.probes[k] = out.probes.get(k, 0) + v
    return out


def run_batch(bins, world, mode, seed, plan, tmpdir, keep_hashes=False, jobs=NCPU, sample=1):
    """plan: list of (variant, lo, hi). Returns merged BatchResult."""
    chunks = []
    for variant, lo, hi in plan:
        n = hi - lo
        if n <= 0:
            continue
        csize = max(50, min(20000, n // (jobs * 3) + 1))
        c = lo
        while c < hi:
            chunks.append((bins[variant], variant, world, mode, seed, c, min(hi, c + csize), tmpdir, keep_hashes, sample))
            c += csize
    with ThreadPoolExecutor(jobs) as ex:
        rs = list(ex.map(run_chunk, chunks))
    return merge_results(rs)


def count_distinct(binary, pattern):
    files = glob.glob(pattern)
    if not files:
        return 0, 0
    total = 0; uniq = 0
    # merge in groups to keep argv small
    p = subprocess.run([binary, "merge"] + files, stdout=subprocess.PIPE, text=True)
    try:
        total, uniq = map(int, p.stdout.split())
    except ValueError:
        pass
    return total, uniq


# ---------------------------------------------------- plans: gen/exec/shrink

def gen_plan(binary, world, mode, seed, index):
    p = subprocess.run([binary, "gen", world, str(mode), str(seed), str(index)], stdout=subprocess.PIPE, text=True)
    return p.stdout


def parse_plan(text):
    head, ops, sched = [], [], None
    for line in text.split("\n"):
        if line.startswith("op "):
            ops.append(line)
        elif line.startswith("sched"):
            sched = line
        elif line.startswith("end") or not line.strip():
            continue
        else:
            head.append(line)
    return head, ops, sched


def plan_text(head, ops, sched=None):
    return "\n".join(head + ops + ([sched] if sched else []) + ["end"]) + "\n"


def exec_plans(binary, texts, trace=False, dump_sched=False):
    """Execute plans (each in a forked child of one fresh simrun process). Returns list of result dicts."""
    inp = "".join(texts)
    cmd = [binary, "exec"] + (["--trace"] if trace else []) + (["--dump-sched"] if dump_sched else [])
    p = subprocess.run(cmd, input=inp, stdout=subprocess.PIPE, stderr=subprocess.PIPE, text=True, errors="replace")
    out = [None] * len(texts)
    scheds = {}
    for line in p.stdout.split("\n"):
        if line.startswith("SCHED "):
            f = line.split()
            scheds[int(f[1])] = " ".join(f[2:])
        elif line.startswith("X "):
            head, *rest = line.split("\t")
            f = head.split()
            i = int(f[1])
            if i >= len(out):
                continue
            if f[2] == "viol":
                out[i] = dict(status="viol", key=rest[0], detail=rest[1], step=int(rest[2]), evhash=f[3])
            elif f[2] in ("ok", "abort"):
                out[i] = dict(status=f[2], key=None, evhash=f[3])
            else:
                out[i] = dict(status="badplan", key=None, evhash="")
        elif line.startswith("CRASH "):
            f = line.split()
            i = int(f[1])
            if i < len(out):
                ctx = f[6] if len(f) > 6 else "-"
                out[i] = dict(status="crash", key=f"{f[5]}/crash/{f[2]}/{f[4]}/{ctx}",
                              detail=f"{f[2]} during {f[4]} (step {f[3]})", step=int(f[3]), evhash="crash",
                              where=(f[7] if len(f) > 7 else "?"))
    for i in range(len(out)):
        if out[i] is None:
            out[i] = dict(status="lost", key=None, evhash="")
        if i in scheds:
            out[i]["sched"] = scheds[i]
    return out, p.stderr


def attach_schedule(binary, text, key):
    """Worlds with a scheduler: turn the seed-derived schedule of this run into an explicit one, so that
    sub-plans keep their meaning while shrinking and the replay file does not depend on generator code."""
    head, ops, sched = parse_plan(text)
    if sched:
        return text
    rs, _ = exec_plans(binary, [text], dump_sched=True)
    if rs[0].get("key") != key or not rs[0].get("sched"):
        return text
    cand = plan_text(head, ops, "sched " + rs[0]["sched"])
    chk, _ = exec_plans(binary, [cand])
    return cand if chk[0].get("key") == key else text


def shrink(binary, text, key, budget_s=45, max_cands=3000):
    """ddmin over plan ops, keeping the same violation key."""
    head, ops, sched = parse_plan(text)
    t0 = time.time()
    cands = 0

    def fails_many(cand_lists):
        nonlocal cands
        cands += len(cand_lists)
        rs, _ = exec_plans(binary, [plan_text(head, c, sched) for c in cand_lists])
        return [r["key"] == key for r in rs]

    n = 2
    while len(ops) >= 2 and time.time() - t0 < budget_s and cands < max_cands:
        chunk = max(1, len(ops) // n)
        subsets = [ops[i:i + chunk] for i in range(0, len(ops), chunk)]
        complements = [ops[:i] + ops[i + chunk:] for i in range(0, len(ops), chunk)]
        res = fails_many(complements)
        hit = next((i for i, ok in enumerate(res) if ok), None)
        if hit is not None:
            ops = complements[hit]
            n = max(n - 1, 2)
            continue
        if chunk == 1:
            break
        n = min(len(ops), n * 2)
    # final single-op removal pass
    changed = True
    while changed and time.time() - t0 < budget_s and cands < max_cands and len(ops) > 1:
        changed = False
        complements = [ops[:i] + ops[i + 1:] for i in range(len(ops))]
        res = fails_many(complements)
        for i, ok in enumerate(res):
            if ok:
                ops = complements[i]; changed = True
                break
    # shorten an explicit schedule, if any
    if sched:
        toks = sched.split()[1:]
        lo = 0
        while len(toks) > 1 and time.time() - t0 < budget_s and cands < max_cands:
            half = toks[:len(toks) // 2]
            rs, _ = exec_plans(binary, [plan_text(head, ops, "sched " + " ".join(half))])
            cands += 1
            if rs[0]["key"] == key:
                toks = half
            else:
                break
        sched = "sched " + " ".join(toks)
    return plan_text(head, ops, sched), cands


def confirm_violation(bins, x, seed):
    """Gate: the violation must reproduce, identically, in two fresh processes.
    A crash that does not (wild reads depend on the address-space layout), or a crash that surfaced while harness
    code was running (a consequence of earlier memory corruption, or a harness bug), is re-judged under the asan
    variant, which stops at the faulting instruction. Returns (variant, plan text, key) or None."""
    binary = bins[x["variant"]]
    text = gen_plan(binary, x["world"], x["mode"], seed, x["index"])
    g1, _ = exec_plans(binary, [text]); g2, _ = exec_plans(binary, [text])
    same = g1[0]["key"] == x["key"] and g2[0]["key"] == x["key"] and g1[0]["evhash"] == g2[0]["evhash"] \
        and (x["evhash"] == "crash" or g1[0]["evhash"] == x["evhash"])
    # tsan variant: only src/memory.c and the payload accessors are instrumented, so a race report is about the
    # library's synchronisation wherever the second access happens to sit (e.g. the payload read of a task)
    tsan_report = x["variant"] == "tsan" and "/crash/SANITIZER/" in x["key"]
    if same and (not x.get("in_harness") or tsan_report):
        return x["variant"], text, x["key"]
    if "asan" in bins and x["variant"] != "asan":
        a = bins["asan"]
        atext = gen_plan(a, x["world"], x["mode"], seed, x["index"])
        if atext == text:
            a1, _ = exec_plans(a, [text]); a2, _ = exec_plans(a, [text])
            if a1[0]["key"] and a1[0]["key"] == a2[0]["key"] and a1[0].get("where") != "harness" \
                    and (a1[0]["status"] == "crash" or a1[0]["evhash"] == a2[0]["evhash"]):
                return "asan", text, a1[0]["key"]
    return None


# --------------------------------------------------------------- findings

def mem_available_gib():
    try:
        for line in open("/proc/meminfo"):
            if line.startswith("MemAvailable:"):
                return int(line.split()[1]) / (1 << 20)
    except OSError:
        pass
    return 0.0


def load_known():
    path = os.path.join(VERIF, "known_findings.json")
    if not os.path.exists(path):
        return []
    with open(path) as f:
        return json.load(f).get("findings", [])


def match_known(key, known):
    for k in known:
        if k.get("status") == "open" and k.get("key") == key:
            return k
    return None


# ------------------------------------------------------------------ check

def do_check(prop, tier, seed, scale=1.0, jobs=NCPU):
    if prop not in CHECKS:
        print(f"no check for {prop}"); return 2
    spec = CHECKS[prop]
    t0 = time.time()
    variants = sorted({v for b in spec["batches"] for v in b["variants"]})
    bins = build(variants)
    known = load_known()
    tmpdir = tempfile.mkdtemp(prefix="simtmp-", dir=BUILD_ROOT)
    os.makedirs(EVIDENCE, exist_ok=True); os.makedirs(REPLAYS, exist_ok=True)

    total = BatchResult()
    skipped_batches = []
    per_batch = []
    samples = []
    all_viols = []
    try:
        for b in spec["batches"]:
            n = int(b[tier] * scale)
            if b[tier] == 0:
                continue            # a batch that exists in one tier only
            if b.get("min_mem_gib") and mem_available_gib() < b["min_mem_gib"]:
                skipped_batches.append(dict(world=b["world"], mode=b["mode"], reason=f"needs {b['min_mem_gib']} GiB of available memory"))
                continue
            plan = []
            lo = 0
            for v, share in b["variants"].items():
                cnt = max(1, int(n * share))
                plan.append((v, lo, lo + cnt)); lo += cnt
            r = run_batch(bins, b["world"], b["mode"], seed, plan, tmpdir, jobs=jobs, sample=STATE_SAMPLE[tier])
            per_batch.append(dict(world=b["world"], mode=b["mode"], runs=r.runs,
                                  variants={v: hi - l for v, l, hi in plan}))
            for x in r.viols + r.crashes:
                x["world"] = b["world"]; x["mode"] = b["mode"]
            total = merge_results([total, r])
            # samples: the first two plans of this batch
            for i in range(2):
                samples.append(dict(world=b["world"], mode=b["mode"], index=i,
                                    plan=gen_plan(bins[plan[0][0]], b["world"], b["mode"], seed, i).split("\n")[:40]))
        n_plans, distinct_plans = count_distinct(bins[variants[0]], os.path.join(tmpdir, "plans-*"))
        n_states, distinct_states = count_distinct(bins[variants[0]], os.path.join(tmpdir, "states-*"))
        n_inter, distinct_inter = count_distinct(bins[variants[0]], os.path.join(tmpdir, "inter-*"))

        if total.harness_bugs:
            print("HARNESS-BUG:", total.harness_bugs[0])
            return 2
        if "asan" not in bins:
            bins.update(build(["asan"], quiet=True))

        # ---- a worker that died without a CRASH line (killed outright, or a runtime that exits on its own): the
        # plan is re-executed alone, in its own variant and under asan, to obtain an attributable verdict; if
        # neither gives one the check is broken, not silent
        unknown = [x for x in total.crashes if x["key"].startswith("C00/crash/UNKNOWN")]
        for x in unknown[:4]:
            resolved = None
            for v in dict.fromkeys([x["variant"], "asan"]):
                text = gen_plan(bins[v], x["world"], x["mode"], seed, x["index"])
                g, _ = exec_plans(bins[v], [text])
                if g[0]["key"] and not g[0]["key"].startswith("C00/"):
                    resolved = (v, g[0]); break
            if resolved is None:
                print(f"HARNESS-ERROR property={prop} run={x['index']} variant={x['variant']} world={x['world']} mode={x['mode']}: "
                      f"a worker died without a crash line and the plan does not fail when executed alone; stderr tail: {x.get('stderr', '')[-600:]}")
                return 2
            x["key"] = resolved[1]["key"]; x["variant"] = resolved[0]; x["detail"] = resolved[1].get("detail", x["detail"])
        total.crashes = [x for x in total.crashes if not x["key"].startswith("C00/crash/UNKNOWN")]

        by_key = {}
        for x in sorted(total.viols + total.crashes, key=lambda x: x["index"]):
            by_key.setdefault(x["key"], []).append(x)
        reported = []; known_hits = []; other_prop = {}; unshrunk = []; unconfirmed = []
        exit_code = 0
        for key, xs in sorted(by_key.items(), key=lambda kv: -len(kv[1])):
            kprop = key.split("/")[0]
            if kprop != prop:
                other_prop[key] = len(xs)
                continue
            x = xs[0]
            conf = confirm_violation(bins, x, seed)
            if conf is None:
                # not reproducible in a fresh process: never reported as a violation. Whether that makes the check
                # broken (exit 2) is decided below: not if other violations of this property were confirmed
                unconfirmed.append((key, x))
                continue
            cvariant, text, ckey = conf
            if ckey != key:
                # the deterministic form of this failure (usually the sanitizer's verdict at the faulting instruction)
                if ckey.split("/")[0] != prop:
                    other_prop[ckey] = other_prop.get(ckey, 0) + len(xs)
                    continue
                if any(r[0] == ckey for r in reported):
                    continue
                key = ckey
            x = dict(x, variant=cvariant)
            binary = bins[cvariant]
            kf = match_known(key, known)
            if kf is not None:
                known_hits.append((kf, len(xs)))
                continue
            if len(reported) >= 3:
                unshrunk.append((key, len(xs)))     # same batch, further symptom keys: listed, not minimised
                continue
            if x["world"] == "memc":
                text = attach_schedule(binary, text, key)
            small, cands = shrink(binary, text, key, budget_s=30 if tier == "quick" else 90)
            final, stderr = exec_plans(binary, [small], trace=True)
            if final[0]["key"] != key:
                small = text; final, stderr = exec_plans(binary, [small], trace=True)
            path = os.path.join(REPLAYS, f"{prop}-{seed}-{x['variant']}-{x['index']}.json")
            with open(path, "w") as f:
                json.dump(dict(format=1, property=prop, world=x["world"], mode=x["mode"], variant=x["variant"],
                               base_seed=seed, run=x["index"], key=key, detail=final[0].get("detail", x["detail"]),
                               step=final[0].get("step"), event_hash=final[0]["evhash"],
                               occurrences_in_batch=len(xs), shrink_candidates=cands,
                               ops_before=len(parse_plan(text)[1]), ops_after=len(parse_plan(small)[1]),
                               plan=small.split("\n"),
                               op_names=WORLD_INFO.get(x["world"], {}).get("ops", {}),
                               trace=stderr.split("\n")[-60:]), f, indent=1)
            reported.append((key, path, final[0].get("detail", x["detail"]), len(xs)))

        if unconfirmed and not reported and not known_hits:
            key, x = unconfirmed[0]
            print(f"HARNESS-NONDETERMINISM property={prop} key={key} run={x['index']} variant={x['variant']} "
                  f"first={x['evhash']} detail={x['detail']}: neither the original variant nor the asan variant reproduces it deterministically")
            return 2
        for key, x in unconfirmed:
            print(f"  unconfirmed, not reported (did not reproduce in a fresh process; usually collateral damage of the violations below): key={key} run={x['index']} variant={x['variant']}")
        for kf, cnt in known_hits:
            print(f"KNOWN-FINDING: property={prop} {kf['key']} {kf.get('what', '')} ({cnt} runs)")
        for key, path, detail, cnt in reported:
            print(f"VIOLATION property={prop} replay={path}")
            print(f"  key={key} occurrences={cnt} detail={detail}")
            exit_code = 1
        for key, cnt in unshrunk:
            print(f"  also: key={key} occurrences={cnt} (not minimised)")

        wall = time.time() - t0
        probes = dict(sorted(total.probes.items()))
        missing = [p for p in spec.get("required_probes", []) if probes.get(p, 0) == 0]
        ev = dict(
            property_id=prop, tier=tier, seed=seed, level=spec["level"],
            coverage=dict(
                evaluations=(probes.get(spec["evaluations_probe"], 0) + total.runs) if spec.get("evaluations_probe") else total.runs,
                seeded_plans_executed=total.runs,
                distinct_nontrivial=distinct_plans,
                rule=spec["rule"],
                samples=samples[:4],
                exhaustive=False,
                runs_ok=total.ok, runs_ended_by_expected_abort=total.aborts,
                logical_steps=total.steps,
                runs_per_hour=int(total.runs / max(wall, 1e-3) * 3600),
                simulated_time="none: the library has no clock; logical steps (operations / scheduling points) only",
                distinct_abstract_states=distinct_states * STATE_SAMPLE[tier],
                abstract_states_rule=("exact count of distinct abstract-state hashes" if STATE_SAMPLE[tier] == 1 else
                                      f"estimate: distinct hashes inside a 1/{STATE_SAMPLE[tier]} hash-prefix slice, times {STATE_SAMPLE[tier]} (bounds disk and memory in the thorough tier)"),
                nontrivial_runs=total.nontrivial,
                **({"distinct_interleavings": distinct_inter,
                    "interleavings_rule": "distinct schedule hashes over the runs of the scheduled batches: world memc - (scenario, sequence of (task, source line of the atomic step it was resumed at)); world par - sequence of (thread, index of the operation it was inside when resumed) with preemption at basic-block granularity"}
                   if n_inter else {}),
                fault_and_reach_probes=probes,
                required_probes_missing=missing,
                batches=per_batch,
                batches_skipped=skipped_batches,
                violations_of_other_properties_seen=other_prop,
                known_findings_hit=[kf["key"] for kf, _ in known_hits],
                real_code=spec.get("real_code", []),
                stubs=spec.get("stubs", []),
            ),
            assumptions=spec.get("assumptions", []),
            wall_s=round(wall, 2),
            violations=len(reported),
        )
        with open(os.path.join(EVIDENCE, f"{prop}.json"), "w") as f:
            json.dump(ev, f, indent=1)
        print(f"[{prop} {tier}] runs={total.runs} ok={total.ok} expected_aborts={total.aborts} steps={total.steps} "
              f"distinct_plans={distinct_plans} states={distinct_states} violations={len(reported)} "
              f"known={len(known_hits)} other_prop={sum(other_prop.values())} wall={wall:.1f}s")
        if missing and tier == "thorough":
            print(f"HARNESS-SELFCHECK: reach probes at zero: {missing}")
            return 2 if exit_code == 0 else exit_code
        return exit_code
    finally:
        shutil.rmtree(tmpdir, ignore_errors=True)


def do_replay(path):
    with open(path) as f:
        rp = json.load(f)
    bins = build([rp["variant"]], quiet=True)
    text = "\n".join(rp["plan"])
    if not text.endswith("\n"):
        text += "\n"
    res, stderr = exec_plans(bins[rp["variant"]], [text], trace=True)
    r = res[0]
    sys.stderr.write(stderr[-4000:])
    print(f"replay: status={r['status']} key={r.get('key')} detail={r.get('detail')} evhash={r['evhash']}")
    if r.get("key") == rp["key"]:
        print(f"VIOLATION property={rp['property']} replay={path}")
        return 1
    print("replay did not reproduce the recorded violation on the current tree")
    return 0


def do_determinism(n, seed):
    """Same seeds twice at different worker counts; event hashes must match pairwise."""
    bins = build()
    bad = 0; total = 0
    tmpdir = tempfile.mkdtemp(prefix="simdet-", dir=BUILD_ROOT)
    try:
        seen = set()
        for prop, spec in CHECKS.items():
            for b in spec["batches"]:
                for v in b["variants"]:
                    if (b["world"], b["mode"], v) in seen:
                        continue
                    seen.add((b["world"], b["mode"], v))
                    # batches of a few enormous runs (huge containers, gigabytes of real memory) are compared on a few runs only
                    m = min(n, max(1, min(b["quick"] or b["thorough"], b["thorough"])))
                    if b.get("min_mem_gib"):
                        m = 1 if mem_available_gib() >= b["min_mem_gib"] else 0
                    if m == 0:
                        continue
                    plan = [(v, 0, m)]
                    r1 = run_batch(bins, b["world"], b["mode"], seed, plan, tmpdir, keep_hashes=True, jobs=16)
                    r2 = run_batch(bins, b["world"], b["mode"], seed, plan, tmpdir, keep_hashes=True, jobs=3)
                    r3 = run_batch(bins, b["world"], b["mode"], seed, plan, tmpdir, keep_hashes=True, jobs=1) if n <= 400 and not b.get("min_mem_gib") else r1
                    diff = [k for k in r1.hashes if r1.hashes[k] != r2.hashes.get(k) or r1.hashes[k] != r3.hashes.get(k)]
                    total += len(r1.hashes)
                    bad += len(diff)
                    print(f"{b['world']:8s} mode={b['mode']:<3d} {v:5s} runs={len(r1.hashes)} mismatches={len(diff)}")
                    for f in glob.glob(os.path.join(tmpdir, "*")):
                        os.unlink(f)
    finally:
        shutil.rmtree(tmpdir, ignore_errors=True)
    print(f"determinism: {total} runs compared across 3 executions, {bad} mismatches")
    return 0 if bad == 0 else 2


def main():
    ap = argparse.ArgumentParser()
    ap.add_argument("cmd")
    ap.add_argument("args", nargs="*")
    ap.add_argument("--tier", default=os.environ.get("VERIF_TIER", "quick"))
    ap.add_argument("--seed", type=int, default=None)
    ap.add_argument("--runs-scale", type=float, default=float(os.environ.get("VERIF_RUNS_SCALE", "1.0")))
    ap.add_argument("--n", type=int, default=300)
    ap.add_argument("--variant", default="rel")
    a = ap.parse_args()
    seed = a.seed if a.seed is not None else int(os.environ.get("VERIF_SEED", DEFAULT_SEED))
    if a.cmd == "setup":
        build(); print("setup ok"); return 0
    if a.cmd == "check":
        return do_check(a.args[0], a.tier, seed, a.runs_scale)
    if a.cmd == "replay":
        return do_replay(a.args[0])
    if a.cmd == "determinism":
        return do_determinism(a.n, seed)
    if a.cmd == "gen":
        bins = build([a.variant], quiet=True)
        sys.stdout.write(gen_plan(bins[a.variant], a.args[0], int(a.args[1]), seed, int(a.args[2])))
        return 0
    print(__doc__); return 2


if __name__ == "__main__":
    sys.exit(main())
