#!/usr/bin/env python3
"""Regenerate /verif/MANIFEST.json from sim/checks.py (single source of truth)."""
import json, os, sys
HERE = os.path.dirname(os.path.abspath(__file__))
sys.path.insert(0, HERE)
from checks import CHECKS, MANIFEST_TEXT, NOT_APPLICABLE, PENDING  # noqa

props = [json.loads(l) for l in open(os.path.join(HERE, "..", "properties.jsonl"))]
ids = [p["id"] for p in props]
checks = []
na = []
for pid in ids:
    if pid in CHECKS:
        t = MANIFEST_TEXT[pid]
        checks.append(dict(
            property_id=pid,
            quick_cmd=f"python3 sim/run.py check {pid} --tier quick",
            thorough_cmd=f"python3 sim/run.py check {pid} --tier thorough",
            evidence_file=f"/verif/evidence/{pid}.json",
            replay_cmd_template="python3 sim/run.py replay {path}",
            engine="simrun",
            level_claimed=dict(category=CHECKS[pid]["level"], text=t["text"], design_ref=t["design_ref"]),
            level_note=t["note"],
            technique=t["technique"],
        ))
    elif pid in NOT_APPLICABLE:
        na.append(dict(property_id=pid, reason=NOT_APPLICABLE[pid]))
    else:
        na.append(dict(property_id=pid, reason=PENDING))
m = dict(
    version=1,
    setup_cmd="python3 sim/run.py setup",
    hooks=dict(guard="LIBCSTL_VERIF",
               enable="no source hooks are needed: the simulator reaches every seam from outside (link-time --wrap of malloc/realloc/free/abort/rand/__assert_fail, a shadowed <stdatomic.h>/<sched.h> on the include path for src/memory.c, harness-owned callbacks); the guard name is reserved and unused",
               baseline_off_cmd="make -C /repo test",
               source_commits=[], add_only=True),
    engines=[dict(name="simrun", path="/verif/sim", serves_properties=sorted(CHECKS),
                  kind_free_text="deterministic simulation with fault injection: C11 harness linking the real library objects built from /repo's working tree against a simulated outside world (sim heap, abort trap, rand stream, callbacks, fiber scheduler over a shadowed stdatomic.h for the reference counts, and a preemptive fiber scheduler at basic-block granularity - trace-pc instrumented library objects - for threads that keep to their own objects), seeded plans, reference-model oracles, gate + ddmin shrink + replay; Python driver for build/sharding/evidence only")],
    checks=checks,
    notes="See DESIGN.md. Violations are gated (two fresh-process replays with identical key and event hash) before being reported; an unreproducible one exits 2 (HARNESS-NONDETERMINISM), never 1. known_findings.json lists defects found and fixed.",
    not_applicable=na,
)
with open(os.path.join(HERE, "..", "MANIFEST.json"), "w") as f:
    json.dump(m, f, indent=1)
print(f"MANIFEST.json: {len(checks)} checks, {len(na)} not claimed")
