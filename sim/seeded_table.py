#!/usr/bin/env python3
"""Regenerate the table of seeded changes in DESIGN.md (between the seeded-table markers) from seeded/*/meta.json."""
import os, json, glob, re

VERIF = os.path.dirname(os.path.dirname(os.path.abspath(__file__)))


def rows():
    out = []
    for mp in sorted(glob.glob(os.path.join(VERIF, "seeded", "*", "meta.json"))):
        m = json.load(open(mp))
        what = " ".join((m.get("needs_to_manifest") or "").split())
        what = re.sub(r"^#+ [^-]*?(?=- |Change)", "", what)
        what = what.replace("|", "\\|")
        what = (what[:175] + "…") if len(what) > 176 else what
        caught = []
        for p, v in m.get("checks", {}).items():
            if v["exit"] == 1 and v["keys"]:
                k = v["keys"][0].split()[0].replace("key=", "")
                caught.append(f"{p}: `{k}`")
            elif v["exit"] == 1:
                caught.append(f"{p}: (violation)")
            else:
                caught.append(f"{p}: **silent**" if v["exit"] == 0 else f"{p}: exit {v['exit']}")
        out.append(f"| {m['name']} | {what} | {'; '.join(caught)} |")
    return out


def main():
    path = os.path.join(VERIF, "DESIGN.md")
    s = open(path).read()
    b, e = "<!-- seeded-table-begin -->", "<!-- seeded-table-end -->"
    table = ["| Change | What it is / what it needs (from the author's notes) | Caught by (quick tier), first key |", "|---|---|---|"] + rows()
    assert b in s and e in s
    s = s[:s.index(b) + len(b)] + "\n" + "\n".join(table) + "\n" + s[s.index(e):]
    open(path, "w").write(s)
    print(len(table) - 2, "rows")


if __name__ == "__main__":
    main()
