"""Registry of checks: which world/mode batches decide which property."""

STUBS_COMMON = ["malloc/realloc/free (sim heap over libc: ordinals, canaries, poison+quarantine, finite budget, injected failure)",
                "abort/__assert_fail (trap + longjmp)", "rand (seeded stream)", "caller callbacks (harness functions driven by the plan)"]
ASSUME_COMMON = ["seeded sampling, not exhaustive: a clean batch is evidence, not proof",
                 "glibc semantics for realloc(p,0); libc/libm run for real and are trusted",
                 "the sim heap, models and oracles are the trusted base"]

V_SEQ = {"rel": 0.8, "asan": 0.1, "dbg": 0.1}
V_ALLOC = {"rel": 0.7, "asan": 0.3}

CHECKS = {}


def check(prop, level, batches, rule, real_code, required_probes=(), assumptions=(), stubs=(), evaluations_probe=None):
    CHECKS[prop] = dict(level=level, batches=batches, rule=rule, real_code=list(real_code),
                        required_probes=list(required_probes), evaluations_probe=evaluations_probe,
                        assumptions=ASSUME_COMMON + list(assumptions), stubs=STUBS_COMMON + list(stubs))


RULE_SEQ = ("one evaluation = one seeded plan (swarm configuration + operation list) executed against the real "
            "library with the reference model checked after every operation; distinct = distinct plan hash; "
            "non-trivial = the run reached a container state with >= 2 elements (or the world's stated equivalent)")

check("C12", "exploration",
      [dict(world="lists", mode=12, variants=V_SEQ, quick=80000, thorough=4000000),
       dict(world="lists", mode=112, variants={"rel": 1.0}, quick=12, thorough=400),
       dict(world="lists", mode=122, variants={"rel": 1.0}, quick=0, thorough=24, min_mem_gib=24)],      # 2^23 ... 2^26 elements: six sizes x four key patterns, up to 160 s a run
      RULE_SEQ, ["src/dlist.c", "include/cstl/dlist.h"],
      required_probes=["d_reverse_len0to5", "d_reverse_odd", "d_reverse_even", "d_swap_with_empty", "d_foreach_self_remove",
                       "d_foreach_cancel", "d_concat_empty_src", "d_concat_empty_dst", "d_pop_empty", "d_find_absent", "d_swap_different_offsets", "comparator_reenters_library", "huge_sort", "huge_sort_2^20", "d_find_by_bare_key"],
      assumptions=["find hands the comparison function (sought object, element) - as every find in the library does; half of the finds search by a bare key object, the way callers avoid building a dummy element, and the comparison function checks which argument is which"])
check("C13", "exploration",
      [dict(world="lists", mode=13, variants=V_SEQ, quick=80000, thorough=4000000),
       dict(world="lists", mode=113, variants={"rel": 1.0}, quick=12, thorough=400),
       dict(world="lists", mode=123, variants={"rel": 1.0}, quick=0, thorough=24, min_mem_gib=24)],
      RULE_SEQ, ["src/slist.c", "include/cstl/slist.h"],
      required_probes=["s_pop_empty", "s_erase_last", "s_insert_after_tail", "s_swap_with_empty", "s_concat_empty_src",
                       "s_concat_empty_dst", "s_reverse", "s_sort", "s_foreach_cancel", "s_swap_different_offsets", "huge_sort", "huge_sort_2^20"])

WORLD_INFO = {}

# ---------------------------------------------------------------- manifest texts

PENDING = "not claimed in this revision: the simulation world for this property is not built yet (work in progress, see DESIGN.md)"
NOT_APPLICABLE = {
    "C18": "compile-and-link matrix over header combinations: nothing executes, so there is no schedule, fault, history or state for a simulator to drive (DESIGN.md section 3)",
}
MANIFEST_TEXT = {}


def mtext(prop, text, note, technique, design_ref):
    MANIFEST_TEXT[prop] = dict(text=text, note=note, technique=technique, design_ref=design_ref)


DEGENERATE = ("The property has no schedule, clock or I/O in it; the simulator contributes the sim heap (removed and cleared "
              "elements are poisoned and quarantined at once, canaries), callback faults (visit cancellation, self-removal, "
              "freeing clear callbacks) and seeded histories checked against a reference model after every operation. "
              "Sampling, not proof; small-scope closure is NOT claimed.")

mtext("C12",
      "Seeded random histories (80k quick / 8M thorough; 1-3 lists, lengths 0-5 over-weighted, 10% long runs up to 1000 elements) of every dlist operation "
      "against a reference sequence; after every operation the public next/prev links (sentinel included), both foreach directions, front/back/size are compared with the model. " + DEGENERATE,
      "trusted: harness model (array of element pointers), sim heap, gcc; asserts compiled out in the rel variant (shipped flags), on in dbg; ASan+UBSan subset in the asan variant",
      "deterministic simulation: seeded operation histories vs reference model inside sim heap (degenerate: no schedule/fault dimension beyond callbacks)",
      "DESIGN.md 4.C12")
mtext("C13",
      "Seeded random histories of every slist operation against a reference sequence, including pop_front on empty lists and a push_back after every tail-moving operation; "
      "after every operation the next-chain is walked to the node whose next is NULL and compared with back() and the model. " + DEGENERATE,
      "trusted: harness model, sim heap, gcc; rel (asserts off, shipped behaviour), dbg (asserts on: a failed library assert is a violation), asan variants",
      "deterministic simulation: seeded operation histories vs reference model inside sim heap (degenerate: no schedule/fault dimension beyond callbacks)",
      "DESIGN.md 4.C13")

V_TREES = {"rel": 0.8, "asan": 0.1, "dbg": 0.1}
check("C01", "exploration",
      [dict(world="trees", mode=1, variants=V_TREES, quick=60000, thorough=6000000),
       dict(world="trees", mode=121, variants={"rel": 0.5, "asan": 0.5}, quick=256, thorough=4000),      # plain trees 4100 ... 30000 levels deep, with teeth
       dict(world="trees", mode=120, variants={"rel": 1.0}, quick=0, thorough=12)],      # 2^32 modifications in a row: about 100 s per run; binary / red-black x three counts x two kinds of round
      RULE_SEQ, ["src/bintree.c", "src/rbtree.c", "include/cstl/bintree.h", "include/cstl/rbtree.h"],
      required_probes=["insert_hinted", "erase_leaf", "erase_one_child", "erase_two_children_succ_is_child",
                       "erase_two_children_succ_deeper", "erase_root", "erase_absent", "foreach_cancel", "find_absent", "find_present"])
check("C02", "exploration",
      [dict(world="trees", mode=2, variants=V_TREES, quick=60000, thorough=6000000),
       dict(world="trees", mode=102, variants={"rel": 0.5, "asan": 0.5}, quick=8, thorough=300)],
      RULE_SEQ, ["src/rbtree.c", "src/bintree.c", "include/cstl/rbtree.h"],
      required_probes=["insert_hinted", "erase_leaf", "erase_one_child", "erase_two_children_succ_is_child",
                       "erase_two_children_succ_deeper", "erase_root", "huge_tree", "huge_tree_taller_than_32"])
check("C07", "exploration",
      [dict(world="heap", mode=7, variants=V_TREES, quick=60000, thorough=4000000),
       dict(world="heap", mode=107, variants={"rel": 0.7, "dbg": 0.3}, quick=40, thorough=2000),
       dict(world="heap", mode=108, variants={"rel": 1.0}, quick=2, thorough=16, min_mem_gib=8),
       dict(world="heap", mode=109, variants={"rel": 1.0}, quick=2, thorough=6, min_mem_gib=8)],      # heaps of 2^24 .. 2^26 elements: pop and push around every 2^k
      RULE_SEQ, ["src/heap.c", "src/common.c", "src/bintree.c", "include/cstl/heap.h"],
      required_probes=["push_to_2^k", "pop_from_2^k", "pop_empty", "swap", "heap_reached_256", "huge_heap", "huge_heap_2^16"])

mtext("C01",
      "Seeded random histories (60k quick / 6M thorough; key universes 1..1500 with heavy duplication, ascending/descending/zig-zag streams, hinted and unhinted inserts, "
      "10% long runs up to 500 elements, 20% small-scope runs) on 0-2 binary and 0-2 red-black trees against a multiset model. After every operation: size, reachable set == model "
      "(each element once), parent links, in-order monotonicity through the public links; find/erase results checked for identity against the element pool; both traversal directions "
      "compared visit-by-visit (PRE/MID/POST/LEAF) with an independent reference traversal, with and without cancellation. " + DEGENERATE,
      "trusted: multiset model, reference traversal over the public node links, sim heap; erased elements are freed and poisoned at once so any later touch is visible",
      "deterministic simulation: seeded operation histories vs reference model inside sim heap (degenerate: callbacks are the only seam)",
      "DESIGN.md 4.C01")
mtext("C02",
      "Same world restricted to red-black trees: after every insert and erase the root colour, red-red, equal black height on every root-to-NULL path, parent links and "
      "cstl_rbtree_height (min, max, and max <= 2*log2(n+1)) are audited from the public colour/link fields. " + DEGENERATE,
      "trusted: recursive audit over public fields; gcc; dbg variant turns library asserts into violations",
      "deterministic simulation: seeded operation histories with a full red-black audit after every step (degenerate)",
      "DESIGN.md 4.C02")
mtext("C07",
      "Seeded interleavings of push/pop/get/swap/clear on 1-2 heaps (priorities from 1..40 values so ties are common; sizes to 1000 in long runs) against a multiset model: "
      "get/pop must return a held element of maximal priority, pop removes exactly it, NULL iff empty; after every operation the tree is audited through the public links for "
      "completeness (every level-order slot 1..n occupied, none beyond), parent>=child and parent links. " + DEGENERATE,
      "trusted: multiset model and slot-numbering audit; sim heap",
      "deterministic simulation: seeded operation histories vs reference model inside sim heap (degenerate)",
      "DESIGN.md 4.C07")

V_HASH = {"rel": 0.8, "asan": 0.2}
HASH_STUBS = ["hash functions (harness-owned h_div/h_mul/h_zero/h_half/h_tab: counted, logged, able to return out-of-range values on a chosen call)"]
RULE_HASH = ("one evaluation = one seeded plan (1-2 tables; resize requests followed by bursts of 0..B+2 keyed operations so that every stage of the "
             "incremental sweep is hit; enumeration/clear/forced rehash/shrink/swap interleaved; realloc failure/move policy from the plan) executed against the real "
             "hash.c with the reference model checked after every operation and a non-perturbing checkpoint/lookup-everything/restore audit; "
             "distinct = distinct plan hash; non-trivial = the run held >= 2 live elements at some point")
check("C03", "exploration",
      [dict(world="hash", mode=103, variants={"rel": 0.5, "asan": 0.5}, quick=4, thorough=60, min_mem_gib=2),
       dict(world="hash", mode=104, variants={"rel": 0.5, "asan": 0.5}, quick=6000, thorough=400000),      # tables on cstl_hash_div / cstl_hash_mul passed by name, keys from the whole of size_t
       dict(world="hash", mode=3, variants=V_HASH, quick=80000, thorough=2400000)],
      RULE_HASH, ["src/hash.c", "include/cstl/hash.h"], stubs=HASH_STUBS,
      required_probes=["insert_mid_rehash", "find_mid_rehash", "erase_mid_rehash", "resize_while_pending", "resize_grow", "resize_shrink",
                       "resize_same_size_new_fn", "resize_back_while_pending", "resize_alloc_fail_fired", "resize_enomem", "forced_rehash_while_pending",
                       "shrink_reallocated", "swap", "find_accept_jth", "find_reject_all_dupes", "erase_previously_erased", "erase_never_inserted", "audit_full"])
check("C04", "exploration",
      [dict(world="hash", mode=4, variants=V_HASH, quick=80000, thorough=2400000)],
      RULE_HASH, ["src/hash.c", "include/cstl/hash.h"], stubs=HASH_STUBS,
      required_probes=["foreach_mid_rehash", "foreach_grow_pending", "foreach_const_mid_rehash", "foreach_const_grow_pending", "clear_mid_rehash",
                       "clear_grow_pending", "foreach_erase_and_free", "foreach_cancel", "foreach_const_cancel", "reuse_after_clear", "clear"])
check("C19", "exploration",
      [dict(world="hash", mode=19, variants=V_HASH, quick=80000, thorough=1500000),
       dict(world="hash", mode=19, variants={"work": 1.0}, quick=30000, thorough=600000)],
      RULE_HASH, ["src/hash.c", "include/cstl/hash.h"], stubs=HASH_STUBS,
      required_probes=["resize_while_pending", "resize_grow", "resize_shrink", "resize_same_size_new_fn", "resize_back_while_pending",
                       "c19_rehash_completed_by_keyed_ops", "c19_work_metered"],
      assumptions=["'no single operation does work proportional to the whole table' is decided in amortised form by a work meter: in the 'work' build variant the library is compiled with -fsanitize-coverage=trace-pc and the harness counts the basic blocks of library code each keyed operation executes; since the resize, k operations may have executed at most k*(100+80*(longest chain+1)) + 12*(buckets in force) blocks (measured on the pinned tree with gcc 12 -O2: < 40 per chain element and < 2 per bucket). The pinned sweep may legitimately skip many already-clean buckets in one operation, each of them once per rehash, so a per-operation bound on bucket visits would be unsound",
                   "completion and 'pending' are observed black-box through the number of hash-function consultations of one lookup under checkpoint/restore",
                   "the three-buckets-per-operation clause is checked through a call-count bound (8 + 6*(longest chain+1)), not by identifying source buckets"])
check("C17", "fault_enumeration",
      [dict(world="hash", mode=17, variants={"rel": 0.5, "asan": 0.5}, quick=60000, thorough=1300000),
       dict(world="hash", mode=117, variants={"rel": 1.0}, quick=256, thorough=4096),
       dict(world="hash", mode=104, variants={"rel": 0.5, "asan": 0.5}, quick=8000, thorough=400000)],      # a caller's function taking turns with the built-in ones passed by name, bad values armed
      RULE_HASH + "; in this mode a fault 'the caller's hash function returns m, m+1 or SIZE_MAX on its j-th call within this operation' rides on a fraction of the operations",
      ["src/hash.c", "include/cstl/hash.h"], stubs=HASH_STUBS,
      required_probes=["c17_bad_value_consumed", "c17_bad_at_call_1", "c17_bad_at_call_2", "c17_bad_at_call_3plus", "c17_range_samples", "c17_range_scan_keys"] + ["c17_scan_slices_%d-%d" % (s, s + 31) for s in range(0, 256, 32)],
      assumptions=["the range clause for cstl_hash_div/cstl_hash_mul: every key below 2^32 is swept against two table sizes in the quick tier (32 in the thorough tier), the same slices shifted above 2^32 and mirrored from the top of the key space are sampled 1 in 16, everything else (other table sizes, 64-bit keys) is SAMPLED at boundary, Fibonacci and random values - not decided. The sweep is plain enumeration of a pure function's inputs, not simulation; it is here because isolated failing keys (three below 2^32 in one seeded change) are invisible to sampling"])

mtext("C03",
      "Seeded histories of insert/find/erase/resize (grow, shrink, new function, while pending)/rehash/shrink_to_fit/swap with the incremental rehash running as background work: "
      "after every operation size and an exactly-once enumeration are checked, and a checkpoint/restore audit looks up every live element (visit function accepting exactly it) and dead keys without advancing the rehash. "
      "Find's offer protocol (each matching element at most once, accepted one returned, all offered when none accepted) and erase of non-members are checked per call. "
      "Realloc failure / always-move / in-place policies come from the plan. Sampling; the small-scope closure in the property text is not claimed.",
      "trusted: membership model, harness hash functions, checkpoint/restore of table struct + library blocks + elements (no private field is read for a verdict); glibc realloc semantics",
      "deterministic simulation: background rehash interleaved with foreground ops, seeded histories + allocator fault injection vs reference model",
      "DESIGN.md 4.C03")
mtext("C04",
      "Same world, enumeration-heavy: foreach (count / stop at j / erase-and-free the visited element), foreach_const and clear are issued at every stage of grow and shrink rehashes "
      "(reach probes count grow-pending hits), each checked for exactly-once delivery against the live set; clear must release the bucket array exactly once and the table must work again after a fresh resize. "
      "foreach_const additionally runs inside every per-step audit. Sampling, not closure.",
      "trusted: live-set model, sim heap accounting of the bucket block, poison+free in callbacks",
      "deterministic simulation: enumeration while background rehash is pending, callback faults (erase+free, cancellation), seeded histories vs reference model",
      "DESIGN.md 4.C04")
mtext("C19",
      "Bounded liveness and placement of the background rehash, observed black-box through harness-owned hash functions: load() == size/n right after every satisfiable resize (incl. while pending and back to the previous size); "
      "a settled table consults the hash function exactly once per keyed operation with the requested (n, function); a pending rehash finishes within B keyed operations (B = buckets in force at the resize, restarted at every resize call); "
      "no keyed operation makes more than 8+6*(longest chain+1) consultations. Seeded histories with spread keys; sampling.",
      "trusted: call counting in harness hash functions; pending-probe = one lookup under checkpoint/restore; the at-most-three-buckets clause is only checked via the call-count bound",
      "deterministic simulation: bounded liveness of background work, counted in keyed operations after the last resize request",
      "DESIGN.md 4.C19")
mtext("C17",
      "Fail-stop clause by fault injection: the harness hash function returns m, m+1 or SIZE_MAX on its j-th call inside insert/find/erase/resize/rehash/shrink_to_fit/foreach (so under the current geometry, the pending geometry, "
      "and while relocating chains); the operation must abort, and a byte-for-byte snapshot taken at the bad return (table object, bucket array, elements) must be unchanged at the abort; ASan variant for out-of-bounds reads. "
      "Range clause of the built-ins: every key below 2^32 swept against a few table sizes (256 runs of 2^24 keys each), otherwise sampled at boundary, Fibonacci and random (k, m), and monitored in every hash run -- not decided.",
      "trusted: snapshot comparison, abort trap; range clause only sampled",
      "deterministic simulation with fault injection: misbehaving hash callback at chosen call ordinals, fail-stop + no-write oracle",
      "DESIGN.md 4.C17")

check("C08", "exploration",
      [dict(world="map", mode=8, variants={"rel": 0.8, "asan": 0.2}, quick=60000, thorough=3600000),
       dict(world="map", mode=108, variants={"rel": 0.5, "asan": 0.5}, quick=4, thorough=64, min_mem_gib=2)],
      RULE_SEQ + "; a quarter of the runs attach an allocation failure to some inserts",
      ["src/map.c", "src/rbtree.c", "src/bintree.c", "include/cstl/map.h"],
      required_probes=["insert_new", "insert_existing", "alloc_fail_fired", "erase_present", "erase_absent", "erase_iterator", "find_present", "find_absent", "map_clear", "comparator_consults_another_map", "erase_iterator_held_across_other_erases", "insert_with_key_object_reused_after_failed_find"],
      assumptions=["an iterator designates its entry for as long as that entry is in the map, whatever happens to other entries (iterators are held across other inserts and erases and then used for erase_iterator)", "erase by iterator is taken to be a pure unlink of the entry the iterator designates (as documented: no condition on the key): in a fraction of the runs the caller has already scrubbed the key object when it calls cstl_map_erase_iterator, and the entry must still go",
                   "comparison results are meaningful by sign only; the harness returns magnitudes from 1 to INT_MAX"])
mtext("C08",
      "Seeded histories of insert (new key / existing key value carried by a different key object), find, erase by key, erase by iterator and clear against a dict model; "
      "return codes and iterator contents are compared exactly (stored pointers, end iterator), every map node is a sim-heap block so 'one node per entry, freed exactly once, nothing left after clear' "
      "is checked after every step, and the embedded red-black tree is audited (strict order, colours, black height, parent links). Node allocation failure is injected on a fraction of inserts "
      "(must return -1 with the end iterator and leave the map unchanged). Three comparison functions. Sampling; no closure claimed.",
      "trusted: dict model, sim-heap accounting, tree audit through the public rbtree/bintree node layout and __cstl_bintree_cmp",
      "deterministic simulation: seeded histories + allocator fault injection vs reference model",
      "DESIGN.md 4.C08")

ALLOC_STUBS = ["realloc placement policy (always move / in place when shrinking / in place when it fits) and a finite heap budget, both from the plan"]
RULE_ALLOC = ("one evaluation = one seeded plan executed against the real library with the reference model and the sim-heap block table (128-bit size arithmetic) checked after every operation; "
              "allocator faults ride on the operation they hit; at most one abort-provoking operation per run, placed last; distinct = distinct plan hash; non-trivial = the container held >= 2 elements at some point")
GIANT = "a thorough-tier-only batch of two runs uses real memory on a grand scale (a vector resized across 2^32 one-byte elements with constructor and destructor, a string of more than 2^31 characters): it needs 4-8 GiB and about a minute, and is skipped (evidence says so) when the allocator cannot provide that"
check("C09", "exploration",
      [dict(world="vector", mode=9, variants=V_ALLOC, quick=80000, thorough=1500000),
       dict(world="vector", mode=109, variants={"rel": 1.0}, quick=0, thorough=2, min_mem_gib=24)],
      RULE_ALLOC, ["src/vector.c", "include/cstl/vector.h", "src/array.c (sort/reverse)"], stubs=ALLOC_STUBS,
      required_probes=["alloc_fail_fired", "enomem_over_budget", "byte_count_unrepresentable", "realloc_moved", "realloc_inplace", "reserve_unsatisfied",
                       "resize_must_abort", "at_out_of_range", "growth_from_null", "shrink_to_zero", "swap", "sort", "reverse", "clear"],
      assumptions=[GIANT])
mtext("C09",
      "Seeded histories of resize/reserve/shrink_to_fit/clear/swap/sort/reverse/at on 1-2 vectors (element sizes 1,2,4,8,3,5,7,12,24,64; with/without constructor and destructor) with sizes from small values, "
      "size/capacity +-1, the heap-budget boundary, SIZE_MAX, SIZE_MAX/es and neighbours. After every operation: capacity >= size, the data pointer is the start of a live sim-heap block of at least (capacity+1)*es bytes (128-bit), "
      "every in-range element still holds its bytes (always-move realloc and poisoned old blocks expose stale bases), at() addresses base+i*es or aborts, constructor/destructor ran exactly once per entering/leaving index. "
      "An unsatisfiable growth (injected failure, over budget, unrepresentable byte count) must be a no-op for reserve and an abort for resize with a clean heap audit at the abort.",
      "trusted: tag model, sim-heap block table, prediction rule 'fails iff unrepresentable or the allocator said no'; glibc realloc(p,0)",
      "deterministic simulation with allocator fault injection (failure, placement, finite memory) and abort trap vs reference model",
      "DESIGN.md 4.C09")

check("C10", "exploration",
      [dict(world="string", mode=10, variants=V_ALLOC, quick=80000, thorough=8000000),
       dict(world="string", mode=110, variants={"rel": 1.0}, quick=0, thorough=2, min_mem_gib=12)],
      RULE_ALLOC + "; narrow and wide instantiations, 2-3 objects each, alphabet {a,b,c,NUL}",
      ["src/_string.c", "src/string.c", "include/cstl/_string.h", "include/cstl/string.h", "src/vector.c"], stubs=ALLOC_STUBS,
      required_probes=["count_clamped", "pos_plus_count_wraps", "length_unrepresentable", "growth_abort", "insert_bad_pos_abort", "erase_substr_bad_pos_abort",
                       "find_bad_pos_abort", "at_out_of_range_abort", "reserve_unsatisfied", "alloc_fail_fired", "find_ch", "find_str", "compare", "swap", "clear"],
      assumptions=[GIANT])
mtext("C10",
      "Seeded edit histories (set, insert_ch/str/str_n/object, append*, erase, substr, resize, reserve, swap, clear) on narrow AND wide strings against a wchar_t reference string; after every operation size, every at(i), "
      "str() and the terminator are compared, and the storage block must cover capacity and size+1 characters (128-bit). Positions/counts come from {0, in range, size-1, size, size+1, SIZE_MAX and neighbours, values whose sum with the position wraps}. "
      "Counts past the end must be truncated for ANY value; positions beyond the end must abort; a growth the allocator refuses or whose storage size is unrepresentable must abort with a clean heap audit "
      "(position == size is accepted either way for erase/substr/find). find_ch/find_str/find/compare are compared with C-library semantics evaluated on the model's characters. One abort-provoking operation per run at most, placed last.",
      "trusted: reference strings, sim-heap block table, the 'fails iff unrepresentable or the allocator said no' rule; C locale",
      "deterministic simulation with allocator fault injection and abort trap vs reference model",
      "DESIGN.md 4.C10")

check("C14", "exploration",
      [dict(world="array", mode=14, variants=V_ALLOC, quick=80000, thorough=50000000)],
      RULE_ALLOC + "; 2-4 array objects over up to 3-4 live buffers (internal and externally supplied)",
      ["src/array.c", "include/cstl/array.h", "src/memory.c"], stubs=ALLOC_STUBS,
      required_probes=["alloc_on_sliced_object", "set_on_sliced_object", "slice_in_place", "slice_beyond_own_length", "slice_abort", "at_abort", "unslice",
                       "release_sole_user", "release_refused_other_views", "release_refused_internal", "buffer_released_with_last_view", "alloc_fail_fired",
                       "product_unrepresentable", "set_external", "set_same_base_twice", "set_virtual_huge_buffer", "slice_beyond_2^31"])
mtext("C14",
      "Seeded histories of alloc/set/slice/unslice/reset/release over 2-4 array objects (alloc and set onto empty, full-view and sliced objects; slice in place and into objects holding the same or another buffer; "
      "element counts/sizes including unrepresentable products and over-budget requests; slice bounds incl. buffer size +1, SIZE_MAX, values that wrap with the view offset). After every operation: size, data(), and at() for first/middle/last index "
      "must equal buffer base + (offset+i)*size and lie inside a live sim-heap block; a buffer's library blocks (recorded from the allocator events of the call that created it) must be live while any object refers to it and gone in the very operation "
      "that drops the last reference; externally supplied buffers are never freed by the library (sim heap rejects it) and release hands them back only to the sole user. Out-of-range at/slice and unslice of an empty object must abort (one per run, last).",
      "trusted: buffer/view model with reference counts, sim-heap block table and event log",
      "deterministic simulation with allocator fault injection and abort trap vs reference model (buffer lifetime = conservation over allocator events)",
      "DESIGN.md 4.C14")

check("C05", "exploration",
      [dict(world="mem", mode=5, variants={"rel": 0.8, "asan": 0.2}, quick=100000, thorough=24000000)],
      "one evaluation = one seeded history over 4 shared, 3 weak, 3 unique and 2 guarded pointer objects and up to 3 live allocations (each with its own callback identity, private pointer and tag byte), "
      "with the clear-callback log and the sim heap's allocation events compared with the ownership model after every operation; distinct = distinct plan hash; non-trivial = at least two allocations were made",
      ["src/memory.c", "include/cstl/memory.h"],
      required_probes=["share_nonempty", "lock_live", "lock_dead", "lock_into_last_owner", "reset_last_owner", "reset_last_owner_with_weak_left",
                       "weak_reset_frees_bookkeeping", "unique_release", "unique_swap", "shared_swap", "alloc_fail_fired", "self_swap", "many_refs_above_2^8", "many_refs_above_2^16", "alloc_size_unsatisfiable"])
mtext("C05",
      "Sequential reference for C06, and a conservation law over allocator events: after EVERY operation the clear-callback log (which callback, on which memory, with which private pointer, while the payload is still intact) and the sim heap's block table must be exactly what the "
      "owner/reference-count model predicts -- clear then free in the operation that removes the last owner (never earlier, later or twice), bookkeeping block freed in the operation that removes the last shared-or-weak reference, every co-owner's get() equal, unique() == (references == 1), "
      "lock yields an owner iff one exists after the documented destination-reset; alloc failure (either malloc) leaves the object empty and leaks nothing; an all-reset epilogue leaves zero library blocks. With one task the scheduler is inert: this is a seeded history check whose observable only the sim heap provides.",
      "trusted: ownership model (documented step order: destination reset first), sim-heap event log",
      "deterministic simulation (single task): seeded histories + malloc fault injection vs ownership model, conservation over allocator events",
      "DESIGN.md 4.C05")

check("C06", "exploration",
      [dict(world="memc", mode=6, variants={"rel": 0.89, "asan": 0.09, "tsan": 0.02}, quick=500000, thorough=40000000)],
      "one evaluation = one seeded schedule of one seeded scenario (2-4 tasks, 1-6 operations each on their own shared/weak pointer objects, 1-2 allocations, seeded initial reference configuration, "
      "one of three scheduling strategies: uniform random / PCT-style priorities with 0-3 change points / sticky with a seeded switch probability); every atomic operation, sched_yield, library malloc/free and clear-callback entry is a scheduling point; "
      "distinct = distinct plan hash (scenario + scheduler seed); non-trivial = at least one preemption of a task in the middle of a library operation; distinct interleavings are measured separately as distinct (task, source line) sequences",
      ["src/memory.c (compiled with the shipped flags against the shadowed <stdatomic.h>/<sched.h>)", "include/cstl/memory.h"],
      stubs=["threads (ucontext fibers; the seeded scheduler decides who runs at every scheduling point)", "C11 atomics (real compiler builtins behind a scheduling point)", "sched_yield (back-of-run-queue rule; stalled threads are not waited for)"],
      required_probes=["preempt", "sched_yield_executed", "c06_lock_success", "c06_lock_fail", "c06_lock_after_death", "c06_share", "c06_touch_owned", "c06_lin_checked", "c06_starts_with_one_owner", "fault_thread_stalled", "fault_thread_stalled_150_steps_or_more", "clear_callback_locks_back_reference"],
      assumptions=["fault: stalled threads - in a third of the runs, with a seeded probability per scheduler step, a thread that is inside an operation is taken off the processor for 5-400 scheduler steps (at most 800 per run); a yielding thread does not wait for a stalled one",
                   "implicit accesses to _Atomic objects (plain expressions) have no name the shadowed <stdatomic.h> could intercept: they are scheduling points in the tsan variant only (2% of the runs), where the TSan runtime's atomic entry points are wrapped at link time; the pinned memory.c has none",
                   "sequentially consistent interleavings of the library's atomic steps only (all atomics in memory.c are seq_cst); weaker hardware orders are not simulated",
                   "seeded schedule search, not exhaustive enumeration with visited-state pruning: the 'every interleaving' quantifier is sampled",
                   "atomicity of what unique() observes against concurrent resets is not demanded (the property does not promise it)",
                   "data-race clause: the same seeded schedules run in a build where only src/memory.c and the payload accessors are compiled with -fsanitize=thread and the fibers are registered through TSan's fiber API (no-sync switches), "
                   "so TSan's happens-before analysis sees exactly the synchronisation the library performs; any report halts the run and is a violation"])
mtext("C06",
      "The property this technique was made for. Cooperative fibers stand in for threads; a seeded scheduler decides every interleaving at the granularity of the library's own atomic operations (shadowed <stdatomic.h>, no source change), plus sched_yield, library malloc/free and the clear callback. "
      "Oracle over the global event sequence: conservation (clear once, payload freed once and after clear, bookkeeping freed once and last), no atomic access to a freed block (checked at the access), never-earlier (no clear while a shared pointer that has returned from share/lock and not yet entered reset exists), "
      "a successful lock/share returns live memory, a lock may fail only if no owner was stable over the whole call, bounded liveness under a fair-yield rule (64*(ops+K) steps), the exact sequential end state after an all-reset epilogue, and Wing-Gong linearizability of the share/lock/reset results against an owner-count model. "
      "500k schedules quick / 40M thorough over rel and ASan builds. Sampling: exhaustive exploration with visited-state pruning is model checking and is not claimed.",
      "trusted: fiber scheduler, shim macros (comma expression: scheduling point then the real builtin with the requested order), interval-based owner oracle, linearizability checker (<= 24 operations per history)",
      "deterministic simulation: seeded scheduler over cooperative fibers at atomic-operation granularity; invariants on the event sequence + linearizability check against a sequential owner-count model",
      "DESIGN.md 4.C06")

check("C11", "exploration",
      [dict(world="sort", mode=11, variants={"rel": 0.7, "asan": 0.3}, quick=60000, thorough=5000000),
       dict(world="vector", mode=11, variants={"rel": 0.7, "asan": 0.3}, quick=12000, thorough=1500000),
       dict(world="sort", mode=111, variants={"rel": 0.6, "asan": 0.4}, quick=120, thorough=6000)],
      "one evaluation = one seeded plan: 1-3 rounds of {fill a raw array (patterns: random over 1..3000 values, sorted, reversed, constant, two-valued, organ-pipe, saw-tooth; lengths 0..8 / 0..64 / 0..4096), linear finds, optional reverse, "
      "1-2 sorts with a seeded selector (four named algorithms and four out-of-range values) and either cstl_swap or a checking swap callback, binary searches and finds on the result}; rand() is the simulator's (uniform, or bounded adversarial streaks of pivot-last values); "
      "distinct = distinct plan hash; non-trivial = the last array had >= 2 elements",
      ["src/array.c (raw array functions)", "include/cstl/common.h (cstl_swap)"],
      stubs=["comparison function: in 1/12 of the runs one sort is made against McIlroy's lazily deciding adversary (legal, consistent, forces the deepest recursion)", "rand() (seeded stream; sticky mode repeats 0, RAND_MAX, 720719, small integers in streaks of at most 8 draws followed by a uniform draw)"],
      required_probes=["selector_out_of_range", "rand_calls", "custom_swap_checked", "probe_present", "probe_absent", "single_element_probe", "reverse", "large_array", "few_distinct_values", "adversary_sort", "adversary_forced_quadratic", "vector_probe_present", "vector_probe_absent", "vector_sort_checked_swap"],
      assumptions=["apart from the pivot stream and the callbacks this is input generation; the exhaustive small-alphabet enumeration named in the property's quantifier is NOT done",
                   "an unbounded adversarial rand() (constant forever) makes the randomised variant recurse without bound; excluded as outside rand()'s contract",
                   "with a caller's swap function every movement of an element goes through it (the documented purpose of the callback: the library cannot know what is inside an element); the harness therefore demands that the final arrangement is exactly what the sequence of swap calls implies, and may pass tmp = NULL to a swap function that ignores it"])
mtext("C11",
      "Seeded arrays (element sizes 1,2,4,8,3,5,16,24; keys in the first 1-2 bytes, an identity in the rest so that lost/duplicated/torn elements show) sorted by every selector value; the output must be byte-for-byte a permutation of the input and non-decreasing; "
      "the array and the scratch element are separate sim-heap blocks whose canaries are the red zones (ASan in 30% of runs); every pointer handed to the comparison and (checking) swap callbacks must be an array element or the scratch slot; a comparison-count cap of 64*(n+16)^2 catches a partition that stops making progress. "
      "Binary search on the sorted result, linear find on any array, and reverse are checked against direct scans. The one real simulator seam is rand(): the randomised quicksort's pivot stream is seeded, including bounded adversarial streaks. Honest scope: mostly seeded input generation.",
      "trusted: direct-scan reference for search/find/reverse, multiset comparison by sorting copies with libc qsort",
      "deterministic simulation (degenerate apart from the seeded rand() stream and checking callbacks): seeded inputs vs reference",
      "DESIGN.md 4.C11")


V_C15 = {"asan": 0.5, "rel": 0.4, "dbg": 0.1}
check("C15", "exploration",
      [dict(world="trees", mode=15, variants=V_C15, quick=30000, thorough=1000000),
       dict(world="trees", mode=102, variants={"rel": 0.5, "asan": 0.5}, quick=8, thorough=300),
       dict(world="trees", mode=121, variants={"rel": 0.5, "asan": 0.5}, quick=256, thorough=4000),
       dict(world="heap", mode=15, variants=V_C15, quick=30000, thorough=1000000),
       dict(world="lists", mode=15, variants=V_C15, quick=30000, thorough=1000000),
       dict(world="map", mode=15, variants={"asan": 0.5, "rel": 0.5}, quick=30000, thorough=1000000),
       dict(world="map", mode=115, variants={"rel": 0.5, "asan": 0.5}, quick=4, thorough=64, min_mem_gib=2)],
      "one evaluation = one seeded history in which clear is frequent and its callback counts per element, overwrites the whole element with 0xDD and frees it to the sim heap (poisoned, quarantined; really freed under ASan), "
      "followed by a refill of the same container and ordinary operations with the world's full audit; container states at the moment of clear come from the preceding seeded history; distinct = distinct plan hash; non-trivial as in the world",
      ["src/bintree.c (clear)", "src/dlist.c", "src/slist.c", "src/map.c", "include/cstl/rbtree.h", "include/cstl/heap.h"],
      required_probes=["clear", "clear_3plus", "d_clear", "s_clear", "map_clear", "huge_tree", "huge_clear_taller_than_32", "int_key_map_clear"],
      stubs=["clear callbacks that free and poison what they are handed (a fault injected at a seam)"])
mtext("C15",
      "Runs inside the trees / heap / lists / map worlds with clear-heavy plans: the clear callback records the identity of what it is handed, overwrites the element with 0xDD and frees it to the sim heap; the multiset of callbacks must equal the model's content exactly, "
      "size/front/back/get/find must report empty, and a refill plus further operations (audited by the world's normal oracles, attributed to C15 for the first operations after a clear) proves reusability. A touch of a freed element is an ASan report at the faulting instruction (half the runs), "
      "or in the plain build a 0xDD pointer that faults / a write-after-free found by the poison audit. For the map the node blocks must all be gone after clear.",
      "trusted: per-world models, sim heap poison/quarantine, ASan",
      "deterministic simulation: callback fault (free + poison inside the clear callback) on seeded container states, ASan + poison audit",
      "DESIGN.md 4.C15")

V_C16 = {"rel": 0.7, "asan": 0.3}
check("C16", "fault_enumeration",
      [dict(world="map", mode=16, variants=V_C16, quick=500, thorough=240000),
       dict(world="vector", mode=16, variants=V_C16, quick=500, thorough=240000),
       dict(world="string", mode=16, variants=V_C16, quick=500, thorough=240000),
       dict(world="hash", mode=16, variants=V_C16, quick=500, thorough=240000),
       dict(world="mem", mode=16, variants=V_C16, quick=500, thorough=240000),
       dict(world="array", mode=16, variants=V_C16, quick=500, thorough=240000)],
      "for each seeded script (500 per world quick, 240000 thorough; no other faults): a fault-free dry run counts the library's allocation calls N, then the script is re-executed with EVERY single ordinal 1..N failing, EVERY suffix 'from k on everything fails', "
      "EVERY pair (N <= 40, 400 seeded pairs above) and EVERY triple (N <= 12); each faulted execution runs to the end of the script (continued use after the failure) under the world's normal oracle, whose model predicts the documented failure mode from the allocator's own answer; "
      "evaluations = scripts + faulted executions; distinct = distinct scripts (plan hash); the placement space per script is enumerated, the scripts are sampled",
      ["src/map.c", "src/vector.c", "src/_string.c", "src/hash.c", "src/memory.c", "src/array.c"],
      required_probes=["c16_scripts", "c16_single_fired", "c16_suffix_fired", "c16_pair_fired", "c16_triple_fired", "c16_ended_by_documented_abort", "alloc_fail_fired"],
      evaluations_probe="c16_faulted_executions",
      stubs=["allocator failure by global ordinal bitmap / suffix (C16 enumeration)"])
mtext("C16",
      "Systematic fault placement over seeded scripts for every allocating module: every single allocation, every suffix, every pair (all triples for short scripts) fails in turn; each execution continues to the end of the script and ends with a leak audit. "
      "Expected outcomes come from the allocator's own answer: map insert -> -1 + end iterator + unchanged map; vector/string reserve, hash resize/shrink -> no change (hash table keeps answering: checkpoint audit); vector/string growth -> abort with a clean heap audit; "
      "unique/shared/array alloc -> empty object; nothing leaked, double-freed or written out of bounds (canaries / ASan). The placement space per script is enumerated exhaustively; the scripts themselves are seeded samples.",
      "trusted: per-world models, the rule 'fails the documented way iff the allocator said no', sim-heap accounting",
      "deterministic simulation with systematic allocation-failure enumeration (single / suffix / pair / triple placements) over seeded scripts",
      "DESIGN.md 4.C16")

check("C20", "fault_enumeration",
      [dict(world="mem", mode=20, variants={"rel": 0.8, "asan": 0.2}, quick=40000, thorough=24000000),
       dict(world="array", mode=20, variants={"rel": 0.8, "asan": 0.2}, quick=20000, thorough=12000000)],
      "one evaluation = one seeded history (which produces the object states: empty / owning / shared with others / weak-only / array full view / slice / external) followed by one injected fault: an object is duplicated (memcpy, original kept) or relocated (memcpy, original scrubbed) "
      "and one public function is applied with the stray copy in one argument position; the (function x position x state x duplicate/relocate) cell is part of the violation key and of the fired-count probes; distinct = distinct plan hash",
      ["include/cstl/memory.h", "src/memory.c", "src/array.c", "include/cstl/array.h"],
      required_probes=["c20_stray_call", "c20_stray_aborted"],
      stubs=["bitwise copy / relocation of pointer objects by the harness (the fault)"])
mtext("C20",
      "Fault = a guarded/unique/shared/weak pointer object or an array object duplicated or relocated with memcpy in a seeded object state; then every public entry point that would read, transfer or release the pointer is applied with the stray in each argument position "
      "(guarded get/get_const/copy-src/swap; unique get/get_const/release/swap/reset/alloc; shared get/get_const/unique/share-src/share-dst/swap/reset/alloc/weak_from-src/weak_lock-dst; weak from-dst/lock-src/swap/reset; array data/at/slice-src/slice-dst/unslice-src/unslice-dst/reset/release/alloc/set). "
      "The call must abort, and between its invocation and the abort no clear callback and no free may hit the allocation the stray refers to (a destination-side release that the documented order performs first is allowed); in the duplicate case the original must keep answering. "
      "The converse (properly moved objects never abort) is checked by every C05, C06 and C14 run.",
      "trusted: abort trap, sim-heap event log; the cell matrix is swept by seeded sampling (fired counts per cell in the evidence), not by construction",
      "deterministic simulation with fault injection: stray bitwise copies at a seeded point of a seeded history, fail-stop + no-release oracle",
      "DESIGN.md 4.C20")

# ------------------------------------------------------------- later additions to the workloads
# (each was added because an independently seeded change showed the workload did not reach a corner: DESIGN.md 11.6)
ADDENDA = {
    "C01": "Also: elements carry two sets of link members and trees are declared over either; trees are swapped with themselves; comparison callbacks consult a second tree and return results of varying magnitude (+-1 .. INT_MIN/INT_MAX, only the sign is meaningful); visit callbacks walk the same tree in the opposite direction and take its height.",
    "C02": "Also: a huge-tree batch (131 072 .. 262 144 ascending/descending/random inserts, height up to 34) with a full structural audit, a quarter erased, and the height bound re-checked; hinted inserts with parents reported by find.",
    "C07": "Also: a huge-heap batch that grows heaps to 524 290 elements (past every power of two up to 2^19) with the same audit at checkpoints; heaps declared over different node members; self-swaps; comparator magnitude varied.",
    "C08": "Also: comparison functions that consult a second map; find with the iterator's own cells as probe; erase_iterator after the caller released the key object; maps keyed by integers cast to pointers (key 0 = NULL, NULL values).",
    "C11": "Also: one sort in 1/12 of the runs is made against McIlroy's adversary or its mirror image (a legal comparison function that decides values lazily so that every pivot is extreme: deepest recursion, longest pending list); a second batch drives cstl_vector_sort/__cstl_vector_sort (every selector, checking swap callback), cstl_vector_search, cstl_vector_find and __cstl_vector_reverse on vectors against the same oracles; comparison callbacks that binary-search another array.",
    "C12": "Also: two sets of link members per element (lists over either, swapped with each other and with themselves), comparison callbacks that find in / sort another list, and a huge-list batch (2^12 .. 2^20+5000 elements: build, sort, verify, reverse, clear).",
    "C13": "Also: two sets of link members per element, comparison callbacks that sort another list in the opposite order from inside a sort, and a huge-list batch (2^12 .. 2^20+5000 elements).",
    "C15": "Also: clear of red-black trees taller than 32 levels (huge-tree batch), of integer-keyed maps holding the NULL key with a NULL value, and of huge lists.",
    "C17": "Also: out-of-range hash values that are congruent to a valid bucket (v+m, v+2^32*m): silently wrapping them is a violation; range samples of the multiplicative built-in include Fibonacci numbers and their neighbours.",
    "C20": "Also: the stray object is placed in either position of every two-operand call, and in-place slice/unslice (source and destination the same stray object).",
    "C09": "Also: sizes around 2^31, 2^32 and 2^33 divided by the element size, vectors of ~70 000 elements, self-swaps.",
    "C10": "Also: bytes >= 0x80 in the narrow alphabet and values beyond one byte in the wide one, positions/counts around 2^31..2^33, strings of ~70 000 characters, self-swaps.",
    "C14": "Also: the same memory described twice by set(), 'virtual' external buffers of 2^31..2^33 elements (address arithmetic only, compared in 128 bits), slices beginning beyond 2^31.",
    "C05": "Also: 255 .. 66 000 owners (and half as many weak references) of one allocation; self-swaps; allocation sizes that cannot be satisfied.",
    "C03": "Also: bucket counts around 2^28 and 2^32 (byte-count overflow), elements with two node members and tables declared over either, container objects initialised on junk-filled memory.",
}
ADDENDA2 = {
    "C01": "Later additions: plain trees 4 100 .. 30 000 levels deep with small subtrees hanging off the chain (walk, height, clear); thorough tier only: one tree driven through 2^32-1, 2^32 and 2^32+1 modifications in a row before the next lookup / unhinted insert.",
    "C03": "Later additions: tables on cstl_hash_div / cstl_hash_mul passed by name with keys from the whole of size_t; clear without a callback; chains of 100 000 .. 600 000 elements in 1-3 buckets rehashed.",
    "C07": "Later additions: two different comparison functions (not only private pointers) per run, moving with swap; elements written through the pointer pop / get returned and read through their own name in optimised callers.",
    "C11": "Later additions: element sizes up to 5 000 bytes at every alignment; virtual arrays up to SSIZE_MAX elements.",
    "C12": "Later additions: keys of linked elements changed between two sorts; concat between lists over different members (refused); thorough tier only: lists of 2^23 .. 2^26 elements sorted, checked for order, stability, permutation and links.",
    "C13": "Later additions: keys of linked elements changed between two sorts; concat between lists over different members (refused); thorough tier only: lists of 2^23 .. 2^26 elements sorted, checked for order, stability, permutation and tail.",
    "C15": "Later additions: clear of plain trees 4 100 .. 30 000 levels deep, every element handed over exactly once.",
    "C19": "Later additions: a per-operation bound in executed basic blocks of library code (work variant): one keyed operation may cost its own chains, three buckets' contents and the already-clean buckets the sweep may step over.",
    "C09": "Later additions: one function registered as both constructor and destructor; vectors of different element sizes swapped; thorough tier only: a real vector resized across 2^32 elements with counting callbacks.",
}
for _p, _t in ADDENDA.items():
    MANIFEST_TEXT[_p]["text"] += " " + _t
for _p, _t in ADDENDA2.items():
    MANIFEST_TEXT[_p]["text"] += " " + _t
GENERIC_ADDENDUM = (" In every world with intrusive elements or library allocations three things vary per run: where the element blocks live (one arena; one page each 2^32 bytes apart; "
                    "3*2^31 bytes apart), whether the allocator hands a freed block out again at once, and whether containers start from the init functions or from the static initializer macros. "
                    "Callback-taking functions and functions that return the caller's element are also called from small optimised functions without setjmp, so that attributes on the prototypes "
                    "(leaf, pure, const, malloc) that promise more than the functions keep are seen.")
for _p in ("C01", "C02", "C03", "C04", "C07", "C08", "C12", "C13", "C15"):
    MANIFEST_TEXT[_p]["text"] += GENERIC_ADDENDUM

# ------------------------------------------------------------- thread compatibility on distinct objects (world "par")
# Two or three simulated threads, each with containers of its own, interleaved INSIDE library functions at basic-block
# granularity (the "work" variant's trace-pc callback is the preemption point); each thread's results and container
# structures must be exactly what it sees when it runs alone. See DESIGN.md 11.8.
PAR_MODES = {"C01": 1, "C02": 2, "C03": 3, "C05": 5, "C07": 7, "C08": 8, "C09": 9, "C10": 10, "C11": 11, "C12": 12, "C13": 13, "C14": 14}
PAR_ASSUMPTION = ("the property is taken to hold for each thread's own objects whatever other threads do with theirs: a batch of runs (world 'par') "
                  "interleaves 2-3 simulated threads, each with containers and elements of its own, inside library functions at basic-block granularity "
                  "(preemption points from -fsanitize-coverage=trace-pc in the 'work' build variant; uniform and park-and-overtake schedules from the seed), "
                  "in half of the runs with instruction-level jitter (when a quantum of basic blocks is used up the x86 trap flag is set and the thread is stopped 1-24 library instructions later, so windows inside one basic block are reachable), "
                  "and demands that every operation's result and the complete container structure equal what the same thread sees when it runs alone; "
                  "the library is thus required to keep no hidden state shared between objects (a static scratch node, a parked comparator)")
for _p, _m in PAR_MODES.items():
    CHECKS[_p]["batches"].append(dict(world="par", mode=_m, variants={"work": 1.0},
                                      quick=20000 if _m in (1, 2) else 8000, thorough=2000000 if _m in (1, 2) else 600000))
    CHECKS[_p]["required_probes"].append("par_preemptions_inside_library")
    CHECKS[_p]["assumptions"].append(PAR_ASSUMPTION)
    MANIFEST_TEXT[_p]["text"] += (" A further batch (world 'par') runs 2-3 simulated threads, each with objects of its own, preempted inside library functions at "
                                  "basic-block granularity (in half of the runs refined to single instructions), and compares every result and structure with the same thread running alone (no hidden shared state between objects).")
