"""Registry of checks: which world/mode batches decide which property."""

STUBS_COMMON = ["malloc/realloc/free (sim heap over libc: ordinals, canaries, poison+quarantine, finite budget, injected failure)",
                "abort/__assert_fail (trap + longjmp)", "rand (seeded stream)", "caller callbacks (harness functions driven by the plan)"]
ASSUME_COMMON = ["seeded sampling, not exhaustive: a clean batch is evidence, not proof",
                 "glibc semantics for realloc(p,0); libc/libm run for real and are trusted",
                 "the sim heap, models and oracles are the trusted base"]

V_SEQ = {"rel": 0.8, "asan": 0.1, "dbg": 0.1}
V_ALLOC = {"rel": 0.7, "asan": 0.3}

CHECKS = {}


def check(prop, level, batches, rule, real_code, required_probes=(), assumptions=(), stubs=()):
    CHECKS[prop] = dict(level=level, batches=batches, rule=rule, real_code=list(real_code),
                        required_probes=list(required_probes),
                        assumptions=ASSUME_COMMON + list(assumptions), stubs=STUBS_COMMON + list(stubs))


RULE_SEQ = ("one evaluation = one seeded plan (swarm configuration + operation list) executed against the real "
            "library with the reference model checked after every operation; distinct = distinct plan hash; "
            "non-trivial = the run reached a container state with >= 2 elements (or the world's stated equivalent)")

check("C12", "exploration",
      [dict(world="lists", mode=12, variants=V_SEQ, quick=80000, thorough=8000000)],
      RULE_SEQ, ["src/dlist.c", "include/cstl/dlist.h"],
      required_probes=["d_reverse_len0to5", "d_reverse_odd", "d_reverse_even", "d_swap_with_empty", "d_foreach_self_remove",
                       "d_foreach_cancel", "d_concat_empty_src", "d_concat_empty_dst", "d_pop_empty", "d_find_absent"])
check("C13", "exploration",
      [dict(world="lists", mode=13, variants=V_SEQ, quick=80000, thorough=8000000)],
      RULE_SEQ, ["src/slist.c", "include/cstl/slist.h"],
      required_probes=["s_pop_empty", "s_erase_last", "s_insert_after_tail", "s_swap_with_empty", "s_concat_empty_src",
                       "s_concat_empty_dst", "s_reverse", "s_sort", "s_foreach_cancel"])

WORLD_INFO = {}

# ---------------------------------------------------------------- manifest texts

PENDING = "not claimed in this revision: the simulation world for this property is not built yet (work in progress, see DESIGN.md)"
NOT_APPLICABLE = {
    "C18": "compile-and-link matrix over header combinations: nothing executes, so there is no schedule, fault, history or state for a simulator to drive (DESIGN.md section 3)",
}
MANIFEST_TEXT = {}


def mtext(prop, text, note, technique, design_ref):
    MANIFEST_TEXT[prop] = dict(text=text, note=note, technique=technique, design_ref=design_ref)


DEGENERATE = ("The property has no schedule, clock or I/O in it; the simulator contributes the sim heap (removed and cleared "
              "elements are poisoned and quarantined at once, canaries), callback faults (visit cancellation, self-removal, "
              "freeing clear callbacks) and seeded histories checked against a reference model after every operation. "
              "Sampling, not proof; small-scope closure is NOT claimed.")

mtext("C12",
      "Seeded random histories (80k quick / 8M thorough; 1-3 lists, lengths 0-5 over-weighted, 10% long runs up to 1000 elements) of every dlist operation "
      "against a reference sequence; after every operation the public next/prev links (sentinel included), both foreach directions, front/back/size are compared with the model. " + DEGENERATE,
      "trusted: harness model (array of element pointers), sim heap, gcc; asserts compiled out in the rel variant (shipped flags), on in dbg; ASan+UBSan subset in the asan variant",
      "deterministic simulation: seeded operation histories vs reference model inside sim heap (degenerate: no schedule/fault dimension beyond callbacks)",
      "DESIGN.md 4.C12")
mtext("C13",
      "Seeded random histories of every slist operation against a reference sequence, including pop_front on empty lists and a push_back after every tail-moving operation; "
      "after every operation the next-chain is walked to the node whose next is NULL and compared with back() and the model. " + DEGENERATE,
      "trusted: harness model, sim heap, gcc; rel (asserts off, shipped behaviour), dbg (asserts on: a failed library assert is a violation), asan variants",
      "deterministic simulation: seeded operation histories vs reference model inside sim heap (degenerate: no schedule/fault dimension beyond callbacks)",
      "DESIGN.md 4.C13")

V_TREES = {"rel": 0.8, "asan": 0.1, "dbg": 0.1}
check("C01", "exploration",
      [dict(world="trees", mode=1, variants=V_TREES, quick=60000, thorough=6000000)],
      RULE_SEQ, ["src/bintree.c", "src/rbtree.c", "include/cstl/bintree.h", "include/cstl/rbtree.h"],
      required_probes=["insert_hinted", "erase_leaf", "erase_one_child", "erase_two_children_succ_is_child",
                       "erase_two_children_succ_deeper", "erase_root", "erase_absent", "foreach_cancel", "find_absent", "find_present"])
check("C02", "exploration",
      [dict(world="trees", mode=2, variants=V_TREES, quick=60000, thorough=6000000)],
      RULE_SEQ, ["src/rbtree.c", "src/bintree.c", "include/cstl/rbtree.h"],
      required_probes=["insert_hinted", "erase_leaf", "erase_one_child", "erase_two_children_succ_is_child",
                       "erase_two_children_succ_deeper", "erase_root"])
check("C07", "exploration",
      [dict(world="heap", mode=7, variants=V_TREES, quick=60000, thorough=6000000)],
      RULE_SEQ, ["src/heap.c", "src/common.c", "src/bintree.c", "include/cstl/heap.h"],
      required_probes=["push_to_2^k", "pop_from_2^k", "pop_empty", "swap"])

mtext("C01",
      "Seeded random histories (60k quick / 6M thorough; key universes 1..1500 with heavy duplication, ascending/descending/zig-zag streams, hinted and unhinted inserts, "
      "10% long runs up to 500 elements, 20% small-scope runs) on 0-2 binary and 0-2 red-black trees against a multiset model. After every operation: size, reachable set == model "
      "(each element once), parent links, in-order monotonicity through the public links; find/erase results checked for identity against the element pool; both traversal directions "
      "compared visit-by-visit (PRE/MID/POST/LEAF) with an independent reference traversal, with and without cancellation. " + DEGENERATE,
      "trusted: multiset model, reference traversal over the public node links, sim heap; erased elements are freed and poisoned at once so any later touch is visible",
      "deterministic simulation: seeded operation histories vs reference model inside sim heap (degenerate: callbacks are the only seam)",
      "DESIGN.md 4.C01")
mtext("C02",
      "Same world restricted to red-black trees: after every insert and erase the root colour, red-red, equal black height on every root-to-NULL path, parent links and "
      "cstl_rbtree_height (min, max, and max <= 2*log2(n+1)) are audited from the public colour/link fields. " + DEGENERATE,
      "trusted: recursive audit over public fields; gcc; dbg variant turns library asserts into violations",
      "deterministic simulation: seeded operation histories with a full red-black audit after every step (degenerate)",
      "DESIGN.md 4.C02")
mtext("C07",
      "Seeded interleavings of push/pop/get/swap/clear on 1-2 heaps (priorities from 1..40 values so ties are common; sizes to 1000 in long runs) against a multiset model: "
      "get/pop must return a held element of maximal priority, pop removes exactly it, NULL iff empty; after every operation the tree is audited through the public links for "
      "completeness (every level-order slot 1..n occupied, none beyond), parent>=child and parent links. " + DEGENERATE,
      "trusted: multiset model and slot-numbering audit; sim heap",
      "deterministic simulation: seeded operation histories vs reference model inside sim heap (degenerate)",
      "DESIGN.md 4.C07")
