#!/usr/bin/env python3
"""Reach of the simulations over the library's own code: which lines of /repo/src/*.c no batch of any check executes.

    python3 sim/reach.py [--runs N]     writes /verif/evidence/reach.txt and prints a summary

Builds one more variant of simrun ("cov": the library compiled with gcc --coverage, -O0 -DNDEBUG, the harness as usual),
executes the first N runs (default 3000) of every (world, mode) that any check uses in its quick tier, and reads the line
counts back with gcov. Lines inside the library's own unit tests (#ifdef __cfg_test__) are left out. This measures the
workload, not the library: a line that is never executed is a place where no oracle can ever fire. It is not part of any
check's verdict.
"""
import argparse, glob, os, re, shutil, subprocess, sys, tempfile
sys.path.insert(0, os.path.dirname(os.path.abspath(__file__)))
import run
from checks import CHECKS

run.VARIANTS["cov"] = ("gcc", run.SHIPPED + ["-O0", "-DNDEBUG", "-g", "--coverage"], ["-O1", "-g", "-DSIM_COV"], ["--coverage"])


def main():
    ap = argparse.ArgumentParser()
    ap.add_argument("--runs", type=int, default=3000)
    a = ap.parse_args()
    bins = run.build(["cov"], quiet=True)
    out = os.path.dirname(bins["cov"])
    for f in glob.glob(os.path.join(out, "*.gcda")):
        os.unlink(f)
    tmpdir = tempfile.mkdtemp(prefix="simreach-", dir=run.BUILD_ROOT)
    seen = set(); nruns = 0
    try:
        for prop, spec in CHECKS.items():
            for b in spec["batches"]:
                if not b["quick"] or b.get("min_mem_gib") or (b["world"], b["mode"]) in seen:
                    continue
                if set(b["variants"]) <= {"tsan", "work"} and b["world"] in ("memc", "par"):
                    continue        # these worlds need their own instrumentation to do anything
                seen.add((b["world"], b["mode"]))
                m = min(a.runs, b["quick"])
                r = run.run_batch(bins, b["world"], b["mode"], run.DEFAULT_SEED, [("cov", 0, m)], tmpdir, jobs=16)
                nruns += r.runs
                print(f"{b['world']:8s} mode={b['mode']:<4d} runs={r.runs} violations={len(r.viols)} crashes={len(r.crashes)}")
                for f in glob.glob(os.path.join(tmpdir, "*")):
                    os.unlink(f)
    finally:
        shutil.rmtree(tmpdir, ignore_errors=True)
    report = []
    tot = hit = btot = bhit = 0
    for src in sorted(glob.glob(os.path.join(run.REPO, "src", "*.c"))):
        name = os.path.basename(src)[:-2]
        obj = os.path.join(out, "lib_" + name + ".o")
        if not os.path.exists(obj.replace(".o", ".gcno")):
            continue
        p = subprocess.run(["gcov", "-b", "-c", "-o", obj, src], cwd=out, stdout=subprocess.PIPE, stderr=subprocess.STDOUT, text=True)
        gc = os.path.join(out, os.path.basename(src) + ".gcov")
        if name == "string":      # string.c only instantiates the template in _string.c, twice
            gc = os.path.join(out, "_string.c.gcov")
        if not os.path.exists(gc):
            report.append(f"{name}.c: no coverage data ({p.stdout.strip()[:200]})"); continue
        in_test = 0; missed = []; t = h = 0; cur = None; nobr = []; bt = bh = 0
        for line in open(gc, errors="replace"):
            m = re.match(r"\s*([^:]+):\s*(\d+):(.*)", line)
            if not m:
                b = re.match(r"branch\s+(\d+)\s+(never executed|taken (\d+))", line)
                if b and cur and not in_test and cur[0] not in ("#####", "=====", "-"):
                    bt += 1
                    if b.group(2) == "never executed" or b.group(3) == "0":
                        nobr.append((cur[1], int(b.group(1)), cur[2]))
                    else:
                        bh += 1
                continue
            cur = (m.group(1).strip(), int(m.group(2)), m.group(3).rstrip())
            cnt, ln, text = m.group(1).strip(), int(m.group(2)), m.group(3)
            if re.match(r"\s*#\s*ifdef\s+__cfg_test__", text):
                in_test = 1
            elif in_test and re.match(r"\s*#\s*if", text):
                in_test += 1
            elif in_test and re.match(r"\s*#\s*endif", text):
                in_test -= 1
            if in_test or cnt == "-":
                continue
            t += 1
            if cnt in ("#####", "====="):
                missed.append((ln, text.rstrip()))
            else:
                h += 1
        tot += t; hit += h
        report.append(f"{name}.c: {h}/{t} executable lines reached" + ("" if not missed else ", not reached:"))
        for ln, text in missed:
            report.append(f"    {ln:5d}: {text}")
        btot += bt; bhit += bh
        report.append(f"{name}.c: {bh}/{bt} branch outcomes taken" + ("" if not nobr else ", never taken:"))
        for ln, bn, text in nobr:
            report.append(f"    {ln:5d} (outcome {bn}): {text.strip()}")
    head = f"reach of the quick-tier batches over /repo/src (first {a.runs} runs of each of {len(seen)} world/mode pairs, {nruns} runs): {hit}/{tot} executable lines and {bhit}/{btot} branch outcomes outside the unit tests"
    os.makedirs(os.path.join(run.VERIF, "evidence"), exist_ok=True)
    with open(os.path.join(run.VERIF, "evidence", "reach.txt"), "w") as fh:
        fh.write(head + "\n" + "\n".join(report) + "\n")
    print(head)
    print("\n".join(report))
    return 0


if __name__ == "__main__":
    sys.exit(main())
